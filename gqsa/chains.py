"""Dispatch chains: ``if / elif / else`` chains whose tests classify one subject by class or literal."""
from __future__ import annotations

import ast
from dataclasses import dataclass, field
from typing import List, Optional, Set, Tuple

from .core import ClassInfo, Module, Repo, dotted, norm


@dataclass
class Branch:
    test: Optional[ast.expr]  # None for the final else
    body: List[ast.stmt]
    node: ast.AST  # the If node (or the first stmt of else)
    subject: Optional[str] = None
    # class-test description
    exact: Set[str] = field(default_factory=set)  # class keys matched exactly (type(x) is C)
    closure: Set[str] = field(default_factory=set)  # class keys matched incl. subclasses (isinstance)
    literals: Set[object] = field(default_factory=set)  # x == lit / x in (lits)
    parsed: bool = False
    module: Optional[Module] = None

    def classes(self, repo: Repo) -> Set[str]:
        """Set of class keys this branch's test accepts (closure expanded)."""
        out = set(self.exact)
        for k in self.closure:
            ci = _by_key(repo, k)
            for s in repo.subclasses(ci):
                out.add(s.key)
        return out

    @property
    def raises(self) -> bool:
        return bool(self.body) and isinstance(self.body[-1], ast.Raise)


def _by_key(repo: Repo, key: str) -> ClassInfo:
    name = key.rsplit(".", 1)[-1]
    for c in repo.classes.get(name, []):
        if c.key == key:
            return c
    raise KeyError(key)


_NEG = {ast.NotEq: ast.Eq, ast.IsNot: ast.Is, ast.NotIn: ast.In}


def positive(test: ast.expr) -> Tuple[ast.expr, bool]:
    """(equivalent positive test, was_negated) for `not T`, `a != b`, `a is not b`, `a not in b`"""
    neg = False
    while isinstance(test, ast.UnaryOp) and isinstance(test.op, ast.Not):
        test, neg = test.operand, not neg
    if isinstance(test, ast.Compare) and len(test.ops) == 1 and type(test.ops[0]) in _NEG:
        t2 = ast.Compare(left=test.left, ops=[_NEG[type(test.ops[0])]()], comparators=test.comparators)
        ast.copy_location(t2, test)
        return t2, not neg
    return test, neg


def chain_of(if_node: ast.If) -> List[Tuple[Optional[ast.expr], List[ast.stmt], ast.AST]]:
    out = []
    cur = if_node
    while True:
        pt, neg = positive(cur.test)
        terminal = not (len(cur.orelse) == 1 and isinstance(cur.orelse[0], ast.If))
        if neg and terminal:
            # `if not T: A else: B`  ==  `if T: B else: A`   (also with B empty)
            out.append((pt, cur.orelse, cur))
            out.append((None, cur.body, cur.body[0]))
            break
        out.append((cur.test, cur.body, cur))
        if not terminal:
            cur = cur.orelse[0]
            continue
        if cur.orelse:
            out.append((None, cur.orelse, cur.orelse[0]))
        break
    return out


def is_chain_head(if_node: ast.If) -> bool:
    p = getattr(if_node, "_parent", None)
    if isinstance(p, ast.If) and len(p.orelse) == 1 and p.orelse[0] is if_node:
        return False
    return True


def _class_keys(repo: Repo, m: Module, expr: ast.expr) -> Optional[List[str]]:
    if isinstance(expr, (ast.Tuple, ast.List)):
        out: List[str] = []
        for e in expr.elts:
            k = _class_keys(repo, m, e)
            if k is None:
                return None
            out += k
        return out
    d = dotted(expr)
    if d is None:
        return None
    ci = repo.resolve_class(m, d)
    if ci is None:
        return None
    return [ci.key]


def _type_subject(expr: ast.expr) -> Optional[str]:
    """Subject of ``type(x)`` / ``x.__class__``; None otherwise."""
    if isinstance(expr, ast.Call) and isinstance(expr.func, ast.Name) and expr.func.id == "type" and len(expr.args) == 1:
        return norm(expr.args[0])
    if isinstance(expr, ast.Attribute) and expr.attr == "__class__":
        return norm(expr.value)
    return None


def _container_elements(m: Module, at: ast.AST, ref: ast.expr) -> Optional[List[ast.expr]]:
    """elements (dict keys / list, tuple, set members) of the literal table that `ref` (`self.NAME`, `cls.NAME`, `NAME`) is bound to at
    class level (of the class enclosing `at`) or module level; None if it is not such a table"""
    name = None
    scope_bodies: List[List[ast.stmt]] = []
    if isinstance(ref, ast.Attribute) and isinstance(ref.value, ast.Name) and ref.value.id in ("self", "cls"):
        name = ref.attr
        p = getattr(at, "_parent", None)
        while p is not None and not isinstance(p, ast.ClassDef):
            p = getattr(p, "_parent", None)
        if p is not None:
            scope_bodies.append(p.body)
    elif isinstance(ref, ast.Name):
        name = ref.id
        scope_bodies.append(m.tree.body)
    if name is None:
        return None
    for body in scope_bodies:
        for st in body:
            if isinstance(st, ast.Assign) and any(isinstance(t, ast.Name) and t.id == name for t in st.targets):
                v = st.value
                if isinstance(v, ast.Dict):
                    return [k for k in v.keys if k is not None]
                if isinstance(v, (ast.List, ast.Tuple, ast.Set)):
                    return list(v.elts)
    return None


def parse_test(repo: Repo, m: Module, test: ast.expr, br: Branch) -> bool:
    """Fill ``br`` from ``test``.  Returns False if the test is not a class/literal classification."""
    if isinstance(test, ast.BoolOp) and isinstance(test.op, ast.Or):
        ok = True
        for v in test.values:
            ok = parse_test(repo, m, v, br) and ok
        return ok
    if isinstance(test, ast.Call) and isinstance(test.func, ast.Name) and test.func.id == "isinstance" and len(test.args) == 2:
        subj = norm(test.args[0])
        keys = _class_keys(repo, m, test.args[1])
        if keys is None:
            return False
        if br.subject not in (None, subj):
            return False
        br.subject = subj
        br.closure.update(keys)
        return True
    if isinstance(test, ast.Compare) and len(test.ops) == 1:
        left, op, right = test.left, test.ops[0], test.comparators[0]
        # `"H" == tag`, `ops.CNOT is type(op)`: equality and identity are symmetric — put the subject on the left
        if isinstance(op, (ast.Eq, ast.Is)) and (isinstance(left, ast.Constant) or _type_subject(right) is not None) \
                and not isinstance(right, ast.Constant) and _type_subject(left) is None:
            left, right = right, left
        ts = _type_subject(left)
        if ts is not None and isinstance(op, ast.In) and isinstance(right, (ast.Name, ast.Attribute)):
            # membership in a class-level / module-level table of classes: `type(op) in self._table`
            elts = _container_elements(m, test, right)
            if elts is not None:
                right = ast.Tuple(elts=elts, ctx=ast.Load())
        if ts is not None and isinstance(op, (ast.Is, ast.Eq, ast.In)):
            keys = _class_keys(repo, m, right)
            if keys is None:
                return False
            if br.subject not in (None, ts):
                return False
            br.subject = ts
            br.exact.update(keys)
            return True
        if isinstance(op, ast.Eq) and isinstance(right, ast.Constant):
            subj = norm(left)
            if br.subject not in (None, subj):
                return False
            br.subject = subj
            br.literals.add(right.value)
            return True
        if isinstance(op, ast.In) and isinstance(right, (ast.Tuple, ast.List, ast.Set)) and all(
            isinstance(e, ast.Constant) for e in right.elts
        ):
            subj = norm(left)
            if br.subject not in (None, subj):
                return False
            br.subject = subj
            br.literals.update(e.value for e in right.elts)
            return True
    return False


def extract_chains(repo: Repo, m: Module, fn: ast.AST) -> List[List[Branch]]:
    """All if/elif chains inside ``fn`` (nested ones included), each as a list of Branches."""
    chains: List[List[Branch]] = []
    for n in ast.walk(fn):
        if isinstance(n, ast.If) and is_chain_head(n):
            brs: List[Branch] = []
            for test, body, node in chain_of(n):
                b = Branch(test, body, node)
                if test is not None:
                    b.parsed = parse_test(repo, m, test, b)
                brs.append(b)
            chains.append(brs)
    return chains


def class_chain(repo: Repo, m: Module, fn: ast.AST, subject: str, min_branches: int = 3) -> List[Branch]:
    """The (unique, longest) chain in ``fn`` that classifies ``subject`` by class."""
    best: List[Branch] = []
    for ch in extract_chains(repo, m, fn):
        n = sum(1 for b in ch if b.parsed and b.subject == subject and (b.exact or b.closure))
        if n >= min_branches and n > sum(1 for b in best if b.parsed and (b.exact or b.closure)):
            best = ch
    return best
