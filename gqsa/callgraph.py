"""Package call graph with stated polarity.

``resolve(call)`` returns (resolved: list of function nodes, kind) where kind is
  'exact'      – module-level function through an import/alias, ``self.m`` through the MRO, ``Cls.m``
  'candidates' – by-name candidates (every function/method of that name in the package)
  'external'   – not a package function (numpy, networkx, builtins, ...)
May-rules use candidates (over-approximation); must-rules use exact edges only.
"""
from __future__ import annotations

import ast
from typing import Dict, Iterable, List, Optional, Set, Tuple

from .core import (Module, Repo, call_attr, call_name, calls_in, dotted, enclosing_class, module_of, qualname)

FuncKey = Tuple[str, str]  # (module rel, qualname)


class CallGraph:
    def __init__(self, repo: Repo):
        self.repo = repo
        self.funcs: Dict[FuncKey, ast.FunctionDef] = {}
        self.by_name: Dict[str, List[FuncKey]] = {}
        self.mod_of: Dict[FuncKey, Module] = {}
        for m in repo.modules.values():
            for f in m.functions():
                k = (m.rel, qualname(f))
                self.funcs[k] = f
                self.mod_of[k] = m
                self.by_name.setdefault(f.name, []).append(k)

    def key(self, m: Module, fn) -> FuncKey:
        return (m.rel, qualname(fn))

    def resolve(self, m: Module, call: ast.Call) -> Tuple[List[FuncKey], str]:
        repo = self.repo
        f = call.func
        name = call_attr(call)
        if isinstance(f, ast.Name):
            # local / imported function or class constructor
            full = repo.resolve_dotted(m, f.id)
            if full:
                modname, _, fn = full.rpartition(".")
                mod = repo.modules.get(modname)
                if mod is not None:
                    node = mod.find(fn)
                    if isinstance(node, ast.FunctionDef):
                        return [(mod.rel, qualname(node))], "exact"
                    if isinstance(node, ast.ClassDef):
                        ci = repo.resolve_class(m, f.id)
                        if ci:
                            r = repo.lookup_method(ci, "__init__")
                            if r:
                                return [(r[0].module.rel, qualname(r[1]))], "exact"
                        return [], "external"
            # nested function defined in an enclosing function
            return [], "external"
        if isinstance(f, ast.Attribute):
            d = dotted(f)
            if d:
                head = d.split(".")[0]
                if head == "self" and d.count(".") == 1:
                    cls = enclosing_class(call)
                    if cls is not None:
                        cis = [c for c in repo.classes.get(cls.name, []) if c.node is cls]
                        if cis:
                            # dynamic dispatch: the method as seen from this class or any subclass override
                            out: List[FuncKey] = []
                            r = repo.lookup_method(cis[0], name)
                            if r:
                                out.append((r[0].module.rel, qualname(r[1])))
                            for sub in repo.subclasses(cis[0], strict=True):
                                ms = sub.methods()
                                if name in ms:
                                    out.append((sub.module.rel, qualname(ms[name])))
                            if out:
                                return sorted(set(out)), "exact"
                full = repo.resolve_dotted(m, d)
                if full:
                    modname, _, fn = full.rpartition(".")
                    mod = repo.modules.get(modname)
                    if mod is not None:
                        node = mod.find(fn)
                        if isinstance(node, ast.FunctionDef):
                            return [(mod.rel, qualname(node))], "exact"
                        if isinstance(node, ast.ClassDef):
                            ci = [c for c in repo.classes.get(fn, []) if c.module is mod]
                            if ci:
                                r = repo.lookup_method(ci[0], "__init__")
                                if r:
                                    return [(r[0].module.rel, qualname(r[1]))], "exact"
                    # Cls.method
                    parts = full.split(".")
                    if len(parts) >= 3:
                        mod = repo.modules.get(".".join(parts[:-2]))
                        if mod is not None:
                            node = mod.find(".".join(parts[-2:]))
                            if isinstance(node, ast.FunctionDef):
                                return [(mod.rel, qualname(node))], "exact"
                    if full.split(".")[0] != Repo.PKG:
                        return [], "external"
                elif head in m.imports and m.imports[head].split(".")[0] != Repo.PKG:
                    return [], "external"
            cands = [k for k in self.by_name.get(name, []) if "." in k[1]]  # methods only
            if cands:
                return cands, "candidates"
        return [], "external"

    def callees(self, k: FuncKey, exact_only: bool = False) -> Set[FuncKey]:
        m = self.mod_of[k]
        out: Set[FuncKey] = set()
        for c in calls_in(self.funcs[k]):
            ks, kind = self.resolve(m, c)
            if kind == "exact" or (kind == "candidates" and not exact_only):
                out.update(ks)
        return out

    def closure(self, roots: Iterable[FuncKey], exact_only: bool = False) -> Set[FuncKey]:
        seen: Set[FuncKey] = set()
        work = [r for r in roots if r in self.funcs]
        while work:
            k = work.pop()
            if k in seen:
                continue
            seen.add(k)
            work.extend(self.callees(k, exact_only) - seen)
        return seen
