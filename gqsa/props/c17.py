"""C17 — density-matrix fidelity, trace distance, partial trace (structural clauses, DESIGN §5.17)."""
from __future__ import annotations

import ast

from ..core import AnalysisError, call_attr, call_name, calls_in, func_params, norm, parent, short
from ..driver import Knockout, sub_nth, sub_once
from ..report import Ctx
from ..rules import numeric, shapes
from ..rules.numeric import DMF, DMS

METRICS = "graphiq/metrics.py"

EXPLANATION = (
    "Static rules over density_matrix/functions.py, density_matrix/state.py and the two state metrics: every transpose "
    "of a possibly-complex matrix is composed with conjugation (num.adjoint; integer index arrays exempt); the einsum "
    "of partial_trace repeats the label of each dropped axis in both halves of its input subscript, otherwise einsum "
    "can only sum, never trace (num.einsum-trace); no function on the value path of fidelity / trace_distance / "
    "partial_trace / Infidelity.evaluate / TraceDistance.evaluate raises a Warning class (num.raise-warning, exact "
    "call-graph closure); the metrics convert a *copy* of the state to the target's representation before calling the "
    "backend function and pair target data with state data of the same representation (rep.dispatch). "
    "Does not decide symmetry, range, the Uhlmann value or the Fuchs-van de Graaf bounds numerically.")


def rule_leading_block_trace(ctx: Ctx) -> None:
    """trace.leading-block: `rho.reshape(d_keep, d_rest, d_keep, d_rest)` followed by a trace over the two `d_rest` axes is the partial trace
    only when the kept subsystems are the *leading* block of the tensor product.  A fast path of that shape has to be guarded by a test that
    the kept indices start at position 0 (keep[0] == 0, or keep equal to arange(len(keep))); "consecutive" alone also admits [1], [1, 2], …,
    for which the reshape returns the reduced state of the first len(keep) subsystems instead."""
    repo = ctx.repo
    n = 0
    for rel, q in (("graphiq/backends/density_matrix/state.py", "DensityMatrix.partial_trace"), ("graphiq/backends/density_matrix/functions.py", "partial_trace")):
        m = repo.module(rel)
        fn = repo.anchor(rel, q)
        ctx.touch(m, fn)
        n += 1
        keep = func_params(fn)[1] if q.startswith("DensityMatrix") else func_params(fn)[1]
        fast = [c for c in ast.walk(fn) if isinstance(c, ast.Call) and call_attr(c) == "reshape" and len(c.args) == 4
                and norm(c.args[0]) == norm(c.args[2]) and norm(c.args[1]) == norm(c.args[3]) and norm(c.args[0]) != norm(c.args[1])]
        if not fast:
            ctx.ok("trace.leading-block", m, fn, what=f"{q}: no leading-block fast path")
            continue
        for c in fast:
            g = parent(c)
            tests = []
            while g is not None and g is not fn:
                if isinstance(g, ast.If) and any(c is x for st in g.body for x in ast.walk(st)):
                    tests.append(g.test)
                g = parent(g)
            txt = " and ".join(norm(t) for t in tests)
            starts0 = any(k in txt for k in (f"{keep}[0] == 0", f"0 == {keep}[0]", f"{keep}[0]==0", "arange(", f"range(len({keep}))", f"{keep}.min() == 0", f"min({keep}) == 0"))
            if starts0:
                ctx.ok("trace.leading-block", m, c, what="fast path guarded by 'kept block starts at position 0'")
            else:
                ctx.fail("trace.leading-block", m, c,
                         f"{q} takes the reshape-and-trace fast path `{short(c, 70)}` under `{txt[:90] or 'no condition'}`: nothing tests that the kept indices start at "
                         f"position 0, so keep = [1], [1, 2], [2, 3] … are treated as a leading block and the reduced state of the first len(keep) subsystems is "
                         f"returned (a valid density matrix of the right shape, nothing raises)", func=q, construct=f"{q}: leading-block fast path for any consecutive run")
    if n == 0:
        raise AnalysisError("trace.leading-block: no site")


def run(ctx: Ctx) -> None:
    rule_leading_block_trace(ctx)
    from ..rules import effects as _eff
    _eff.rule_weighted_fidelity(ctx)
    from ..rules import memo as _memo
    _memo.rule_memo_sound(ctx, ['graphiq/backends/density_matrix/functions.py', 'graphiq/metrics.py', 'graphiq/backends/density_matrix/state.py'])
    _memo.rule_falsy_zero(ctx, ['graphiq/backends/density_matrix/functions.py', 'graphiq/metrics.py', 'graphiq/backends/density_matrix/state.py'])
    _memo.rule_arg_names(ctx, ['graphiq/backends/density_matrix/functions.py', 'graphiq/metrics.py', 'graphiq/backends/density_matrix/state.py'])
    _memo.rule_fixed_width(ctx, ['graphiq/backends/density_matrix/functions.py', 'graphiq/metrics.py', 'graphiq/backends/density_matrix/state.py'])
    _memo.rule_paste_incomplete(ctx, ['graphiq/backends/density_matrix/functions.py', 'graphiq/metrics.py', 'graphiq/backends/density_matrix/state.py'])
    _memo.rule_negative_start(ctx, ['graphiq/backends/density_matrix/functions.py', 'graphiq/metrics.py', 'graphiq/backends/density_matrix/state.py'])
    _memo.rule_elim_no_pivot(ctx, ['graphiq/backends/density_matrix/functions.py', 'graphiq/metrics.py', 'graphiq/backends/density_matrix/state.py'])
    _memo.rule_subject_drift(ctx, ['graphiq/backends/density_matrix/functions.py', 'graphiq/metrics.py', 'graphiq/backends/density_matrix/state.py'])
    _memo.rule_isinstance_on_class(ctx, ['graphiq/backends/density_matrix/functions.py', 'graphiq/metrics.py', 'graphiq/backends/density_matrix/state.py'])
    _memo.rule_zip_truncation(ctx, ['graphiq/backends/density_matrix/functions.py', 'graphiq/metrics.py', 'graphiq/backends/density_matrix/state.py'])
    _memo.rule_search_fallthrough(ctx, ['graphiq/backends/density_matrix/functions.py', 'graphiq/metrics.py', 'graphiq/backends/density_matrix/state.py'])
    _memo.rule_zip_pairing(ctx, ['graphiq/backends/density_matrix/functions.py', 'graphiq/metrics.py', 'graphiq/backends/density_matrix/state.py'])
    numeric.rule_adjoint(ctx, [DMF, DMS])
    numeric.rule_einsum_trace(ctx)
    numeric.rule_raise_warning(ctx, [(DMF, "fidelity"), (DMF, "trace_distance"), (DMF, "partial_trace"),
                                     (METRICS, "Infidelity.evaluate"), (METRICS, "TraceDistance.evaluate")])
    rule_rep_dispatch(ctx)
    rule_metric_value(ctx)
    rule_pauli_from_bits(ctx)
    from .c05 import rule_fid_shape, rule_counter_condition
    rule_fid_shape(ctx)          # the stabilizer side of the cross-representation clause: Infidelity delegates to sfm.fidelity / inner_product
    rule_counter_condition(ctx)
    rule_distance_whole_state(ctx)
    numeric.rule_hermitian_args(ctx, DMF, ["fidelity", "trace_distance"])
    numeric.rule_spectral_sqrt(ctx)
    numeric.rule_spectra_paired(ctx, [DMF])
    # the cross-representation clause goes through convert_representation('dm') -> stabilizer_to_density (known finding shared with C08)
    from .c08 import rule_density_signs
    rule_density_signs(ctx)
    shapes.rule_trace_distance_shape(ctx)
    ctx.floor("num.adjoint", 15)
    ctx.floor("num.raise-warning", 8)


def _derived(fn, sp, copies):
    """(names derived from self.target, names derived from the evaluated state) — assignment / loop / comprehension closure"""
    tgt, st = set(), {sp} | set(copies)
    changed = True
    while changed:
        changed = False
        binds = []
        for n in ast.walk(fn):
            if isinstance(n, ast.Assign):
                for t in n.targets:
                    binds.append((t, n.value))
            elif isinstance(n, ast.For):
                binds.append((n.target, n.iter))
            elif isinstance(n, ast.comprehension):
                binds.append((n.target, n.iter))
        for t, v in binds:
            names = [x.id for x in ast.walk(t) if isinstance(x, ast.Name)]
            is_t = any((isinstance(x, ast.Attribute) and norm(x) == "self.target") or (isinstance(x, ast.Name) and x.id in tgt) for x in ast.walk(v))
            is_s = any(isinstance(x, ast.Name) and x.id in st for x in ast.walk(v))
            for nm in names:
                if is_t and not is_s and nm not in tgt:
                    tgt.add(nm); changed = True
                if is_s and not is_t and nm not in st:
                    st.add(nm); changed = True
    return tgt, st


def rule_rep_dispatch(ctx: Ctx) -> None:
    repo = ctx.repo
    m = repo.module(METRICS)
    for q, backend_calls in (("Infidelity.evaluate", {"fidelity"}), ("TraceDistance.evaluate", {"trace_distance"})):
        fn = repo.anchor(METRICS, q)
        ctx.touch(m, fn)
        sp = func_params(fn)[1]
        copies = set()
        for n in ast.walk(fn):
            if isinstance(n, ast.Assign) and isinstance(n.value, ast.Call) and call_name(n.value) == f"{sp}.copy" \
                    and isinstance(n.targets[0], ast.Name):
                copies.add(n.targets[0].id)
        for c in calls_in(fn):
            if call_attr(c) == "convert_representation":
                recv = norm(c.func.value)
                if recv in copies:
                    ctx.ok("rep.dispatch", m, c, what="conversion on a copy")
                else:
                    ctx.fail("rep.dispatch", m, c,
                             f"`{short(c)}` converts `{recv}` in place; the metric must convert a copy of the caller's state",
                             func=q)
            if call_attr(c) in backend_calls and (call_name(c) or "").split(".")[0] in ("dmf", "sfm"):
                if len(c.args) != 2:
                    raise AnalysisError(f"{q}: backend call shape {short(c)}")
                tgt_d, st_d = _derived(fn, sp, copies)
                def _mentions(e, names, attr_self_target=False):
                    for x in ast.walk(e):
                        if isinstance(x, ast.Name) and x.id in names:
                            return True
                        if attr_self_target and isinstance(x, ast.Attribute) and norm(x) == "self.target":
                            return True
                    return False
                a_t, a_s = _mentions(c.args[0], tgt_d, True), _mentions(c.args[0], st_d)
                b_t, b_s = _mentions(c.args[1], tgt_d, True), _mentions(c.args[1], st_d)
                tgt_ok = a_t and not a_s
                st_ok = b_s and not b_t
                if tgt_ok and st_ok:
                    ctx.ok("rep.dispatch", m, c, what="target paired with the (converted) state")
                else:
                    ctx.fail("rep.dispatch", m, c,
                             f"`{short(c)}` does not pair the target's data with the evaluated state's data", func=q)


def rule_metric_value(ctx: Ctx) -> None:
    """metric.value: Infidelity.evaluate returns (and logs) 1 - F where F is the name every backend fidelity call is bound to;
    TraceDistance.evaluate returns (and logs) the name bound to the backend distance.  Inside the branch `self.target.rep_type == L`
    the caller's state is used as it is only under `state.rep_type == L`, and a copy is converted to that same L otherwise."""
    repo = ctx.repo
    m = repo.module(METRICS)
    for q, back, comp in (("Infidelity.evaluate", "fidelity", True), ("TraceDistance.evaluate", "trace_distance", False)):
        fn = repo.anchor(METRICS, q)
        ctx.touch(m, fn)
        sp = func_params(fn)[1]
        names = set()
        for n in ast.walk(fn):
            if isinstance(n, ast.Assign) and len(n.targets) == 1 and isinstance(n.targets[0], ast.Name) and \
                    any(call_attr(c) == back and (call_name(c) or "").split(".")[0] in ("dmf", "sfm") for c in calls_in(n.value)):
                names.add(n.targets[0].id)
        if len(names) != 1:
            raise AnalysisError(f"{q}: the backend {back} calls are not bound to one name ({sorted(names)})")
        v = names.pop()
        want = [f"1 - {v}", f"1.0 - {v}"] if comp else [v]
        outs = [r.value for r in ast.walk(fn) if isinstance(r, ast.Return) and r.value is not None]
        outs += [c.args[0] for c in calls_in(fn) if call_attr(c) == "append" and norm(c.func.value) == "self.log" and c.args]
        if not outs:
            raise AnalysisError(f"{q}: no return value")
        bad = [o for o in outs if norm(o) not in want]
        if bad:
            ctx.fail("metric.value", m, bad[0], f"{q} returns / logs `{short(bad[0])}`; the metric is `{want[0]}` with `{v}` the backend {back}", func=q,
                     construct=f"{q}: value {norm(bad[0])[:40]}")
        else:
            ctx.ok("metric.value", m, outs[0], what=f"{q}: {want[0]} returned and logged ({len(outs)} sites)")
        # representation literals agree inside each target branch
        def lit_of(test, subj):
            if isinstance(test, ast.Compare) and len(test.ops) == 1 and isinstance(test.ops[0], ast.Eq):
                l_, r_ = test.left, test.comparators[0]
                if isinstance(l_, ast.Constant):
                    l_, r_ = r_, l_
                if norm(l_) == subj and isinstance(r_, ast.Constant):
                    return r_.value
            return None
        cur = [i for i in fn.body if isinstance(i, ast.If) and "self.target.rep_type" in norm(i.test)]
        if len(cur) != 1:
            raise AnalysisError(f"{q}: the dispatch on self.target.rep_type was not found")
        node = cur[0]
        nbr = 0
        while isinstance(node, ast.If):
            nt_, arm_, rest_ = node.test, node.body, node.orelse
            if isinstance(nt_, ast.UnaryOp) and isinstance(nt_.op, ast.Not):
                nt_, arm_, rest_ = nt_.operand, rest_, arm_
            elif isinstance(nt_, ast.Compare) and len(nt_.ops) == 1 and isinstance(nt_.ops[0], ast.NotEq):
                nt_, arm_, rest_ = ast.Compare(left=nt_.left, ops=[ast.Eq()], comparators=nt_.comparators), rest_, arm_
            L = lit_of(nt_, "self.target.rep_type")
            if L is None:
                raise AnalysisError(f"{q}: test `{short(node.test)}` of the representation dispatch not recognised")
            nbr += 1
            inner = [i for i in arm_ if isinstance(i, ast.If) and f"{sp}.rep_type" in norm(i.test)]
            if len(inner) != 1:
                raise AnalysisError(f"{q}: branch {L!r}: the test of the state's representation was not found")
            it_, direct_arm, conv_arm = inner[0].test, inner[0].body, inner[0].orelse
            if isinstance(it_, ast.UnaryOp) and isinstance(it_.op, ast.Not):
                it_, direct_arm, conv_arm = it_.operand, conv_arm, direct_arm
            elif isinstance(it_, ast.Compare) and len(it_.ops) == 1 and isinstance(it_.ops[0], ast.NotEq):
                it_ = ast.Compare(left=it_.left, ops=[ast.Eq()], comparators=it_.comparators)
                direct_arm, conv_arm = conv_arm, direct_arm
            L2 = lit_of(it_, f"{sp}.rep_type")
            if L2 is None:
                raise AnalysisError(f"{q}: branch {L!r}: test `{short(inner[0].test)}` not recognised")
            conv = [c for st in conv_arm for c in calls_in(st) if call_attr(c) == "convert_representation"]
            direct_conv = [c for st in direct_arm for c in calls_in(st) if call_attr(c) == "convert_representation"]
            why = None
            if L2 != L:
                why = f"the state is used unconverted when its representation is {L2!r}, in the branch for a {L!r} target"
            elif direct_conv or len(conv) != 1 or not (conv[0].args and isinstance(conv[0].args[0], ast.Constant) and conv[0].args[0].value == L):
                why = f"a state held in another representation must be converted (as a copy) to {L!r}: found `{short(conv[0]) if conv else 'no conversion'}`"
            if why:
                ctx.fail("metric.value", m, inner[0], f"{q}: {why}", func=q, construct=f"{q}: branch {L}: {why[:50]}")
            else:
                ctx.ok("metric.value", m, inner[0], what=f"{q}: branch {L!r}: direct use iff state is {L!r}, else copy converted to {L!r}")
            node = rest_[0] if len(rest_) == 1 and isinstance(rest_[0], ast.If) else None
    ctx.floor("metric.value", 5)


def rule_pauli_from_bits(ctx: Ctx) -> None:
    """conv.pauli-from-bits: when the stabilizer -> density-matrix conversion builds a generator's matrix from its symplectic row with a
    per-qubit loop (`for x, z in zip(x_row, z_row): factor = ...`), the factor for the four bit pairs is I, X, Z and the *Hermitian* Y
    (= i X Z = -i Z X).  The loop body is interpreted (gqsa/minterp.py, 2 x 2 complex matrices) for the four pairs; Z X with a factor i is
    -Y, and a generator with an odd number of Y's then projects onto the orthogonal state."""
    from .. import minterp
    repo = ctx.repo
    m = repo.module("graphiq/backends/state_rep_conversion.py")
    I2, X, Y, Z = minterp.Mat([[1, 0], [0, 1]]), minterp.Mat([[0, 1], [1, 0]]), minterp.Mat([[0, -1j], [1j, 0]]), minterp.Mat([[1, 0], [0, -1]])
    want = {(0, 0): ("I", I2), (1, 0): ("X", X), (0, 1): ("Z", Z), (1, 1): ("Y", Y)}
    n = 0
    for fn in [f for f in m.tree.body if isinstance(f, ast.FunctionDef)]:
        for lp in [l for l in ast.walk(fn) if isinstance(l, ast.For) and isinstance(l.target, ast.Tuple) and len(l.target.elts) == 2
                   and isinstance(l.iter, ast.Call) and call_name(l.iter) == "zip" and any(call_name(c) in ("np.kron", "kron") for c in calls_in(l))]:
            xs, zs = norm(l.target.elts[0]) if False else None, None
            names = [norm(e) for e in lp.target.elts]
            args = [norm(a) for a in lp.iter.args]
            if not (any("x" in a for a in args) and any("z" in a for a in args)):
                continue
            xi = 0 if "x" in args[0] else 1
            xn, zn = names[xi], names[1 - xi]
            kron = [c for c in calls_in(lp) if call_name(c) in ("np.kron", "kron")][0]
            fac = kron.args[1] if len(kron.args) == 2 else None
            if not isinstance(fac, ast.Name):
                raise AnalysisError(f"{fn.name}: the per-qubit factor handed to kron is not a local name")
            n += 1
            ctx.touch(m, fn)
            pre = {}
            for a in fn.body:
                if isinstance(a, ast.Assign) and len(a.targets) == 1 and isinstance(a.targets[0], ast.Name) and a.lineno < lp.lineno:
                    pre[a.targets[0].id] = a.value

            def oracle(c, it):
                cn = call_name(c) or ""
                if cn in ("np.eye", "np.identity") and c.args and isinstance(c.args[0], ast.Constant) and c.args[0].value == 2:
                    return I2
                tail = cn.split(".")[-1]
                if tail in ("sigmax", "sigmay", "sigmaz", "identity") and not c.args:
                    return {"sigmax": X, "sigmay": Y, "sigmaz": Z, "identity": I2}[tail]
                if cn in ("np.kron", "kron"):
                    return None
                return NotImplemented
            wrong = []
            for (xv, zv), (nm, mat) in want.items():
                env = {xn: xv, zn: zv}
                it = minterp.Interp(env, oracle)
                try:
                    for k_, v_ in pre.items():
                        try:
                            env[k_] = it.ev(v_)
                        except minterp.Unmodelled:
                            pass
                    it.run([st for st in lp.body if not any(x_ is kron for x_ in ast.walk(st))])
                except (minterp.Unmodelled, minterp.ModelError) as e:
                    raise AnalysisError(f"{fn.name}: per-qubit Pauli factor uses a construct the matrix model does not cover: {e}")
                got = env.get(fac.id)
                if not isinstance(got, minterp.Mat):
                    raise AnalysisError(f"{fn.name}: the per-qubit factor did not evaluate to a matrix")
                if not got.close(mat):
                    wrong.append(nm + (" (it is -" + nm + ")" if got.close(-mat) else ""))
            if wrong:
                ctx.fail("conv.pauli-from-bits", m, lp,
                         f"{fn.name} builds the per-qubit factor for {', '.join(wrong)} wrongly: the Hermitian Y is i X Z = -i Z X, and a generator with an odd number of Y's "
                         f"otherwise converts to the projector on the orthogonal state (|+i> is converted to |-i>)", func=fn.name,
                         construct=f"{fn.name}: per-qubit Pauli factor wrong for {wrong[0][:1]}")
            else:
                ctx.ok("conv.pauli-from-bits", m, lp, what=f"{fn.name}: factors I, X, Z, Y for the four bit pairs")
    ctx.ok_abstract("conv.pauli-from-bits", f"{n} per-qubit Pauli constructions from symplectic bits")


def rule_distance_whole_state(ctx: Ctx) -> None:
    """dist.whole-state: the trace distance is not linear in a mixture — T(t, sum_i p_i rho_i) <= sum_i p_i T(t, rho_i), with equality only
    in special cases — so TraceDistance.evaluate has to hand dmf.trace_distance the density matrix of the *whole* state.  A weighted sum
    of per-branch distances (the shape that is right for the fidelity with a pure target) over-estimates it."""
    repo = ctx.repo
    m = repo.module(METRICS)
    fn = repo.anchor(METRICS, "TraceDistance.evaluate")
    ctx.touch(m, fn)
    calls = [c for c in calls_in(fn) if (call_name(c) or "").split(".")[-1] == "trace_distance"]
    if not calls:
        raise AnalysisError("TraceDistance.evaluate: no trace_distance call")
    for c in calls:
        per_branch = None
        p_ = parent(c)
        while p_ is not None and p_ is not fn:
            gens = p_.generators if isinstance(p_, (ast.ListComp, ast.GeneratorExp, ast.SetComp)) else ([p_] if isinstance(p_, ast.For) else [])
            for g in gens:
                if "mixture" in norm(g.iter):
                    per_branch = g
            p_ = parent(p_)
        if per_branch is None:
            ctx.ok("dist.whole-state", m, c, what="trace distance of the whole state")
        else:
            ctx.fail("dist.whole-state", m, c,
                     f"TraceDistance.evaluate evaluates `{short(c, 60)}` once per branch of `{short(per_branch.iter)}` and combines the results: the trace "
                     f"distance is not linear in the mixture, the weighted sum of branch distances is only an upper bound (target |00>, state "
                     f"(|+0><+0| + |0+><0+|)/2: 0.7071 instead of 0.6404)", func="TraceDistance.evaluate",
                     construct="TraceDistance.evaluate: per-branch trace distance")


def _edit_add_pauli_helper(src: str) -> str:
    """a helper that builds a generator's matrix from its symplectic row, with Y written as i * Z @ X (= -Y)"""
    return src + ("\n\ndef _pauli_from_symplectic(x_row, z_row):\n"
                  "    single_qubit = [np.eye(2), dmf.sigmax(), dmf.sigmaz()]\n"
                  "    pauli = 1\n"
                  "    for x, z in zip(x_row, z_row):\n"
                  "        factor = single_qubit[2 * int(z)] @ single_qubit[int(x)]\n"
                  "        if x and z:\n"
                  "            factor = 1j * factor\n"
                  "        pauli = np.kron(pauli, factor)\n"
                  "    return pauli\n")


KNOCKOUTS = [
    Knockout("state-partial-trace-fast-path-for-any-run", "graphiq/backends/density_matrix/state.py", sub_once("        self.data = dmf.partial_trace(self.data, keep, dims)\n", "        keep = np.asarray(keep, dtype=int)\n        dims = np.asarray(dims, dtype=int)\n        if 0 < keep.size < dims.size and np.all(np.diff(keep) == 1):\n            d_keep = int(np.prod(dims[keep]))\n            d_rest = int(np.prod(dims)) // d_keep\n            self.data = np.trace(self.data.reshape(d_keep, d_rest, d_keep, d_rest), axis1=1, axis2=3)\n        else:\n            self.data = dmf.partial_trace(self.data, keep, dims)\n"), "trace.leading-block", "start at"),
    Knockout("pauli-from-bits-y-sign", "graphiq/backends/state_rep_conversion.py", _edit_add_pauli_helper, "conv.pauli-from-bits", "per-qubit Pauli factor"),
    Knockout("fidelity-commuting-shortcut-pairs-sorted-spectra", DMF, sub_once("    else:\n        # if both are mixed, use the definition\n", "    elif np.allclose(rho @ sigma, sigma @ rho):\n        p_vals, _ = eigh(rho)\n        q_vals, _ = eigh(sigma)\n        return np.sum(np.sqrt(np.maximum(p_vals, 0) * np.maximum(q_vals, 0))) ** 2\n    else:\n        # if both are mixed, use the definition\n"), "num.spectra-paired", "paired by position"),
    Knockout("branches-selected-not-weighted-by-fidelity", "graphiq/metrics.py", sub_once("[p_i * sfm.fidelity(tableau, t_i) for p_i, t_i in rep_data.mixture]", "[p_i for p_i, t_i in rep_data.mixture if t_i == tableau]"), "weight.fidelity", "branch contribution"),
    Knockout("infidelity-returns-fidelity", "graphiq/metrics.py", sub_once("            self.log.append(1 - fid)\n\n        return 1 - fid", "            self.log.append(1 - fid)\n\n        return fid"), "metric.value", "returns / logs"),
    Knockout("infidelity-converts-to-wrong-rep", "graphiq/metrics.py", sub_once('                tmp_state.convert_representation("s")\n                rep_data = tmp_state.rep_data', '                tmp_state.convert_representation("dm")\n                rep_data = tmp_state.rep_data'), "metric.value", "converted"),
    Knockout("trace-distance-direct-on-stabilizer", "graphiq/metrics.py", sub_once('            if state.rep_type == "dm":\n                trace_distance', '            if state.rep_type == "s":\n                trace_distance'), "metric.value", "unconverted"),
    Knockout("uhlmann-trace-not-squared", DMF, sub_once("        f = np.real(np.trace(rho_final)) ** 2\n", "        f = np.real(np.trace(rho_final))\n"), "dist.shape", "Uhlmann"),
    Knockout("trace-distance-branch-by-branch", "graphiq/metrics.py", sub_once("            else:\n                tmp_state = state.copy()\n                tmp_state.convert_representation(\"dm\")\n                trace_distance = dmf.trace_distance(", "            elif hasattr(state.rep_data, \"mixture\"):\n                trace_distance = sum(p_i * dmf.trace_distance(self.target.rep_data.data, t_i) for p_i, t_i in state.rep_data.mixture)\n            else:\n                tmp_state = state.copy()\n                tmp_state.convert_representation(\"dm\")\n                trace_distance = dmf.trace_distance("), "dist.whole-state", "per-branch"),
    Knockout("branch-overlap-not-squared", "graphiq/metrics.py", sub_once("[p_i * sfm.fidelity(tableau, t_i) for p_i, t_i in rep_data.mixture]", "[p_i * sfm.inner_product(tableau, t_i) for p_i, t_i in rep_data.mixture]"), "weight.fidelity", "not squared"),
    Knockout("infidelity-chain-tests-unconverted-state", "graphiq/metrics.py", sub_once("            elif isinstance(rep_data, MixedStabilizer):", "            elif isinstance(state.rep_data, MixedStabilizer):"), "chain.subject-drift", "Infidelity.evaluate"),
    Knockout("sqrtm-clip-at-tolerance", DMF, sub_once("    eig_vals = np.maximum(eig_vals, 0)\n", "    eig_vals = np.where(eig_vals > 1e-8, eig_vals, 0.0)\n"), "num.spectral-sqrt", "zeroes every eigenvalue below"),
    Knockout("sqrtm-maximum-eps", DMF, sub_once("    eig_vals = np.maximum(eig_vals, 0)\n", "    eig_vals = np.maximum(eig_vals, 1e-12)\n"), "num.spectral-sqrt", "clips the eigenvalues at"),
    Knockout("branch-fidelity-unweighted", "graphiq/metrics.py", sub_once("[p_i * sfm.fidelity(tableau, t_i) for p_i, t_i in rep_data.mixture]", "[sfm.fidelity(tableau, t_i) for p_i, t_i in rep_data.mixture]"), "weight.fidelity", "not weighted"),
    Knockout("trace-distance-one-pure-shortcut", DMF, sub_once("    eigvals, _ = eigh(rho - sigma)\n", "    if is_pure(rho) or is_pure(sigma):\n        return np.sqrt(1.0 - np.real(np.trace(rho @ sigma)))\n    eigvals, _ = eigh(rho - sigma)\n"), "dist.shape", "shortcut not restricted"),
    Knockout("einsum-dropped-label-reversed", DMF, sub_once("string.ascii_uppercase[i] if i in keep else string.ascii_lowercase[i]", "string.ascii_uppercase[i] if i in keep else string.ascii_lowercase[ndim - 1 - i]"), "num.einsum-trace", "do not pair row i"),
    Knockout("fidelity-one-sided-product", DMF, sub_once("rho_sigma = sqrt_rho @ sigma @ sqrt_rho", "rho_sigma = sqrt_rho @ sqrt_rho @ sigma"), "num.hermitian-arg", "non-Hermitian product"),
    Knockout("dist-half", DMF, sub_once("    return 0.5 * np.sum(np.abs(eigvals))", "    return np.sum(np.abs(eigvals))"), "dist.shape", "trace_distance"),
    Knockout("fid-pure-and", DMF, sub_once("    if is_pure(rho) or is_pure(sigma):", "    if is_pure(rho) and is_pure(sigma):"), "dist.shape", "fidelity"),
    Knockout("G1-drop-conjugate-channel", DMS,
             sub_once("tmp_state = tmp_state + kraus_ops[i] @ self._data @ np.conjugate(\n                    kraus_ops[i].T\n                )",
                      "tmp_state = tmp_state + kraus_ops[i] @ self._data @ kraus_ops[i].T"),
             "num.adjoint", "kraus_ops"),
    Knockout("G1-drop-conjugate-unitary", DMS,
             sub_once("self._data = unitary @ self._data @ np.transpose(np.conjugate(unitary))", "self._data = unitary @ self._data @ np.transpose(unitary)"),
             "num.adjoint", "unitary"),
    Knockout("G1-sqrtm", DMF, sub_once("@ np.conjugate(eig_vecs.T)", "@ eig_vecs.T"), "num.adjoint", "eig_vecs", on_fixed_only=True),
    Knockout("G2-einsum-sum", DMF,
             sub_once("[\n            string.ascii_uppercase[i] if i in keep else string.ascii_lowercase[i]\n            for i in range(ndim)\n        ]",
                      "[string.ascii_uppercase[i] for i in range(ndim)]"),
             "num.einsum-trace", "partial_trace", on_fixed_only=True),
    Knockout("G3-raise-warning", DMF,
             sub_once("    eigvals, _ = eigh(rho - sigma)\n", "    eigvals, _ = eigh(rho - sigma)\n    if np.sum(np.abs(eigvals)) > 2:\n        raise Warning('trace distance above 1')\n"),
             "num.raise-warning", "trace_distance"),
    Knockout("rep-dispatch-inplace", METRICS,
             sub_nth("                tmp_state = state.copy()\n                tmp_state.convert_representation(\"dm\")\n                fid = dmf.fidelity(self.target.rep_data.data, tmp_state.rep_data.data)",
                     "                state.convert_representation(\"dm\")\n                fid = dmf.fidelity(self.target.rep_data.data, state.rep_data.data)", 0),
             "rep.dispatch", "convert_representation"),
]
