"""C09 — local-Clifford equivalence (narrow structural claim, DESIGN §5.9)."""
from __future__ import annotations

import ast

from .. import clifford as cl
from ..chains import extract_chains
from ..core import AnalysisError, call_attr, call_name, calls_in, func_params, norm, parent, short
from ..driver import Knockout, sub_nth, sub_once
from ..report import Ctx
from ..rules import gatesum, loops, tables
from ..rules.tables import LCE

LCC = "graphiq/backends/stabilizer/functions/local_cliff_equi_check.py"
SRC = "graphiq/backends/state_rep_conversion.py"
GRAPH = "graphiq/backends/graph/state.py"

EXPLANATION = (
    "Narrow structural claim. local_clifford_ops' matrix table is exactly the six pairwise distinct invertible binary "
    "2x2 matrices and every name string multiplies, over GF(2) with the table's own generators, to its matrix "
    "(table.gl22 — a missing or duplicated block silently drops a qubit's gate and shifts the list); "
    "converter_gate_list emits each name's tokens right-to-left (order.wrapper: rightmost acts first); every tag produced "
    "by local_clifford_ops / converter_gate_list / state_to_graph / _phase_correction is handled by run_circuit and "
    "str_to_op (vocab.gates); lc_check's inversion maps every non-self-inverse tag that can reach it to its Clifford "
    "inverse and reverses the list; Graph.local_complementation toggles exactly the pairs of neighbours of the chosen "
    "vertex (lc.toggle: combinations(neighbours, 2), has_edge -> remove_edge else add_edge, no other edge mutation). "
    "The random search hands _vec_solution_finder (which fills its argument in place) a vector created in the same trial "
    "(trial.fresh, reaching definitions over the loop's back edge); _is_valid_clifford reduces the block determinants mod 2 "
    "before testing their truth (gf2.truth). "
    "Does not decide soundness/completeness of is_lc_equivalent, the R-matrix reduction, or local_comp_graph's matrix formula.")


def run(ctx: Ctx) -> None:
    repo = ctx.repo
    tables.rule_gl22(ctx)
    rule_token_order(ctx)
    tm = repo.module(gatesum.TRANSFORM)
    rc = repo.anchor(gatesum.TRANSFORM, "run_circuit")
    handled = tables.handled_tags_chain(repo, tm, rc)
    tables.rule_vocab(ctx, "vocab.gates",
                      [(LCC, "lc_check"), (LCC, "converter_gate_list"), (SRC, "state_to_graph"), (SRC, "_phase_correction")],
                      "run_circuit", handled, extra_tokens=tables.gl22_tokens(repo))
    rule_lc_check_inversion(ctx)
    rule_lc_toggle(ctx)
    loops.rule_trial_fresh(ctx, LCE)
    loops.rule_gf2_truth(ctx, LCE, "_is_valid_clifford")
    ctx.floor("table.gl22", 7)
    ctx.floor("vocab.gates", 6)


def rule_token_order(ctx: Ctx) -> None:
    repo = ctx.repo
    m = repo.module(LCC)
    fn = repo.anchor(LCC, "converter_gate_list")
    ctx.touch(m, fn)
    loops = [n for n in ast.walk(fn) if isinstance(n, ast.For) and "split" in norm(n.iter)]
    if len(loops) != 1:
        raise AnalysisError("converter_gate_list: token loop not found")
    it = loops[0].iter
    rev = (isinstance(it, ast.Subscript) and isinstance(it.slice, ast.Slice) and it.slice.step is not None
           and norm(it.slice.step) == "-1" and it.slice.lower is None and it.slice.upper is None) or \
          (isinstance(it, ast.Call) and call_attr(it) == "reversed")
    body_appends = [c for c in calls_in(loops[0]) if call_attr(c) == "append"]
    if rev and body_appends:
        ctx.ok("order.wrapper", m, it, what="tokens emitted right-to-left (rightmost acts first)")
    else:
        ctx.fail("order.wrapper", m, it,
                 f"converter_gate_list walks a name's tokens as `{short(it)}`; a name such as 'P H' is a matrix product whose "
                 f"rightmost factor acts first, so the tokens must be emitted in reverse", func="converter_gate_list",
                 construct=f"converter_gate_list: token order {short(it)}")


def rule_lc_check_inversion(ctx: Ctx) -> None:
    repo = ctx.repo
    m = repo.module(LCC)
    fn = repo.anchor(LCC, "lc_check")
    ctx.touch(m, fn)
    sm = repo.module(SRC)
    reach = set(tables.emitted_tags(repo.anchor(SRC, "state_to_graph"))) | set(tables.emitted_tags(repo.anchor(SRC, "_phase_correction")))
    non_self = {t for t in reach if t in cl.GATE1 and cl.key(cl.mm(cl.GATE1[t], cl.GATE1[t])) != cl.key(cl.I2)}
    mapping = {}
    inv_loop = None
    for loop in [n for n in ast.walk(fn) if isinstance(n, ast.For)]:
        for ch in extract_chains(repo, m, loop):
            for b in ch:
                if b.parsed and len(b.literals) == 1 and b.subject and b.subject.endswith("[0]"):
                    for c in [x for st in b.body for x in calls_in(st) if call_attr(x) == "append"]:
                        t = c.args[0]
                        if isinstance(t, ast.Tuple) and isinstance(t.elts[0], ast.Constant):
                            mapping[next(iter(b.literals))] = t.elts[0].value
                            inv_loop = loop
    if inv_loop is None:
        raise AnalysisError("lc_check: inversion loop not found")
    for t in sorted(non_self):
        to = mapping.get(t)
        if to is not None and to in cl.GATE1 and cl.key(cl.mm(cl.GATE1[t], cl.GATE1[to])) == cl.key(cl.I2):
            ctx.ok("reverse.table", m, inv_loop, what=f"'{t}' -> '{to}'")
        else:
            ctx.fail("reverse.table", m, inv_loop,
                     f"lc_check inverts the gates that turn state2 into its graph, but tag '{t}' (not self-inverse) is mapped to "
                     f"{to!r} instead of its inverse", func="lc_check", construct=f"lc_check: inverse of '{t}' is {to!r}")
    for t, to in sorted(mapping.items()):
        if t not in non_self and t in cl.GATE1 and to in cl.GATE1 and cl.key(cl.mm(cl.GATE1[t], cl.GATE1[to])) != cl.key(cl.I2):
            ctx.fail("reverse.table", m, inv_loop, f"lc_check maps tag '{t}' to '{to}', which is not its inverse",
                     func="lc_check", construct=f"lc_check: inverse of '{t}' is '{to}'")
    # and the inverted list is reversed before use
    src_list = None
    for n in ast.walk(fn):
        if isinstance(n, ast.Assign) and isinstance(n.value, ast.Subscript) and isinstance(n.value.slice, ast.Slice) \
                and n.value.slice.step is not None and norm(n.value.slice.step) == "-1" and "invers" in norm(n.targets[0]):
            src_list = n
    if src_list is not None:
        ctx.ok("reverse.table", m, src_list, what="inverted gate list reversed")
    else:
        ctx.fail("reverse.table", m, fn, "lc_check no longer reverses the inverted gate list of state2", func="lc_check",
                 construct="lc_check: inverted list not reversed")
    # total gate list order: gates1, conversion, inverse(gates2)
    tot = [n for n in ast.walk(fn) if isinstance(n, ast.Assign) and "total" in norm(n.targets[0]) and isinstance(n.value, ast.BinOp)]
    if tot:
        parts = norm(tot[0].value).split(" + ")
        if len(parts) == 3 and parts[0].startswith("gates1") and "invers" in parts[2]:
            ctx.ok("reverse.table", m, tot[0], what="state1 -> graph1 -> graph2 -> state2 order")
        else:
            ctx.fail("reverse.table", m, tot[0], f"total gate list is assembled as `{norm(tot[0].value)}`; the order must be "
                                                 f"gates1, graph conversion, inverse(gates2)", func="lc_check")


def rule_lc_toggle(ctx: Ctx) -> None:
    repo = ctx.repo
    m = repo.module(GRAPH)
    fn = repo.anchor(GRAPH, "Graph.local_complementation")
    ctx.touch(m, fn)
    node = func_params(fn)[1]
    nb = None
    for n in ast.walk(fn):
        if isinstance(n, ast.Assign) and isinstance(n.value, ast.Call) and call_attr(n.value) == "get_neighbors" \
                and n.value.args and norm(n.value.args[0]) == node:
            nb = norm(n.targets[0])
    pairs = None
    for n in ast.walk(fn):
        if isinstance(n, ast.Assign) and isinstance(n.value, ast.Call) and call_attr(n.value) == "combinations" \
                and len(n.value.args) == 2 and norm(n.value.args[0]) == nb and norm(n.value.args[1]) == "2":
            pairs = norm(n.targets[0])
    loops = [n for n in ast.walk(fn) if isinstance(n, ast.For) and (norm(n.iter) == pairs or
             (isinstance(n.iter, ast.Call) and call_attr(n.iter) == "combinations" and norm(n.iter.args[0]) == nb))]
    if nb is None or len(loops) != 1:
        ctx.fail("lc.toggle", m, fn, "local_complementation does not iterate over all pairs of neighbours of the chosen vertex",
                 func="Graph.local_complementation", construct="local_complementation: neighbour-pair loop")
        return
    loop = loops[0]
    a, b = [norm(e) for e in loop.target.elts]
    ok = False
    if len(loop.body) == 1 and isinstance(loop.body[0], ast.If):
        i = loop.body[0]
        from ..chains import positive
        t, negated = positive(i.test)
        if isinstance(t, ast.Call) and call_attr(t) == "has_edge" and [norm(x) for x in t.args] == [a, b] \
                and len(i.body) == 1 and len(i.orelse) == 1:
            rb, ab = (i.orelse[0], i.body[0]) if negated else (i.body[0], i.orelse[0])
            if isinstance(rb, ast.Expr) and isinstance(ab, ast.Expr) and isinstance(rb.value, ast.Call) and isinstance(ab.value, ast.Call) \
                    and call_attr(rb.value) == "remove_edge" and call_attr(ab.value) == "add_edge" \
                    and [norm(x) for x in rb.value.args] == [a, b] and [norm(x) for x in ab.value.args] == [a, b] \
                    and norm(rb.value.func.value) == norm(ab.value.func.value) == norm(t.func.value):
                ok = True
    others = [c for c in calls_in(fn) if call_attr(c) in ("add_edge", "remove_edge", "add_edges_from", "remove_edges_from",
                                                         "add_node", "remove_node") and not any(c is x for x in ast.walk(loop))]
    if ok and not others:
        ctx.ok("lc.toggle", m, loop, what="toggles exactly the neighbour pairs")
    else:
        ctx.fail("lc.toggle", m, loop,
                 "local_complementation must, for every pair (a, b) of neighbours of the vertex, remove the edge if present and add "
                 "it otherwise, on the same graph object, and mutate no other edge", func="Graph.local_complementation",
                 construct="local_complementation: toggle shape")


KNOCKOUTS = [
    Knockout("det-not-reduced", LCE, sub_once("checklist.append(int(determinant_of_clifford % 2))", "checklist.append(int(determinant_of_clifford))"), "gf2.truth", "unreduced"),
    Knockout("trial-vector-hoisted", LCE, sub_once("""    for j in range(trial_count):
        rand_var_vec = np.zeros((4 * n, 1))
""", """    rand_var_vec = np.zeros((4 * n, 1))
    for j in range(trial_count):
"""), "trial.fresh", "shared across iterations"),
    Knockout("E4-duplicate-identity", LCE, sub_once("php = np.array([[1, 0], [1, 1]])", "php = np.array([[1, 0], [0, 1]])"), "table.gl22", "GL(2,2)"),
    Knockout("E4-wrong-name", LCE, sub_once('"P H", "H P_dag", "P H P"]', '"H P", "H P_dag", "P H P"]'), "table.gl22", "'H P'"),
    Knockout("F1-token-order", LCC, sub_once("for op in ops.split()[::-1]:", "for op in ops.split():"), "order.wrapper", "converter_gate_list"),
    Knockout("E6-new-token", LCE, sub_once('"P H", "H P_dag", "P H P"]', '"P H", "H S_dag", "P H P"]'), "vocab.gates", "S_dag"),
    Knockout("inverse-P", LCC, sub_once('            inversed_gates2.append(("P", gate[1]))', '            inversed_gates2.append(("P_dag", gate[1]))'),
             "reverse.table", "P_dag"),
    Knockout("inverse-not-reversed", LCC, sub_once("    inversed_gates2 = inversed_gates2[::-1]\n", ""), "reverse.table", "not reversed"),
    Knockout("lc-toggle-only-add", GRAPH,
             sub_once("            if output_graph.data.has_edge(a, b):\n                output_graph.data.remove_edge(a, b)\n            else:\n                output_graph.data.add_edge(a, b)",
                      "            if not output_graph.data.has_edge(a, b):\n                output_graph.data.add_edge(a, b)"),
             "lc.toggle", "toggle"),
]
