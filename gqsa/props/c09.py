"""C09 — local-Clifford equivalence (narrow structural claim, DESIGN §5.9)."""
from __future__ import annotations

import ast

from .. import clifford as cl
from ..chains import extract_chains
from ..core import AnalysisError, get_kw, call_attr, call_name, calls_in, func_params, norm, parent, short
from ..driver import Knockout, sub_nth, sub_once
from ..report import Ctx
from ..rules import gatesum, loops, tables
from ..rules.tables import LCE

LCC = "graphiq/backends/stabilizer/functions/local_cliff_equi_check.py"
SRC = "graphiq/backends/state_rep_conversion.py"
GRAPH = "graphiq/backends/graph/state.py"

EXPLANATION = (
    "Narrow structural claim. local_clifford_ops' matrix table is exactly the six pairwise distinct invertible binary "
    "2x2 matrices and every name string multiplies, over GF(2) with the table's own generators, to its matrix "
    "(table.gl22 — a missing or duplicated block silently drops a qubit's gate and shifts the list); "
    "converter_gate_list emits each name's tokens right-to-left (order.wrapper: rightmost acts first); every tag produced "
    "by local_clifford_ops / converter_gate_list / state_to_graph / _phase_correction is handled by run_circuit and "
    "str_to_op (vocab.gates); lc_check's inversion maps every non-self-inverse tag that can reach it to its Clifford "
    "inverse and reverses the list; Graph.local_complementation toggles exactly the pairs of neighbours of the chosen "
    "vertex (lc.toggle: combinations(neighbours, 2), has_edge -> remove_edge else add_edge, no other edge mutation). "
    "The random search hands _vec_solution_finder (which fills its argument in place) a vector created in the same trial "
    "(trial.fresh, reaching definitions over the loop's back edge); _is_valid_clifford reduces the block determinants mod 2 "
    "before testing their truth (gf2.truth). "
    "Does not decide soundness/completeness of is_lc_equivalent, the R-matrix reduction, or local_comp_graph's matrix formula.")


def run(ctx: Ctx) -> None:
    from ..rules import tableau as _tbx
    _tbx.rule_xz_rowops(ctx, ["graphiq/backends/stabilizer/functions/linalg.py", "graphiq/backends/stabilizer/functions/stabilizer.py"])
    from ..rules import memo as _memo
    _memo.rule_memo_sound(ctx, ['graphiq/backends/lc_equivalence_check.py', 'graphiq/backends/stabilizer/functions/local_cliff_equi_check.py', 'graphiq/backends/graph/state.py'])
    _memo.rule_falsy_zero(ctx, ['graphiq/backends/lc_equivalence_check.py', 'graphiq/backends/stabilizer/functions/local_cliff_equi_check.py', 'graphiq/backends/graph/state.py'])
    _memo.rule_arg_names(ctx, ['graphiq/backends/lc_equivalence_check.py', 'graphiq/backends/stabilizer/functions/local_cliff_equi_check.py', 'graphiq/backends/graph/state.py'])
    _memo.rule_fixed_width(ctx, ['graphiq/backends/lc_equivalence_check.py', 'graphiq/backends/stabilizer/functions/local_cliff_equi_check.py', 'graphiq/backends/graph/state.py'])
    _memo.rule_paste_incomplete(ctx, ['graphiq/backends/lc_equivalence_check.py', 'graphiq/backends/stabilizer/functions/local_cliff_equi_check.py', 'graphiq/backends/graph/state.py'])
    _memo.rule_negative_start(ctx, ['graphiq/backends/lc_equivalence_check.py', 'graphiq/backends/stabilizer/functions/local_cliff_equi_check.py', 'graphiq/backends/graph/state.py'])
    _memo.rule_elim_no_pivot(ctx, ['graphiq/backends/lc_equivalence_check.py', 'graphiq/backends/stabilizer/functions/local_cliff_equi_check.py', 'graphiq/backends/graph/state.py'])
    _memo.rule_subject_drift(ctx, ['graphiq/backends/lc_equivalence_check.py', 'graphiq/backends/stabilizer/functions/local_cliff_equi_check.py', 'graphiq/backends/graph/state.py'])
    _memo.rule_isinstance_on_class(ctx, ['graphiq/backends/lc_equivalence_check.py', 'graphiq/backends/stabilizer/functions/local_cliff_equi_check.py', 'graphiq/backends/graph/state.py'])
    _memo.rule_zip_truncation(ctx, ['graphiq/backends/lc_equivalence_check.py', 'graphiq/backends/stabilizer/functions/local_cliff_equi_check.py', 'graphiq/backends/graph/state.py'])
    _memo.rule_search_fallthrough(ctx, ['graphiq/backends/lc_equivalence_check.py', 'graphiq/backends/stabilizer/functions/local_cliff_equi_check.py', 'graphiq/backends/graph/state.py'])
    _memo.rule_zip_pairing(ctx, ['graphiq/backends/lc_equivalence_check.py', 'graphiq/backends/stabilizer/functions/local_cliff_equi_check.py', 'graphiq/backends/graph/state.py'])
    repo = ctx.repo
    tables.rule_gl22(ctx)
    rule_token_order(ctx)
    tm = repo.module(gatesum.TRANSFORM)
    rc = repo.anchor(gatesum.TRANSFORM, "run_circuit")
    handled = tables.handled_tags_chain(repo, tm, rc)
    tables.rule_vocab(ctx, "vocab.gates",
                      [(LCC, "lc_check"), (LCC, "converter_gate_list"), (SRC, "state_to_graph"), (SRC, "_phase_correction")],
                      "run_circuit", handled, extra_tokens=tables.gl22_tokens(repo))
    rule_lc_check_inversion(ctx)
    rule_lc_toggle(ctx)
    rule_sign_repair(ctx)
    rule_lc_matrix_form(ctx)
    rule_find_lc_binding(ctx)
    rule_lc_position(ctx)
    rule_lc_equivalent_direction(ctx)
    rule_rank_shortcut(ctx)
    from ..rules import orbits as _orb
    _orb.rule_common_node_order(ctx, [("graphiq/backends/graph/state.py", "Graph.lc_equivalent")])
    from ..rules import tableau as _tb
    _tb.rule_sign_carry(ctx, [SRC, LCC])
    loops.rule_trial_fresh(ctx, LCE)
    loops.rule_gf2_truth(ctx, LCE, "_is_valid_clifford")
    ctx.floor("table.gl22", 7)
    ctx.floor("vocab.gates", 6)


def rule_rank_shortcut(ctx: Ctx) -> None:
    """lc.rank-shortcut: is_lc_equivalent answers "not equivalent" without searching when the linear system leaves no free unknown:
    rank >= U, U = number of unknowns = 4 * n_nodes (the width of the coefficient matrix).  The same function later asserts that the
    solution space has U - rank dimensions; the two beliefs must agree: a threshold below U also refuses pairs whose (unique) solution
    exists, one above U lets an empty solution space through."""
    from .. import linear
    repo = ctx.repo
    m = repo.module(LCE)
    fn = repo.anchor(LCE, "is_lc_equivalent")
    ctx.touch(m, fn)
    env = {}
    for a in fn.body:
        if isinstance(a, ast.Assign) and len(a.targets) == 1 and isinstance(a.targets[0], ast.Name):
            env.setdefault(a.targets[0].id, a.value)
    # the shortcut: the first top-level `if <rank> <cmp> <threshold>: return False, ...` in front of the search for dependent columns.
    # Which side is the threshold is decided by its form (4 * n or the width of a matrix, possibly with an offset), not by names.
    NN = next((k for k, v in env.items() if isinstance(v, (ast.Subscript, ast.Call)) and ("shape" in norm(v) or "len(" in norm(v))), "n_nodes")

    def threshold_form(e):
        """(atoms, const) when `e` resolves to 4 * n or a matrix width (+ const), else None"""
        T_ = linear.clean(linear.lin(e, {k: v for k, v in env.items() if k != NN}) or {"?": 1})
        c_ = T_.pop("", 0)
        ok_ = T_ == {NN: 4} or (len(T_) == 1 and list(T_.values()) == [1] and (".shape[1]" in list(T_)[0] or (list(T_)[0].startswith("np.shape(") and list(T_)[0].endswith("[1]"))))
        return (T_, c_) if ok_ else None
    early = None
    for st in fn.body:
        if any((call_attr(c) or getattr(c.func, "id", "")) == "_col_finder" for c in calls_in(st)):
            break
        if isinstance(st, ast.If) and isinstance(st.test, ast.Compare) and len(st.test.ops) == 1 and not st.orelse \
                and any(isinstance(r, ast.Return) and isinstance(r.value, ast.Tuple) and r.value.elts and isinstance(r.value.elts[0], ast.Constant)
                        and r.value.elts[0].value is False for r in st.body) \
                and isinstance(st.test.ops[0], (ast.Lt, ast.LtE, ast.Gt, ast.GtE, ast.Eq)):
            sides = [st.test.left, st.test.comparators[0]]
            if any(threshold_form(x) is not None for x in sides):
                early = st
                break
    if early is None:
        raise AnalysisError("is_lc_equivalent: the rank shortcut was not found")
    l_, op, r_ = early.test.left, early.test.ops[0], early.test.comparators[0]
    if threshold_form(r_) is None:
        l_, r_ = r_, l_
        op = {ast.Lt: ast.Gt, ast.LtE: ast.GtE, ast.Gt: ast.Lt, ast.GtE: ast.LtE}.get(type(op), type(op))()
    if not isinstance(l_, ast.Name) or threshold_form(l_) is not None:
        raise AnalysisError(f"is_lc_equivalent: shortcut test `{short(early.test)}` is not a comparison of the rank with a threshold")
    T, const = threshold_form(r_)
    T = dict(T)
    good = (isinstance(op, ast.GtE) and const == 0) or (isinstance(op, ast.Gt) and const == -1) or (isinstance(op, ast.Eq) and const == 0)
    if good:
        ctx.ok("lc.rank-shortcut", m, early.test, what="no search iff rank >= number of unknowns")
    else:
        sym = {ast.GtE: ">=", ast.Gt: ">", ast.Eq: "==", ast.Lt: "<", ast.LtE: "<="}.get(type(op), "?")
        ctx.fail("lc.rank-shortcut", m, early.test,
                 f"is_lc_equivalent gives up when `rank {sym} {linear.show(dict(T, **({'': const} if const else {})))}`; the system has 4 * n_nodes unknowns and "
                 f"(as the function itself asserts further down) a solution space of dimension 4 * n_nodes - rank, so the shortcut must fire exactly when "
                 f"rank >= 4 * n_nodes: with this threshold a pair whose local Clifford is unique (dimension 1, e.g. the 5-ring orbit) is answered 'no'",
                 func="is_lc_equivalent", construct="is_lc_equivalent: rank shortcut threshold")


def rule_token_order(ctx: Ctx) -> None:
    repo = ctx.repo
    m = repo.module(LCC)
    fn = repo.anchor(LCC, "converter_gate_list")
    ctx.touch(m, fn)
    loops = [n for n in ast.walk(fn) if isinstance(n, ast.For) and "split" in norm(n.iter)]
    if len(loops) != 1:
        raise AnalysisError("converter_gate_list: token loop not found")
    it = loops[0].iter
    rev = (isinstance(it, ast.Subscript) and isinstance(it.slice, ast.Slice) and it.slice.step is not None
           and norm(it.slice.step) == "-1" and it.slice.lower is None and it.slice.upper is None) or \
          (isinstance(it, ast.Call) and call_attr(it) == "reversed")
    body_appends = [c for c in calls_in(loops[0]) if call_attr(c) == "append"]
    if rev and body_appends:
        ctx.ok("order.wrapper", m, it, what="tokens emitted right-to-left (rightmost acts first)")
    else:
        ctx.fail("order.wrapper", m, it,
                 f"converter_gate_list walks a name's tokens as `{short(it)}`; a name such as 'P H' is a matrix product whose "
                 f"rightmost factor acts first, so the tokens must be emitted in reverse", func="converter_gate_list",
                 construct=f"converter_gate_list: token order {short(it)}")


def _strip_rev(e: ast.AST):
    """(inner expression, direction) after peeling `x[::-1]` / `reversed(x)` / `list(x)`"""
    d = 1
    while True:
        if isinstance(e, ast.Subscript) and isinstance(e.slice, ast.Slice) and e.slice.lower is None and e.slice.upper is None \
                and e.slice.step is not None and norm(e.slice.step) == "-1":
            e, d = e.value, -d
        elif isinstance(e, ast.Call) and call_name(e) == "reversed" and len(e.args) == 1:
            e, d = e.args[0], -d
        elif isinstance(e, ast.Call) and call_name(e) in ("list", "tuple") and len(e.args) == 1:
            e = e.args[0]
        else:
            return e, d


def rule_lc_check_inversion(ctx: Ctx) -> None:
    """reverse.table (lc_check): the gates that take state2 to its graph are undone at the end of the total gate list: every tag is
    replaced by its inverse *and* the list is reversed.  Recognised shapes: an if/elif loop that appends, or a comprehension with
    a tag dictionary `.get(tag, tag)`; reversals `x[::-1]` / `reversed(x)` anywhere along the derivation are multiplied up."""
    repo = ctx.repo
    m = repo.module(LCC)
    fn = repo.anchor(LCC, "lc_check")
    ctx.touch(m, fn)
    reach = set(tables.emitted_tags(repo.anchor(SRC, "state_to_graph"))) | set(tables.emitted_tags(repo.anchor(SRC, "_phase_correction")))
    non_self = {t for t in reach if t in cl.GATE1 and cl.key(cl.mm(cl.GATE1[t], cl.GATE1[t])) != cl.key(cl.I2)}
    ps = func_params(fn)
    # gate lists of the two conversions: third element of `g, tab, gates = rc.state_to_graph(<state k>)`
    glist = {}
    for n in ast.walk(fn):
        if isinstance(n, ast.Assign) and isinstance(n.value, ast.Call) and call_attr(n.value) == "state_to_graph" and isinstance(n.targets[0], ast.Tuple) \
                and len(n.targets[0].elts) == 3 and n.value.args and norm(n.value.args[0]) in ps[:2]:
            glist[ps.index(norm(n.value.args[0]))] = norm(n.targets[0].elts[2])
    if set(glist) != {0, 1}:
        raise AnalysisError("lc_check: the two state_to_graph conversions (graph, tableau, gates) were not found")
    g1, g2 = glist[0], glist[1]
    tot = [n for n in ast.walk(fn) if isinstance(n, ast.Assign) and isinstance(n.value, ast.BinOp) and isinstance(n.value.op, ast.Add)
           and len(norm(n.value).split(" + ")) == 3]
    if len(tot) != 1:
        raise AnalysisError("lc_check: the three-part total gate list was not found")
    parts = []
    e = tot[0].value
    while isinstance(e, ast.BinOp) and isinstance(e.op, ast.Add):
        parts.insert(0, e.right)
        e = e.left
    parts.insert(0, e)
    mid_ok = any(isinstance(a, ast.Assign) and norm(a.targets[0]) == norm(parts[1]) and isinstance(a.value, ast.Call)
                 and (call_attr(a.value) == "converter_gate_list" or (isinstance(a.value.func, ast.Name) and a.value.func.id == "converter_gate_list")) for a in ast.walk(fn))
    if not mid_ok:
        ctx.fail("reverse.table", m, tot[0], f"the middle part of lc_check's total gate list (`{norm(parts[1])}`) is not the graph-to-graph conversion "
                 f"(converter_gate_list): the order must be gates of state1, graph conversion, inverse(gates of state2)", func="lc_check",
                 construct="lc_check: total list order (middle)")
    if norm(parts[0]) == g1:
        ctx.ok("reverse.table", m, tot[0], what="total list starts with the gates that take state1 to its graph")
    else:
        ctx.fail("reverse.table", m, tot[0], f"total gate list is assembled as `{norm(tot[0].value)}`; the order must be "
                                             f"gates of state1, graph conversion, inverse(gates of state2)", func="lc_check",
                 construct="lc_check: total list order")
    # derive the third part from g2: mapping of tags and net direction
    mapping, direction, node = {}, 1, tot[0]
    cur, d0 = _strip_rev(parts[2])
    direction *= d0
    seen = set()
    found_src = False
    for _ in range(6):
        if isinstance(cur, ast.Name) and cur.id == g2:
            found_src = True
            break
        if not isinstance(cur, ast.Name) or cur.id in seen:
            break
        seen.add(cur.id)
        name = cur.id
        defs = [n for n in ast.walk(fn) if isinstance(n, ast.Assign) and len(n.targets) == 1 and norm(n.targets[0]) == name]
        nxt = None
        for dnode in defs:
            v, dd = _strip_rev(dnode.value)
            if isinstance(v, ast.Name) and v.id == name:
                direction *= dd  # x = x[::-1]
                continue
            if isinstance(v, ast.List) and not v.elts:
                # filled by a loop: for g in <src>: chain -> name.append((tag', g[1]))
                for loop in [l for l in ast.walk(fn) if isinstance(l, ast.For) and any(call_name(c) == f"{name}.append" for c in calls_in(l))]:
                    src, dl = _strip_rev(loop.iter)
                    direction *= dl
                    nxt = src
                    node = loop
                    gv = norm(loop.target)
                    for ch in extract_chains(repo, m, loop):
                        for b in ch:
                            apps = [x for st in b.body for x in calls_in(st) if call_name(x) == f"{name}.append"]
                            if b.parsed and len(b.literals) == 1 and b.subject == f"{gv}[0]":
                                for c in apps:
                                    t = c.args[0]
                                    if isinstance(t, ast.Tuple) and isinstance(t.elts[0], ast.Constant):
                                        mapping[next(iter(b.literals))] = t.elts[0].value
                continue
            if isinstance(v, (ast.ListComp, ast.GeneratorExp)) and len(v.generators) == 1:
                src, dl = _strip_rev(v.generators[0].iter)
                direction *= dd * dl
                nxt = src
                node = dnode
                gv = norm(v.generators[0].target)
                elt = v.elt
                if isinstance(elt, ast.Tuple) and elt.elts:
                    t0 = elt.elts[0]
                    if isinstance(t0, ast.Call) and call_attr(t0) == "get" and len(t0.args) == 2 and norm(t0.args[0]) == f"{gv}[0]" == norm(t0.args[1]):
                        dn = norm(t0.func.value)
                        for dd_ in [x for x in ast.walk(fn) if isinstance(x, ast.Assign) and norm(x.targets[0]) == dn and isinstance(x.value, ast.Dict)]:
                            for k, vv in zip(dd_.value.keys, dd_.value.values):
                                if isinstance(k, ast.Constant) and isinstance(vv, ast.Constant):
                                    mapping[k.value] = vv.value
                    elif norm(t0) != f"{gv}[0]":
                        raise AnalysisError(f"lc_check: tag expression `{short(t0)}` of the inverted list not recognised")
                elif norm(elt) != gv:
                    raise AnalysisError(f"lc_check: element `{short(elt)}` of the inverted list not recognised")
                continue
            if isinstance(v, ast.Name):
                direction *= dd
                nxt = v
                continue
            if isinstance(v, ast.Call) and call_attr(v) in ("converter_gate_list",) or (isinstance(v, ast.Call) and isinstance(v.func, ast.Name) and v.func.id == "converter_gate_list"):
                ctx.fail("reverse.table", m, tot[0], f"the last part of lc_check's total gate list (`{norm(parts[2])}`) is the graph-to-graph conversion, not the "
                         f"inverted gates of state2: the order must be gates of state1, graph conversion, inverse(gates of state2)", func="lc_check",
                         construct="lc_check: total list order")
                return
            raise AnalysisError(f"lc_check: derivation step `{short(dnode)}` of the inverted gate list not recognised")
        if nxt is None:
            break
        cur = nxt
    if not found_src:
        ctx.fail("reverse.table", m, tot[0], f"the last part of lc_check's total gate list (`{norm(parts[2])}`) is not derived from the gates that "
                                             f"take state2 to its graph (`{g2}`)", func="lc_check", construct="lc_check: third part not derived from state2's gates")
        return
    for t in sorted(non_self):
        to = mapping.get(t)
        if to is not None and to in cl.GATE1 and cl.key(cl.mm(cl.GATE1[t], cl.GATE1[to])) == cl.key(cl.I2):
            ctx.ok("reverse.table", m, node, what=f"'{t}' -> '{to}'")
        else:
            ctx.fail("reverse.table", m, node,
                     f"lc_check inverts the gates that turn state2 into its graph, but tag '{t}' (not self-inverse) is mapped to "
                     f"{to!r} instead of its inverse", func="lc_check", construct=f"lc_check: inverse of '{t}' is {to!r}")
    for t, to in sorted(mapping.items()):
        if t not in non_self and t in cl.GATE1 and to in cl.GATE1 and cl.key(cl.mm(cl.GATE1[t], cl.GATE1[to])) != cl.key(cl.I2):
            ctx.fail("reverse.table", m, node, f"lc_check maps tag '{t}' to '{to}', which is not its inverse",
                     func="lc_check", construct=f"lc_check: inverse of '{t}' is '{to}'")
    if direction == -1:
        ctx.ok("reverse.table", m, node, what="inverted gate list reversed")
    else:
        ctx.fail("reverse.table", m, node, "lc_check inverts each gate of state2's conversion but applies them in the original order: the inverse of "
                                           "a sequence is the reversed sequence of inverses (wrong as soon as two of the gates act on one qubit)",
                 func="lc_check", construct="lc_check: inverted list not reversed")


def rule_find_lc_binding(ctx: Ctx) -> None:
    """lc.sequence-source: the Clifford solution Q returned by is_lc_equivalent(A, B) maps A to B, and lc_graph_operations(G, Q) reads
    the local-complementation sequence off R(G, Q): every caller must hand it the *first* graph of the pair that produced Q."""
    repo = ctx.repo
    m = repo.module(LCE)
    n = 0
    for fn in [f for f in m.tree.body if isinstance(f, ast.FunctionDef)]:
        sols = {}
        for a in ast.walk(fn):
            if isinstance(a, ast.Assign) and isinstance(a.value, ast.Call) and call_name(a.value) == "is_lc_equivalent" \
                    and isinstance(a.targets[0], ast.Tuple) and len(a.targets[0].elts) == 2 and len(a.value.args) >= 2:
                sols[norm(a.targets[0].elts[1])] = (norm(a.value.args[0]), norm(a.value.args[1]))
        for c in calls_in(fn):
            if call_name(c) == "lc_graph_operations" and len(c.args) == 2 and norm(c.args[1]) in sols:
                n += 1
                ctx.touch(m, fn)
                first, second = sols[norm(c.args[1])]
                if norm(c.args[0]) == first:
                    ctx.ok("lc.sequence-source", m, c, what=f"{fn.name}: sequence read off the first graph of the pair")
                else:
                    ctx.fail("lc.sequence-source", m, c,
                             f"{fn.name} calls `{short(c)}` with the solution of is_lc_equivalent({first}, {second}): the sequence must be computed "
                             f"on `{first}` (the graph the Clifford maps from); on `{norm(c.args[0])}` it returns a sequence that does not take the "
                             f"first graph to the second (or raises IndexError)", func=fn.name,
                             construct=f"{fn.name}: lc_graph_operations on {'the second graph' if norm(c.args[0]) == second else norm(c.args[0])}")
    if n == 0:
        raise AnalysisError("lc.sequence-source: no lc_graph_operations call fed by is_lc_equivalent found")


def rule_lc_position(ctx: Ctx) -> None:
    """lc.position: local_comp_graph works on an adjacency matrix and uses the vertex *label* `node_id` as a matrix position (and
    returns a graph labelled by position).  Label and position coincide only if the matrix is built in label order
    (`nodelist=sorted(g.nodes())` / `range(n)`), or the position is looked up (`list(g.nodes()).index(node_id)`)."""
    repo = ctx.repo
    m = repo.module(LCE)
    fn = repo.anchor(LCE, "local_comp_graph")
    ctx.touch(m, fn)
    gp, vp = func_params(fn)[:2]
    mats = [c for c in calls_in(fn) if call_attr(c) in ("to_numpy_array", "adjacency_matrix") and c.args and norm(c.args[0]) == gp]
    if not mats:
        raise AnalysisError("local_comp_graph: adjacency matrix of the input graph not found")
    uses_label = any(isinstance(x, ast.Subscript) and any(isinstance(y, ast.Name) and y.id == vp for y in ast.walk(x.slice)) for x in ast.walk(fn))
    # a relabelling of the result (position -> label) must use the very order the matrix was built in
    for rc_ in [c for c in calls_in(fn) if call_attr(c) == "relabel_nodes"]:
        mp = rc_.args[1] if len(rc_.args) > 1 else get_kw(rc_, "mapping")
        order_e = None
        if isinstance(mp, ast.Call) and call_name(mp) == "dict" and mp.args and isinstance(mp.args[0], ast.Call) and call_name(mp.args[0]) == "enumerate" and mp.args[0].args:
            order_e = norm(mp.args[0].args[0])
        built = {norm(get_kw(c, "nodelist")) if get_kw(c, "nodelist") is not None else f"{gp}.nodes()" for c in mats}
        same = order_e is not None and (order_e in built or (order_e in (f"{gp}.nodes()", f"{gp}.nodes", f"list({gp}.nodes())", f"list({gp})", gp) and f"{gp}.nodes()" in built))
        if same:
            ctx.ok("lc.position", m, rc_, what="result relabelled with the order the matrix was built in")
        else:
            ctx.fail("lc.position", m, rc_,
                     f"local_comp_graph relabels its result with `{short(mp, 60)}` while the adjacency matrix was built in the order {sorted(built)}: "
                     f"position k of the matrix is not the k-th node of that other order unless the graph's nodes were inserted in sorted order, so "
                     f"the returned graph is a relabelled copy of the local complement — outside the LC orbit", func="local_comp_graph",
                     construct="local_comp_graph: result relabelled with a different node order than the matrix")
    for c in mats:
        nl = get_kw(c, "nodelist")
        t = norm(nl) if nl is not None else None
        by_label = t is not None and (t.startswith("sorted(") or t.startswith("range(") or t.startswith("list(range("))
        if by_label or not uses_label:
            ctx.ok("lc.position", m, c, what="matrix position = vertex label")
        else:
            ctx.fail("lc.position", m, c,
                     f"local_comp_graph builds `{short(c)}` in the graph's node-insertion order but indexes it with the vertex label `{vp}`: for a "
                     f"graph whose nodes were not inserted in sorted order the complementation is applied to a different vertex (star centred at "
                     f"0 with node order [2, 0, 1, 3]: LC at 0 returns a path-like graph instead of K4)", func="local_comp_graph",
                     construct="local_comp_graph: label used as position in an insertion-ordered matrix")


def rule_lc_equivalent_direction(ctx: Ctx) -> None:
    """lc.direction: Graph.lc_equivalent(self, other) returns the Cliffords that take *this* graph to the other one, so it hands
    is_lc_equivalent the adjacency matrix derived from `self` first and the one derived from the other graph second (the yes/no answer
    is symmetric, the returned solution is not)."""
    repo = ctx.repo
    m = repo.module(GRAPH)
    fn = repo.anchor(GRAPH, "Graph.lc_equivalent")
    ctx.touch(m, fn)
    other = func_params(fn)[1]
    env = {}
    for a in ast.walk(fn):
        if isinstance(a, ast.Assign) and len(a.targets) == 1 and isinstance(a.targets[0], ast.Name):
            env.setdefault(a.targets[0].id, a.value)

    def owner(e, depth=0):
        names = {x.id for x in ast.walk(e) if isinstance(x, ast.Name)}
        if "self" in names and other not in names:
            return "self"
        if other in names and "self" not in names:
            return "other"
        if isinstance(e, ast.Name) and e.id in env and depth < 4:
            return owner(env[e.id], depth + 1)
        for nm in names:
            if nm in env and depth < 4:
                o = owner(env[nm], depth + 1)
                if o:
                    return o
        return None
    cs = [c for c in calls_in(fn) if call_name(c) == "is_lc_equivalent" and len(c.args) >= 2]
    if not cs:
        raise AnalysisError("Graph.lc_equivalent: is_lc_equivalent call not found")
    for c in cs:
        o1, o2 = owner(c.args[0]), owner(c.args[1])
        if (o1, o2) == ("self", "other"):
            ctx.ok("lc.direction", m, c, what="solution converts this graph into the other one")
        elif (o1, o2) == ("other", "self"):
            ctx.fail("lc.direction", m, c,
                     f"Graph.lc_equivalent calls `{short(c)}` with the other graph's matrix first: the yes/no answer is the same, but the returned "
                     f"Clifford blocks convert the other graph into this one, so the gates / local-complementation sequence derived from them do "
                     f"not take this graph to the other (3-vertex star vs triangle)", func="Graph.lc_equivalent",
                     construct="Graph.lc_equivalent: is_lc_equivalent arguments swapped")
        else:
            raise AnalysisError(f"Graph.lc_equivalent: owners of the is_lc_equivalent arguments not resolved ({o1}, {o2})")


def rule_lc_matrix_form(ctx: Ctx) -> None:
    """lc.matrix-form: local_comp_graph computes A' = A (Gamma A + A_ii Gamma + I) mod 2 with Gamma the matrix that has a single 1 at
    [i, i], and then clears the diagonal (Van den Nest et al.: this toggles exactly the edges among the neighbours of i).  The three
    summands are compared as a set (order free), the product as written (A on the left), the reduction mod 2 and the cleared
    diagonal as such."""
    repo = ctx.repo
    m = repo.module(LCE)
    fn = repo.anchor(LCE, "local_comp_graph")
    ctx.touch(m, fn)
    node = func_params(fn)[1]
    defs = {a.targets[0].id: a.value for a in fn.body if isinstance(a, ast.Assign) and len(a.targets) == 1 and isinstance(a.targets[0], ast.Name)}
    A = next((k for k, v in defs.items() if any(isinstance(c, ast.Call) and call_attr(c) == "to_numpy_array" for c in ast.walk(v))), None)
    I_ = next((k for k, v in defs.items() if isinstance(v, ast.Call) and call_name(v) in ("np.eye", "np.identity")), None)
    G = next((k for k, v in defs.items() if isinstance(v, ast.Call) and call_name(v) == "np.zeros"), None)
    if None in (A, I_, G):
        raise AnalysisError("local_comp_graph: adjacency / identity / gamma matrices not found")
    bad = []
    one = [a for a in fn.body if isinstance(a, ast.Assign) and isinstance(a.targets[0], ast.Subscript) and norm(a.targets[0].value) == G]
    if not (len(one) == 1 and norm(one[0].targets[0].slice) == f"({node}, {node})" and isinstance(one[0].value, ast.Constant) and one[0].value.value == 1):
        bad.append(f"`{G}` must have a single 1 at [{node}, {node}]")
    res = next((k for k, v in defs.items() if isinstance(v, ast.BinOp) and isinstance(v.op, ast.Mod) and any(isinstance(x, ast.BinOp) and isinstance(x.op, ast.MatMult) for x in ast.walk(v))), None)
    if res is None:
        raise AnalysisError("local_comp_graph: the matrix expression of the new adjacency matrix was not found")
    e = defs[res]
    mods = 0
    while isinstance(e, ast.BinOp) and isinstance(e.op, ast.Mod) and isinstance(e.right, ast.Constant) and e.right.value == 2:
        e = e.left
        mods += 1
    if mods == 0:
        bad.append("the product is not reduced mod 2")
    if not (isinstance(e, ast.BinOp) and isinstance(e.op, ast.MatMult) and norm(e.left) == A):
        bad.append(f"the new matrix is not `{A} @ (...)`")
    else:
        inner = e.right
        while isinstance(inner, ast.BinOp) and isinstance(inner.op, ast.Mod):
            inner = inner.left
        terms = []
        def flat(x):
            if isinstance(x, ast.BinOp) and isinstance(x.op, ast.Add):
                flat(x.left); flat(x.right)
            else:
                terms.append(x)
        flat(inner)
        def canon(t):
            if isinstance(t, ast.BinOp) and isinstance(t.op, ast.MatMult):
                return ("mm", norm(t.left), norm(t.right))
            if isinstance(t, ast.BinOp) and isinstance(t.op, ast.Mult):
                return ("sc",) + tuple(sorted([norm(t.left), norm(t.right)]))
            return ("id", norm(t))
        got = sorted(canon(t) for t in terms)
        want = sorted([("mm", G, A), ("sc",) + tuple(sorted([f"{A}[{node}, {node}]", G])), ("id", I_)])
        if got != want:
            bad.append(f"the bracket is the sum of {[ast.unparse(t) for t in terms]}; it must be {G} @ {A} + {A}[{node}, {node}] * {G} + {I_}")
    diag = [l for l in fn.body if isinstance(l, ast.For) and any(isinstance(a, ast.Assign) and isinstance(a.targets[0], ast.Subscript) and norm(a.targets[0].value) == res
                                                                 and isinstance(a.value, ast.Constant) and a.value.value == 0 for a in ast.walk(l))]
    fill = any(isinstance(c, ast.Call) and call_name(c) == "np.fill_diagonal" for c in calls_in(fn))
    if diag:
        a0 = next(a for a in ast.walk(diag[0]) if isinstance(a, ast.Assign) and isinstance(a.targets[0], ast.Subscript))
        jv = norm(diag[0].target)
        nn = next((k for k, v in defs.items() if isinstance(v, ast.Call) and call_attr(v) == "number_of_nodes"), None)
        if norm(a0.targets[0].slice) != f"({jv}, {jv})" or norm(diag[0].iter) != f"range({nn})":
            bad.append("the diagonal of the new matrix is not cleared entry by entry over all nodes")
    elif not fill:
        bad.append("the diagonal of the new matrix is not cleared")
    if bad:
        for why in bad:
            ctx.fail("lc.matrix-form", m, fn, f"local_comp_graph: {why}", func="local_comp_graph", construct=f"local_comp_graph: {why[:70]}")
    else:
        ctx.ok("lc.matrix-form", m, fn, what="A' = A (Gamma A + A_ii Gamma + I) mod 2, diagonal cleared")


def rule_sign_repair(ctx: Ctx) -> None:
    """lc.sign-repair: converter_gate_list turns the per-qubit symplectic blocks into H / P strings, which fixes the stabilizer group only up
    to signs (H Y H = -Y: products of H-mapped generators pick up -1 as well), and then appends the Pauli corrections computed by
    _phase_correction from both tableaux and the gate list.  That repair must happen on every path and its result must reach the
    returned list."""
    from .. import flow
    repo = ctx.repo
    m = repo.module(LCC)
    fn = repo.anchor(LCC, "converter_gate_list")
    ctx.touch(m, fn)
    rets = [r for r in ast.walk(fn) if isinstance(r, ast.Return) and r.value is not None]
    calls = [c for c in calls_in(fn) if (call_attr(c) or getattr(c.func, "id", "")) == "_phase_correction"]
    if not calls:
        ctx.fail("lc.sign-repair", m, fn, "converter_gate_list no longer calls _phase_correction: the returned gates fix the target state only up to signs",
                 func="converter_gate_list", construct="converter_gate_list: no sign repair")
        return
    def is_repair(node):
        return any(x is calls[0] for x in ast.walk(node))
    every = flow.must_pass(fn.body, is_repair)
    # the corrections are appended to the list that is returned
    rv = norm(rets[-1].value) if rets else None
    asg = next((a for a in ast.walk(fn) if isinstance(a, ast.Assign) and a.value is calls[0]), None)
    joined = False
    if asg is not None:
        pc = norm(asg.targets[0])
        for a in ast.walk(fn):
            if isinstance(a, ast.AugAssign) and isinstance(a.op, ast.Add) and norm(a.target) == rv and norm(a.value) == pc:
                joined = True
            if isinstance(a, ast.Call) and call_attr(a) == "extend" and norm(a.func.value) == rv and a.args and norm(a.args[0]) == pc:
                joined = True
        if rets and isinstance(rets[-1].value, ast.BinOp) and pc in norm(rets[-1].value):
            joined = True
    else:
        for a in ast.walk(fn):
            if isinstance(a, ast.AugAssign) and isinstance(a.op, ast.Add) and norm(a.target) == rv and a.value is calls[0]:
                joined = True
    # arguments: both tableaux (from g1 and g2, in this order) and the gate list built so far
    if every and joined:
        ctx.ok("lc.sign-repair", m, calls[0], what="_phase_correction on every path, appended to the returned list")
    else:
        guard = next((a for a in ast.walk(fn) if isinstance(a, ast.If) and is_repair(a)), None)
        ctx.fail("lc.sign-repair", m, guard or calls[0],
                 ("the sign repair runs only under `" + short(guard.test) + "`" if (guard is not None and not every) else "the corrections do not reach the returned gate list")
                 + ": H-only solutions change signs too (H Y H = -Y), so the returned gates then reach the target state only up to a Pauli",
                 func="converter_gate_list", construct="converter_gate_list: sign repair conditional" if not every else "converter_gate_list: corrections dropped")


def rule_lc_toggle(ctx: Ctx) -> None:
    repo = ctx.repo
    m = repo.module(GRAPH)
    fn = repo.anchor(GRAPH, "Graph.local_complementation")
    ctx.touch(m, fn)
    node = func_params(fn)[1]
    nb = None
    for n in ast.walk(fn):
        if isinstance(n, ast.Assign) and isinstance(n.value, ast.Call) and call_attr(n.value) == "get_neighbors" \
                and n.value.args and norm(n.value.args[0]) == node:
            nb = norm(n.targets[0])
    pairs = None
    for n in ast.walk(fn):
        if isinstance(n, ast.Assign) and isinstance(n.value, ast.Call) and call_attr(n.value) == "combinations" \
                and len(n.value.args) == 2 and norm(n.value.args[0]) == nb and norm(n.value.args[1]) == "2":
            pairs = norm(n.targets[0])
    loops = [n for n in ast.walk(fn) if isinstance(n, ast.For) and (norm(n.iter) == pairs or
             (isinstance(n.iter, ast.Call) and call_attr(n.iter) == "combinations" and norm(n.iter.args[0]) == nb))]
    if nb is None or len(loops) != 1:
        ctx.fail("lc.toggle", m, fn, "local_complementation does not iterate over all pairs of neighbours of the chosen vertex",
                 func="Graph.local_complementation", construct="local_complementation: neighbour-pair loop")
        return
    loop = loops[0]
    a, b = [norm(e) for e in loop.target.elts]
    ok = False
    if len(loop.body) == 1 and isinstance(loop.body[0], ast.If):
        i = loop.body[0]
        from ..chains import positive
        t, negated = positive(i.test)
        if isinstance(t, ast.Call) and call_attr(t) == "has_edge" and [norm(x) for x in t.args] == [a, b] \
                and len(i.body) == 1 and len(i.orelse) == 1:
            rb, ab = (i.orelse[0], i.body[0]) if negated else (i.body[0], i.orelse[0])
            if isinstance(rb, ast.Expr) and isinstance(ab, ast.Expr) and isinstance(rb.value, ast.Call) and isinstance(ab.value, ast.Call) \
                    and call_attr(rb.value) == "remove_edge" and call_attr(ab.value) == "add_edge" \
                    and [norm(x) for x in rb.value.args] == [a, b] and [norm(x) for x in ab.value.args] == [a, b] \
                    and norm(rb.value.func.value) == norm(ab.value.func.value) == norm(t.func.value):
                ok = True
    others = [c for c in calls_in(fn) if call_attr(c) in ("add_edge", "remove_edge", "add_edges_from", "remove_edges_from",
                                                         "add_node", "remove_node") and not any(c is x for x in ast.walk(loop))]
    # every pair is visited: an early return before the loop may only cover neighbour counts below 2 (no pair exists)
    early = []
    for st in fn.body:
        if st is loop or any(st is x for x in ast.walk(loop)):
            break
        if st.lineno >= loop.lineno:
            break
        if isinstance(st, ast.If) and any(isinstance(x, ast.Return) for x in ast.walk(st)) and not any(isinstance(x, ast.Raise) for x in st.body):
            t = st.test
            fine = False
            if isinstance(t, ast.Compare) and len(t.ops) == 1 and isinstance(t.left, ast.Call) and call_name(t.left) == "len" and norm(t.left.args[0]) == nb \
                    and isinstance(t.comparators[0], ast.Constant) and isinstance(t.comparators[0].value, int):
                c = t.comparators[0].value
                fine = (isinstance(t.ops[0], ast.Lt) and c <= 2) or (isinstance(t.ops[0], ast.LtE) and c <= 1) or (isinstance(t.ops[0], ast.Eq) and c <= 1)
            elif isinstance(t, ast.UnaryOp) and isinstance(t.op, ast.Not) and norm(t.operand) == nb:
                fine = True
            if not fine:
                early.append(st)
    if early:
        ctx.fail("lc.toggle", m, early[0],
                 f"local_complementation returns early under `{short(early[0].test)}`: only a vertex with fewer than two neighbours has no pair to toggle; "
                 f"with exactly two neighbours the edge between them must be toggled (interior vertices of paths and rings)",
                 func="Graph.local_complementation", construct=f"local_complementation: early return {short(early[0].test, 50)}")
        return
    if ok and not others:
        ctx.ok("lc.toggle", m, loop, what="toggles exactly the neighbour pairs")
    else:
        ctx.fail("lc.toggle", m, loop,
                 "local_complementation must, for every pair (a, b) of neighbours of the vertex, remove the edge if present and add "
                 "it otherwise, on the same graph object, and mutate no other edge", func="Graph.local_complementation",
                 construct="local_complementation: toggle shape")


KNOCKOUTS = [
    Knockout("lc-equivalent-order-dropped-on-exception", "graphiq/backends/graph/state.py", sub_once("        nodelist = list(self.data.nodes)\n        if set(nodelist) != set(other_graph.data.nodes):", "        try:\n            nodelist = sorted(self.data.nodes)\n        except TypeError:\n            nodelist = None\n        if nodelist is not None and set(nodelist) != set(other_graph.data.nodes):"), "node.common-order", "exception handler"),
    Knockout("rank-shortcut-one-early", LCE, sub_once("    if rank >= 4 * n_nodes:\n", "    if rank >= 4 * n_nodes - 1:\n"), "lc.rank-shortcut", "threshold"),
    Knockout("lc-equivalent-own-node-orders", "graphiq/backends/graph/state.py", sub_once("        g2 = nx.to_numpy_array(other_graph.data, nodelist=nodelist).astype(int)\n", "        g2 = nx.to_numpy_array(other_graph.data).astype(int)\n"), "node.common-order", "Graph.lc_equivalent", on_fixed_only=True),
    Knockout("local-complementation-gamma-on-the-right", LCE, sub_once("            gamma_matrix @ adj_matrix\n", "            adj_matrix @ gamma_matrix\n"), "lc.matrix-form", "bracket"),
    Knockout("local-complementation-diagonal-kept", LCE, sub_once("    for j in range(n_nodes):\n        new_adj_matrix[j, j] = 0\n", ""), "lc.matrix-form", "diagonal"),
    Knockout("sign-repair-only-with-phase-gates", LCC, sub_once("    tab1 = get_stabilizer_tableau_from_graph(g1)\n    tab2 = get_stabilizer_tableau_from_graph(g2)\n    phase_correction = _phase_correction(tab1, tab2, gate_list)\n    gate_list += phase_correction\n", "    if any(\"P\" in ops for ops in lc_ops):\n        tab1 = get_stabilizer_tableau_from_graph(g1)\n        tab2 = get_stabilizer_tableau_from_graph(g2)\n        phase_correction = _phase_correction(tab1, tab2, gate_list)\n        gate_list += phase_correction\n"), "lc.sign-repair", "conditional"),
    Knockout("sign-repair-result-dropped", LCC, sub_once("    gate_list += phase_correction\n", ""), "lc.sign-repair", "corrections dropped"),
    Knockout("local-complementation-skips-degree-two", GRAPH, sub_once("        neighbor_pairs = itertools.combinations(neighbors, 2)\n", "        if len(neighbors) <= 2:\n            return output_graph\n        neighbor_pairs = itertools.combinations(neighbors, 2)\n"), "lc.toggle", "early return"),
    Knockout("lc-result-relabelled-insertion-order", LCE, sub_once("    new_graph = nx.to_networkx_graph(new_adj_matrix)\n", "    new_graph = nx.to_networkx_graph(new_adj_matrix)\n    new_graph = nx.relabel_nodes(new_graph, dict(enumerate(input_graph.nodes())))\n"), "lc.position", "different node order"),
    Knockout("lc-equivalent-swapped", GRAPH, sub_once("        return is_lc_equivalent(g1, g2, mode=mode)", "        return is_lc_equivalent(g2, g1, mode=mode)"), "lc.direction", "arguments swapped"),
    Knockout("lc-matrix-insertion-order", LCE, sub_once("        input_graph, nodelist=sorted(input_graph.nodes())\n", "        input_graph\n"), "lc.position", "label used as position", on_fixed_only=True),
    Knockout("find-lc-second-graph", LCE, sub_once("        op_list = lc_graph_operations(adj_matrix1, solution)", "        op_list = lc_graph_operations(adj_matrix2, solution)"), "lc.sequence-source", "second graph", on_fixed_only=True),
    Knockout("clifford-input-signs-dropped", SRC, sub_once("        tab = state.to_stabilizer()\n", "        tab = StabilizerTableau(state.stabilizer)\n"), "sign.carry", "without signs"),
    Knockout("det-not-reduced", LCE, sub_once("checklist.append(int(determinant_of_clifford % 2))", "checklist.append(int(determinant_of_clifford))"), "gf2.truth", "unreduced"),
    Knockout("trial-vector-hoisted", LCE, sub_once("""    for j in range(trial_count):
        rand_var_vec = np.zeros((4 * n, 1))
""", """    rand_var_vec = np.zeros((4 * n, 1))
    for j in range(trial_count):
"""), "trial.fresh", "shared across iterations"),
    Knockout("E4-duplicate-identity", LCE, sub_once("php = np.array([[1, 0], [1, 1]])", "php = np.array([[1, 0], [0, 1]])"), "table.gl22", "GL(2,2)"),
    Knockout("E4-wrong-name", LCE, sub_once('"P H", "H P_dag", "P H P"]', '"H P", "H P_dag", "P H P"]'), "table.gl22", "'H P'"),
    Knockout("F1-token-order", LCC, sub_once("for op in ops.split()[::-1]:", "for op in ops.split():"), "order.wrapper", "converter_gate_list"),
    Knockout("E6-new-token", LCE, sub_once('"P H", "H P_dag", "P H P"]', '"P H", "H S_dag", "P H P"]'), "vocab.gates", "S_dag"),
    Knockout("inverse-P", LCC, sub_once('            inversed_gates2.append(("P", gate[1]))', '            inversed_gates2.append(("P_dag", gate[1]))'),
             "reverse.table", "P_dag"),
    Knockout("inverse-not-reversed", LCC, sub_once("    inversed_gates2 = inversed_gates2[::-1]\n", ""), "reverse.table", "not reversed"),
    Knockout("lc-toggle-only-add", GRAPH,
             sub_once("            if output_graph.data.has_edge(a, b):\n                output_graph.data.remove_edge(a, b)\n            else:\n                output_graph.data.add_edge(a, b)",
                      "            if not output_graph.data.has_edge(a, b):\n                output_graph.data.add_edge(a, b)"),
             "lc.toggle", "toggle"),
]
