"""C07 — a Clifford tableau stays valid under any history (structural clauses, DESIGN §5.7)."""
from __future__ import annotations

from ..driver import Knockout, sub_nth, sub_once
from ..report import Ctx
from ..rules import gatesum, shapes, tableau
from ..rules.tableau import CLIFF, STABF

EXPLANATION = (
    "Static rules over the tableau classes and function modules: size/storage fields (n_qubits, shape, _table, _phase, "
    "_iphase) are written only inside the tableau classes and always together (own.tableau); a name used only as a "
    "column/qubit position never indexes a phase vector (num.rowcol, index kinds inferred from use); np.insert/np.delete "
    "on phase vectors stay in range under the function's own asserts and address the destabilizer/stabilizer halves "
    "with indices n_qubits apart, and table rows / phase entries are deleted with the same index lists (num.bounds); "
    "sign-oblivious row operations are applied to tableau matrices only together with the phase vector and row_sum "
    "receives and returns the sign vector (own.rowops); derived gates z/x/y/P†/CZ/CY compose, over a finite Clifford "
    "model, to the elements their names denote; Stabilizer and MixedStabilizer wrappers call the same transform "
    "function. Does not decide the column formulas of H/P/CNOT, row_sum/g_function, or symplecticity numerically.")


TRF = "graphiq/backends/stabilizer/functions/transformation.py"
LINF = "graphiq/backends/stabilizer/functions/linalg.py"


def run(ctx: Ctx) -> None:
    tableau.rule_fresh_storage(ctx)
    from ..rules import memo as _memo
    _memo.rule_memo_sound(ctx, ['graphiq/backends/stabilizer/functions/clifford.py', 'graphiq/backends/stabilizer/functions/transformation.py', 'graphiq/backends/stabilizer/state.py', 'graphiq/backends/stabilizer/clifford_tableau.py', 'graphiq/backends/stabilizer/tableau.py'])
    _memo.rule_falsy_zero(ctx, ['graphiq/backends/stabilizer/functions/clifford.py', 'graphiq/backends/stabilizer/functions/transformation.py', 'graphiq/backends/stabilizer/state.py', 'graphiq/backends/stabilizer/clifford_tableau.py', 'graphiq/backends/stabilizer/tableau.py'])
    _memo.rule_arg_names(ctx, ['graphiq/backends/stabilizer/functions/clifford.py', 'graphiq/backends/stabilizer/functions/transformation.py', 'graphiq/backends/stabilizer/state.py', 'graphiq/backends/stabilizer/clifford_tableau.py', 'graphiq/backends/stabilizer/tableau.py'])
    _memo.rule_fixed_width(ctx, ['graphiq/backends/stabilizer/functions/clifford.py', 'graphiq/backends/stabilizer/functions/transformation.py', 'graphiq/backends/stabilizer/state.py', 'graphiq/backends/stabilizer/clifford_tableau.py', 'graphiq/backends/stabilizer/tableau.py'])
    _memo.rule_paste_incomplete(ctx, ['graphiq/backends/stabilizer/functions/clifford.py', 'graphiq/backends/stabilizer/functions/transformation.py', 'graphiq/backends/stabilizer/state.py', 'graphiq/backends/stabilizer/clifford_tableau.py', 'graphiq/backends/stabilizer/tableau.py'])
    _memo.rule_negative_start(ctx, ['graphiq/backends/stabilizer/functions/clifford.py', 'graphiq/backends/stabilizer/functions/transformation.py', 'graphiq/backends/stabilizer/state.py', 'graphiq/backends/stabilizer/clifford_tableau.py', 'graphiq/backends/stabilizer/tableau.py'])
    _memo.rule_elim_no_pivot(ctx, ['graphiq/backends/stabilizer/functions/clifford.py', 'graphiq/backends/stabilizer/functions/transformation.py', 'graphiq/backends/stabilizer/state.py', 'graphiq/backends/stabilizer/clifford_tableau.py', 'graphiq/backends/stabilizer/tableau.py'])
    _memo.rule_subject_drift(ctx, ['graphiq/backends/stabilizer/functions/clifford.py', 'graphiq/backends/stabilizer/functions/transformation.py', 'graphiq/backends/stabilizer/state.py', 'graphiq/backends/stabilizer/clifford_tableau.py', 'graphiq/backends/stabilizer/tableau.py'])
    _memo.rule_isinstance_on_class(ctx, ['graphiq/backends/stabilizer/functions/clifford.py', 'graphiq/backends/stabilizer/functions/transformation.py', 'graphiq/backends/stabilizer/state.py', 'graphiq/backends/stabilizer/clifford_tableau.py', 'graphiq/backends/stabilizer/tableau.py'])
    _memo.rule_zip_truncation(ctx, ['graphiq/backends/stabilizer/functions/clifford.py', 'graphiq/backends/stabilizer/functions/transformation.py', 'graphiq/backends/stabilizer/state.py', 'graphiq/backends/stabilizer/clifford_tableau.py', 'graphiq/backends/stabilizer/tableau.py'])
    _memo.rule_search_fallthrough(ctx, ['graphiq/backends/stabilizer/functions/clifford.py', 'graphiq/backends/stabilizer/functions/transformation.py', 'graphiq/backends/stabilizer/state.py', 'graphiq/backends/stabilizer/clifford_tableau.py', 'graphiq/backends/stabilizer/tableau.py'])
    _memo.rule_zip_pairing(ctx, ['graphiq/backends/stabilizer/functions/clifford.py', 'graphiq/backends/stabilizer/functions/transformation.py', 'graphiq/backends/stabilizer/state.py', 'graphiq/backends/stabilizer/clifford_tableau.py', 'graphiq/backends/stabilizer/tableau.py'])
    tableau.rule_own_tableau(ctx)
    tableau.rule_eq_decision(ctx)
    tableau.rule_rowcol(ctx, [CLIFF, gatesum.TRANSFORM, STABF])
    tableau.rule_bounds(ctx, [CLIFF, STABF])
    tableau.rule_phase_halves(ctx, [CLIFF, STABF, tableau.CTABLEAU, tableau.TABLEAU, tableau.METRIC, gatesum.SSTATE])
    tableau.rule_rowops(ctx)
    tableau.rule_phase_combine(ctx)
    tableau.rule_measure_rowset(ctx)
    tableau.rule_measure_indices(ctx)
    tableau.rule_insert_layout(ctx)
    tableau.rule_tensor_layout(ctx)
    from .c01 import rule_determinism_map
    rule_determinism_map(ctx)
    tableau.rule_outcome_used(ctx)
    tableau.rule_basis_restored(ctx)
    tableau.rule_reset_basis(ctx)
    tableau.rule_size_stale_per_branch(ctx)
    tableau.rule_symplectic_form_dim(ctx)
    tableau.rule_keep_complement(ctx, [gatesum.SSTATE])
    gatesum.rule_derived_gates(ctx)
    from .c11 import rule_reverse_table
    rule_reverse_table(ctx)
    rule_wrappers(ctx)
    shapes.rule_removal_order(ctx)
    from ..rules import tables as _tables
    _tables.rule_api_project(ctx, [gatesum.SSTATE, tableau.TABLEAU, tableau.CTABLEAU, CLIFF, gatesum.TRANSFORM, STABF, tableau.METRIC,
                                   "graphiq/backends/stabilizer/functions/rep_conversion.py", "graphiq/backends/stabilizer/compiler.py"])
    ctx.floor("own.tableau", 30)
    ctx.floor("num.rowcol", 3)
    ctx.floor("own.rowops", 8)
    from ..rules import bitform as _bitform
    _bitform.arm(ctx)


def rule_wrappers(ctx: Ctx) -> None:
    repo = ctx.repo
    sm = repo.module(gatesum.SSTATE)
    for meth in ("apply_hadamard", "apply_phase", "apply_phase_dagger", "apply_sigmax", "apply_sigmay", "apply_sigmaz",
                 "apply_cnot", "apply_cz"):
        t1, p1, f1, c1, fn1 = gatesum.stab_method_element(repo, "Stabilizer", meth)
        t2, p2, f2, c2, fn2 = gatesum.stab_method_element(repo, "MixedStabilizer", meth)
        if t1 == t2 and f1 == p1 and f2 == p2:
            ctx.ok("sibling.gate-table", sm, c2, what=f"{meth} -> transform.{t1}")
        else:
            ctx.fail("sibling.gate-table", sm, c2,
                     f"Stabilizer.{meth} applies transform.{t1}{tuple(f1)} but MixedStabilizer.{meth} applies transform.{t2}{tuple(f2)}",
                     func=f"MixedStabilizer.{meth}")


KNOCKOUTS = [
    Knockout("measure-destabilizer-copied-before-elimination", "graphiq/backends/stabilizer/functions/clifford.py",
             lambda src: sub_nth("        # probabilistic outcome\n", "        # probabilistic outcome\n        table = tableau.table\n        table[x_p - n_qubits] = table[x_p]\n", 0)(
                 sub_once("        # set x_p - n row equal to x_p row\n        table[x_p - n_qubits] = table[x_p]\n", "")(src)), "measure.indices", "before the loop"),
    Knockout("remove-qubit-pivot-overwritten", "graphiq/backends/stabilizer/functions/clifford.py", sub_once("                    omit_index,\n                    row,\n                )", "                    row,\n                    omit_index,\n                )"), "own.rowops", "pivot `omit_index`"),
    Knockout("mixture-trace-out-size-read-per-branch", "graphiq/backends/stabilizer/state.py", sub_once("                    keep=keep,\n                    dims=n_qubits * [2],\n", "                    keep=[q for q in range(self.n_qubits) if q not in qubit_positions],\n                    dims=n_qubits * [2],\n"), "size.stale-per-branch", "trace_out_qubits", on_fixed_only=True),
    Knockout("reset-y-minus-uses-phase-dagger", CLIFF, sub_nth("    new_tableau = hadamard_gate(new_tableau, qubit_position)\n    new_tableau = phase_gate(new_tableau, qubit_position)\n    return new_tableau", "    new_tableau = hadamard_gate(new_tableau, qubit_position)\n    if intended_state == 0:\n        new_tableau = phase_gate(new_tableau, qubit_position)\n    else:\n        new_tableau = phase_dagger_gate(new_tableau, qubit_position)\n    return new_tableau", 0), "reset.basis", "reset_y"),
    Knockout("measure-x-restores-only-random-outcomes", CLIFF, sub_once("    stabilizer_state_new, outcome, _ = z_measurement_gate(\n        stabilizer_state_new, qubit_position, measurement_determinism\n    )\n    # rotate back: the gates act in place on the caller's tableau\n    hadamard_gate(stabilizer_state_new, qubit_position)", "    stabilizer_state_new, outcome, probabilistic = z_measurement_gate(\n        stabilizer_state_new, qubit_position, measurement_determinism\n    )\n    if probabilistic:\n        hadamard_gate(stabilizer_state_new, qubit_position)"), "measure.basis-restored", "measure_x"),
    Knockout("tensor-phase-halves-not-interleaved", CLIFF, sub_once("            (phase_list1[0], phase_list2[0], phase_list1[1], phase_list2[1])", "            (phase_list1[0], phase_list1[1], phase_list2[0], phase_list2[1])"), "tensor.layout", "phase vector"),
    Knockout("tensor-block-from-other-block", CLIFF, sub_once("        stabilizer_x = block_diag(tableau.stabilizer_x, tab.stabilizer_x)", "        stabilizer_x = block_diag(tableau.stabilizer_x, tab.stabilizer_z)"), "tensor.layout", "same* block"),
    Knockout("insert-qubit-stabilizer-x-instead-of-z", CLIFF, sub_once("    tableau.stabilizer_z[new_position, new_position] = 1\n", "    tableau.stabilizer_x[new_position, new_position] = 1\n"), "insert.layout", "destabilizer X"),
    Knockout("insert-qubit-row-length", CLIFF, sub_once("    new_row = np.zeros(n_qubits + 1)\n", "    new_row = np.zeros(n_qubits)\n"), "insert.layout", "zero entries"),
    Knockout("insert-qubit-blocks-transposed", CLIFF, sub_once("    new_table = np.block([[tmp_dex, tmp_dez], [tmp_sx, tmp_sz]])", "    new_table = np.block([[tmp_dex, tmp_sx], [tmp_dez, tmp_sz]])"), "insert.layout", "assembled"),
    Knockout("measurement-z-column-off-by-n", CLIFF, sub_once("        table[x_p, qubit_position + n_qubits] = 1\n", "        table[x_p, qubit_position] = 1\n"), "measure.indices", "column of the single 1"),
    Knockout("measurement-destabilizer-row", CLIFF, sub_once("        table[x_p - n_qubits] = table[x_p]\n", "        table[x_p - n_qubits + 1] = table[x_p]\n"), "measure.indices", "destabilizer row"),
    Knockout("measurement-stabilizer-search-strict", CLIFF, sub_once("        if non_zero_x[i] >= n_qubits:", "        if non_zero_x[i] > n_qubits:"), "measure.indices", "stabilizer row is searched"),
    Knockout("measurement-scratch-adds-destabilizer", CLIFF, sub_once("                non_zero + n_qubits,\n", "                non_zero,\n"), "measure.indices", "scratch row"),
    Knockout("measurement-forced-one-gives-zero", CLIFF, sub_once("        elif measurement_determinism == 1:\n            outcome = 1\n", "        elif measurement_determinism == 1:\n            outcome = 0\n"), "sibling.determinism-map", "z_measurement_gate"),
    Knockout("symplectic-form-sized-by-rows", "graphiq/backends/stabilizer/functions/utils.py", sub_once("    dim = int(matrix1.shape[1] / 2)\n    symplectic_p", "    dim = matrix1.shape[0]\n    symplectic_p"), "dim.symplectic-form", "binary_symplectic_product"),
    Knockout("measure-x-not-rotated-back", CLIFF, sub_once("    # rotate back: the gates act in place on the caller's tableau\n    hadamard_gate(stabilizer_state_new, qubit_position)\n", ""), "measure.basis-restored", "measure_x"),
    Knockout("measure-y-rotated-back-with-wrong-phase", CLIFF, sub_once("    phase_gate(new_tableau, qubit_position)\n    return outcome", "    phase_dagger_gate(new_tableau, qubit_position)\n    return outcome"), "measure.basis-restored", "measure_y"),
    Knockout("trace-out-passes-removal-as-keep", gatesum.SSTATE, sub_nth("keep=[q for q in range(self.n_qubits) if q not in qubit_positions],", "keep=qubit_positions,", 0), "trace.keep-complement", "Stabilizer.trace_out_qubits"),
    Knockout("reset-z-overwrites-sign-on-random-outcome", CLIFF, sub_once("    tableau, outcome, _ = z_measurement_gate(\n        tableau, qubit_position, measurement_determinism\n    )\n", "    tableau, outcome, probabilistic = z_measurement_gate(\n        tableau, qubit_position, measurement_determinism\n    )\n    if probabilistic:\n        tableau.phase[probabilistic] = intended_state\n        return tableau\n"), "measure.outcome-used", "a path ignores"),
    Knockout("swap-gate-moves-sign-rows", CLIFF, sub_once("    # the phase vectors belong to the generators (rows), which a qubit swap does not permute\n", "    rows1 = [qubit1, qubit1 + n_qubits]\n    rows2 = [qubit2, qubit2 + n_qubits]\n    for vector in (tableau.phase, tableau.iphase):\n        vector[rows1 + rows2] = vector[rows2 + rows1]\n"), "num.rowcol", "swap_gate"),
    Knockout("run-circuit-pdag-not-inverted", TRF, sub_once("        elif ops[0] == \"P_dag\":\n            if reverse:\n                tableau = phase_gate(tableau, ops[1])", "        elif ops[0] == \"P_dag\":\n            if reverse:\n                tableau = phase_dagger_gate(tableau, ops[1])"), "reverse.table", "P_dag"),
    Knockout("prim-h-phase-xx", TRF, sub_nth("        tableau.table, tableau.table, qubit_position, n_qubits + qubit_position\n", "        tableau.table, tableau.table, qubit_position, qubit_position\n", 0), "prim.formula", "hadamard_gate"),
    Knockout("prim-p-columns-swapped", TRF, sub_once("    tableau.table = add_columns(\n        tableau.table, qubit_position, n_qubits + qubit_position\n    )", "    tableau.table = add_columns(\n        tableau.table, n_qubits + qubit_position, qubit_position\n    )"), "prim.formula", "phase_gate"),
    Knockout("prim-cnot-sign-term", TRF, sub_once("(x_target ^ z_ctrl ^ 1)", "(x_target ^ z_ctrl)"), "prim.formula", "cnot_gate"),
    Knockout("prim-cnot-z-direction", TRF, sub_once("        tableau.table, n_qubits + target_qubit, n_qubits + ctrl_qubit\n", "        tableau.table, n_qubits + ctrl_qubit, n_qubits + target_qubit\n"), "prim.formula", "cnot_gate"),
    Knockout("prim-g-yy-sign", LINF, sub_once("        return z2 - x2\n", "        return x2 - z2\n"), "prim.g-table", "g_function"),
    Knockout("prim-g-x-branch", LINF, sub_once("        return z2 * (2 * x2 - 1)\n", "        return z2 * (1 - 2 * x2)\n"), "prim.g-table", "g_function"),
    Knockout("prim-rowsum-drop-sign-of-added", LINF, sub_once("    phases += 2 * r_vector[row_to_add] + iphase_vector[row_to_add] + g_sum\n", "    phases += r_vector[row_to_add] + iphase_vector[row_to_add] + g_sum\n"), "prim.row-sum", "coefficient"),
    Knockout("prim-rowsum-mod2", LINF, sub_once("    phases = phases % 4\n", "    phases = phases % 2\n"), "prim.row-sum", "mod 2"),
    Knockout("prim-rowsum-g-args-mixed", LINF, sub_once("            z_matrix[row_to_add, j],\n            x_matrix[target_row, j],\n", "            x_matrix[target_row, j],\n            z_matrix[row_to_add, j],\n"), "prim.row-sum", "g_function receives"),
    Knockout("prim-rowsum-range-short", LINF, sub_once("    for j in range(n_qubits):\n        g_sum = g_sum + g_function(", "    for j in range(n_qubits - 1):\n        g_sum = g_sum + g_function("), "prim.row-sum", "every qubit"),
    Knockout("prim-addrows-into-first", LINF, sub_once("    input_matrix[target_row] = tmp.astype(int)\n", "    input_matrix[row_to_add] = tmp.astype(int)\n"), "prim.helper", "add_rows"),
    Knockout("insert-position-falsy-zero", CLIFF, sub_once("    n_qubits = tableau.n_qubits\n    assert new_position <= n_qubits\n", "    n_qubits = tableau.n_qubits\n    new_position = new_position or n_qubits\n    assert new_position <= n_qubits\n"), "falsy.zero", "truthiness of numeric parameter"),
    Knockout("stab-phase-asarray", tableau.TABLEAU, sub_once("            self._phase = np.copy(phase).astype(int)", "            self._phase = np.asarray(phase, dtype=int)"), "own.fresh-storage", "aliases its argument"),
    Knockout("clifford-phase-iphase-shared", tableau.CTABLEAU, sub_once("        self._iphase = np.zeros(2 * self.n_qubits).astype(int)\n", "        self._iphase = self._phase\n"), "own.fresh-storage", "aliases"),
    Knockout("missing-project-api", gatesum.SSTATE, sub_once("        tableau, outcome, _ = sfc.z_measurement_gate(\n            tableau, qubit_position, measurement_determinism\n        )\n        self._tableau = transform.hadamard_gate(tableau, qubit_position)", "        tableau, outcome, _ = sfc.x_basis_measurement_gate(\n            tableau, qubit_position, measurement_determinism\n        )\n        self._tableau = transform.hadamard_gate(tableau, qubit_position)"), "api.project", "has no x_basis_measurement_gate"),
    Knockout("outcome-unused", CLIFF, sub_once("    tableau.phase[z_rows] = tableau.phase[z_rows] ^ int(outcome)\n", ""), "measure.outcome-used", "remove_qubit", on_fixed_only=True),
    Knockout("halves-foreign-size", CLIFF, sub_once("        phase_list2 = np.split(tab.phase, 2)", "        phase_list2 = [tab.phase[: tableau.n_qubits], tab.phase[tableau.n_qubits :]]"), "num.halves", "tab.phase"),
    Knockout("measure-rowset-restricted", CLIFF, sub_once("            non_zero_x = np.delete(non_zero_x, i)\n", "            non_zero_x = non_zero_x[non_zero_x >= n_qubits][1:]\n"), "measure.rowset", "row set"),
    Knockout("measure-outcome-parity", CLIFF, sub_once("        outcome = r_vector[2 * n_qubits]", "        outcome = int(np.sum(tableau.phase[non_zero_x[non_zero_x < n_qubits] + n_qubits]) % 2)"), "own.rowops", "arithmetic on phase"),
    Knockout("removal-ascending", CLIFF, sub_once("    removal = sorted(total - keep, reverse=True)", "    removal = sorted(total - keep)"), "order.removal", "partial_trace"),
    Knockout("C3-external-nqubits", CLIFF,
             sub_once("    return insert_qubit(tableau, tableau.n_qubits)", "    tableau.n_qubits += 1\n    return insert_qubit(tableau, tableau.n_qubits - 1)"),
             "own.tableau", "n_qubits"),
    Knockout("C3-reset-drops-iphase", tableau.CTABLEAU,
             sub_once("        self._iphase = new_iphase.astype(int)\n        self.n_qubits = new_n_qubits", "        self.n_qubits = new_n_qubits"),
             "own.tableau", "_reset"),
    Knockout("G6-phase-by-column", gatesum.TRANSFORM,
             sub_once("    tableau.table = column_swap(\n        tableau.table, qubit_position, n_qubits + qubit_position\n    )\n    return tableau",
                      "    tableau.table = column_swap(\n        tableau.table, qubit_position, n_qubits + qubit_position\n    )\n    tableau.phase[qubit_position] = 0\n    return tableau"),
             "num.rowcol", "hadamard_gate"),
    Knockout("G5-insert-offset", CLIFF,
             sub_nth("[new_position, n_qubits + new_position]", "[new_position, n_qubits + 1 + new_position]", 0),
             "num.bounds", "insert_qubit", on_fixed_only=True),
    Knockout("G5-delete-mismatch", CLIFF,
             sub_once("        new_phase = np.delete(tableau.phase, [probabilistic, probabilistic - n_qubits])",
                      "        new_phase = np.delete(tableau.phase, [probabilistic - 1, probabilistic - n_qubits])"),
             "num.bounds", "remove_qubit"),
    Knockout("C4-rowswap-no-phase", STABF,
             sub_once("    tableau.phase = row_swap(tableau.phase, first_row, second_row)\n", ""),
             "own.rowops", "tab_row_swap"),
    Knockout("C4-add-rows", STABF,
             sub_once("                tableau = tab_row_sum(tableau, j, k)\n\n    # Eliminate phase",
                      "                tableau.x_matrix = add_rows(tableau.x_matrix, j, k)\n\n    # Eliminate phase"),
             "own.rowops", "add_rows"),
    Knockout("C4-rowsum-drops-phase", STABF,
             lambda src: sub_once("    tableau.phase = r_vector\n    return tableau", "    return tableau")(sub_once("        tableau.phase,\n        np.zeros(n_qubits),", "        tableau.phase.copy(),\n        np.zeros(n_qubits),")(src)),
             "own.rowops", "tab_row_sum"),
    Knockout("derived-y-gate", gatesum.TRANSFORM,
             sub_once("    tableau = phase_gate(tableau, qubit_position)\n    tableau = z_gate(tableau, qubit_position)\n    tableau = x_gate(tableau, qubit_position)\n    tableau = phase_gate(tableau, qubit_position)\n",
                      "    tableau = phase_gate(tableau, qubit_position)\n    tableau = x_gate(tableau, qubit_position)\n    tableau = phase_gate(tableau, qubit_position)\n"),
             "effect.derived-gate", "y_gate"),
    Knockout("derived-cz-target", gatesum.TRANSFORM,
             sub_once("    tableau = hadamard_gate(tableau, target_qubit)\n    tableau = cnot_gate(tableau, ctrl_qubit, target_qubit)\n    tableau = hadamard_gate(tableau, target_qubit)",
                      "    tableau = hadamard_gate(tableau, ctrl_qubit)\n    tableau = cnot_gate(tableau, ctrl_qubit, target_qubit)\n    tableau = hadamard_gate(tableau, target_qubit)"),
             "effect.derived-gate", "control_z_gate"),
    Knockout("wrapper-mixed-sigmay", gatesum.SSTATE,
             sub_once("(p_i, transform.y_gate(t_i, qubit_position)) for (p_i, t_i) in self._mixture", "(p_i, transform.x_gate(t_i, qubit_position)) for (p_i, t_i) in self._mixture"),
             "sibling.gate-table", "apply_sigmay"),
]
