"""C01 — both simulation backends compute the state the circuit defines (structural clauses, DESIGN §5.1)."""
from __future__ import annotations

import ast
from typing import Dict, List

from .. import clifford as cl
from ..chains import extract_chains
from ..core import (AnalysisError, call_attr, call_name, calls_in, dotted, func_params, get_kw, norm, qualname, short)
from ..driver import Knockout, sub_nth, sub_once
from ..report import Ctx
from ..rules import gatesum, hooks, shapes, tableau
from ..rules.hooks import BASE, COMPILERS, DM, STAB

EXPLANATION = (
    "Static rules over the two compilers' per-operation hooks: every accepted operation class reaches its own "
    "non-raising branch (dispatch.shadow/cover via the ops.py class hierarchy); every q_index call pairs a register "
    "attribute with its own type attribute and is bound to a backend parameter of the matching role; each branch for a "
    "class owning a classical register records the measurement outcome; the measure-and-reset branch passes through "
    "the backend's reset primitive on the control qubit on every path; the determinism setting is forwarded at every "
    "measurement/reset call and mapped to outcomes identically in both backends; corrections are conditioned on "
    "outcome 1; the register->index map is reg / reg+n_photon; the compile loop applies circuit.sequence() in order; "
    "each op class, stabilizer method and dm matrix denote the same Clifford element (finite model). "
    "Does not decide the numerical correctness of the tableau/density-matrix arithmetic."
)


def rule_prob_threshold(ctx: Ctx) -> None:
    """num.prob-threshold: DensityMatrix.apply_measurement decides whether a forced outcome is possible from probabilities computed as
    traces of floating-point matrix products; such a probability is compared with 0 through a tolerance (np.isclose), never with
    `> 0` / `< 1` / `== 0`: after a few gates an impossible outcome has probability ~1e-17 rather than 0, would be "forced", and the state is
    divided by that number."""
    repo = ctx.repo
    rel = "graphiq/backends/density_matrix/state.py"
    m = repo.module(rel)
    fn = repo.anchor(rel, "DensityMatrix.apply_measurement")
    ctx.touch(m, fn)
    pn = {a.targets[0].id for a in ast.walk(fn) if isinstance(a, ast.Assign) and len(a.targets) == 1 and isinstance(a.targets[0], ast.Name)
          and any(isinstance(c, ast.Call) and call_attr(c) == "trace" for c in ast.walk(a.value))}
    if not pn:
        raise AnalysisError("DensityMatrix.apply_measurement: outcome probabilities (np.trace(...)) not found")
    changed = True
    while changed:  # lists the probabilities are appended to, arrays built from them
        changed = False
        for x in ast.walk(fn):
            if isinstance(x, ast.Call) and call_attr(x) == "append" and isinstance(x.func.value, ast.Name) and x.args \
                    and any(isinstance(y, ast.Name) and y.id in pn for y in ast.walk(x.args[0])) and x.func.value.id not in pn:
                pn.add(x.func.value.id)
                changed = True
            if isinstance(x, ast.Assign) and len(x.targets) == 1 and isinstance(x.targets[0], ast.Name) and x.targets[0].id not in pn \
                    and any(isinstance(y, ast.Name) and y.id in pn for y in ast.walk(x.value)):
                pn.add(x.targets[0].id)
                changed = True
    n = 0
    for cmp_ in [x for x in ast.walk(fn) if isinstance(x, ast.Compare)]:
        sides = [cmp_.left] + list(cmp_.comparators)
        if not any(isinstance(s_, ast.Subscript) and isinstance(s_.value, ast.Name) and s_.value.id in pn for s_ in sides):
            continue
        n += 1
        lits = [s_ for s_ in sides if isinstance(s_, ast.Constant) and isinstance(s_.value, (int, float))]
        if lits:
            ctx.fail("num.prob-threshold", m, cmp_,
                     f"DensityMatrix.apply_measurement tests `{short(cmp_)}`: the probability is a trace of floating-point products, so an impossible "
                     f"outcome has probability ~1e-17, not 0 — it passes this test, is forced, and the state is divided by ~1e-17 "
                     f"(X, H, H then a measurement forced to 0 returns |0> for the state |1>)", func="DensityMatrix.apply_measurement",
                     construct=f"apply_measurement: exact threshold {short(cmp_, 40)} on a computed probability")
        else:
            ctx.ok("num.prob-threshold", m, cmp_)
    tol = [c for c in calls_in(fn) if call_attr(c) in ("isclose", "allclose") and any(isinstance(x, ast.Subscript) and isinstance(x.value, ast.Name) and x.value.id in pn
                                                                                         for a_ in c.args for x in ast.walk(a_))]
    for c in tol:
        n += 1
        ctx.ok("num.prob-threshold", m, c, what="forced outcome tested against zero probability with a tolerance")
    if n == 0:
        raise AnalysisError("DensityMatrix.apply_measurement: no test of the outcome probabilities found")


def run(ctx: Ctx) -> None:
    from .c13 import rule_unwrap_order
    rule_unwrap_order(ctx)
    from ..rules import placement as _placement
    _placement.rule_noise_placement(ctx)
    from ..rules import bitform as _bitform
    _bitform.arm(ctx)
    rule_prob_threshold(ctx)
    from ..rules import memo as _memo
    _memo.rule_memo_sound(ctx, ['graphiq/backends/density_matrix/compiler.py', 'graphiq/backends/stabilizer/compiler.py', 'graphiq/backends/compiler_base.py', 'graphiq/backends/density_matrix/state.py', 'graphiq/backends/stabilizer/state.py', 'graphiq/backends/density_matrix/functions.py'])
    _memo.rule_falsy_zero(ctx, ['graphiq/backends/density_matrix/compiler.py', 'graphiq/backends/stabilizer/compiler.py', 'graphiq/backends/compiler_base.py', 'graphiq/backends/density_matrix/state.py', 'graphiq/backends/stabilizer/state.py', 'graphiq/backends/density_matrix/functions.py'])
    _memo.rule_arg_names(ctx, ['graphiq/backends/density_matrix/compiler.py', 'graphiq/backends/stabilizer/compiler.py', 'graphiq/backends/compiler_base.py', 'graphiq/backends/density_matrix/state.py', 'graphiq/backends/stabilizer/state.py', 'graphiq/backends/density_matrix/functions.py'])
    _memo.rule_fixed_width(ctx, ['graphiq/backends/density_matrix/compiler.py', 'graphiq/backends/stabilizer/compiler.py', 'graphiq/backends/compiler_base.py', 'graphiq/backends/density_matrix/state.py', 'graphiq/backends/stabilizer/state.py', 'graphiq/backends/density_matrix/functions.py'])
    _memo.rule_paste_incomplete(ctx, ['graphiq/backends/density_matrix/compiler.py', 'graphiq/backends/stabilizer/compiler.py', 'graphiq/backends/compiler_base.py', 'graphiq/backends/density_matrix/state.py', 'graphiq/backends/stabilizer/state.py', 'graphiq/backends/density_matrix/functions.py'])
    _memo.rule_negative_start(ctx, ['graphiq/backends/density_matrix/compiler.py', 'graphiq/backends/stabilizer/compiler.py', 'graphiq/backends/compiler_base.py', 'graphiq/backends/density_matrix/state.py', 'graphiq/backends/stabilizer/state.py', 'graphiq/backends/density_matrix/functions.py'])
    _memo.rule_elim_no_pivot(ctx, ['graphiq/backends/density_matrix/compiler.py', 'graphiq/backends/stabilizer/compiler.py', 'graphiq/backends/compiler_base.py', 'graphiq/backends/density_matrix/state.py', 'graphiq/backends/stabilizer/state.py', 'graphiq/backends/density_matrix/functions.py'])
    _memo.rule_subject_drift(ctx, ['graphiq/backends/density_matrix/compiler.py', 'graphiq/backends/stabilizer/compiler.py', 'graphiq/backends/compiler_base.py', 'graphiq/backends/density_matrix/state.py', 'graphiq/backends/stabilizer/state.py', 'graphiq/backends/density_matrix/functions.py'])
    _memo.rule_isinstance_on_class(ctx, ['graphiq/backends/density_matrix/compiler.py', 'graphiq/backends/stabilizer/compiler.py', 'graphiq/backends/compiler_base.py', 'graphiq/backends/density_matrix/state.py', 'graphiq/backends/stabilizer/state.py', 'graphiq/backends/density_matrix/functions.py'])
    _memo.rule_zip_truncation(ctx, ['graphiq/backends/density_matrix/compiler.py', 'graphiq/backends/stabilizer/compiler.py', 'graphiq/backends/compiler_base.py', 'graphiq/backends/density_matrix/state.py', 'graphiq/backends/stabilizer/state.py', 'graphiq/backends/density_matrix/functions.py'])
    _memo.rule_search_fallthrough(ctx, ['graphiq/backends/density_matrix/compiler.py', 'graphiq/backends/stabilizer/compiler.py', 'graphiq/backends/compiler_base.py', 'graphiq/backends/density_matrix/state.py', 'graphiq/backends/stabilizer/state.py', 'graphiq/backends/density_matrix/functions.py'])
    _memo.rule_zip_pairing(ctx, ['graphiq/backends/density_matrix/compiler.py', 'graphiq/backends/stabilizer/compiler.py', 'graphiq/backends/compiler_base.py', 'graphiq/backends/density_matrix/state.py', 'graphiq/backends/stabilizer/state.py', 'graphiq/backends/density_matrix/functions.py'])
    repo = ctx.repo
    pos = hooks.hook_positions(repo)
    mcr = repo.cls("MeasurementCNOTandReset", hooks.OPS)
    for rel, cname in COMPILERS:
        acc = hooks.accepted_classes(repo, rel, cname)
        chain, names = hooks.rule_shadow_cover(ctx, rel, cname, "compile_one_gate", acc)
        hooks.rule_crecord(ctx, rel, cname, chain, names, acc)
        hooks.rule_reset(ctx, rel, cname, chain, names, mcr)
        hooks.rule_qindex(ctx, rel, cname, hooks.HOOKS)
        hooks.rule_determinism(ctx, rel, cname, ["compile_one_gate"])
    hooks.rule_condition(ctx)
    hooks.rule_determinism_passthrough(ctx)
    hooks.rule_cache_keys(ctx, [(STAB, "StabilizerCompiler"), (DM, "DensityMatrixCompiler"), (BASE, "CompilerBase")])
    rule_index_map(ctx)
    rule_order_compile(ctx)
    rule_determinism_map(ctx)
    rule_init_zero(ctx)
    rule_reset_zero(ctx)
    shapes.rule_kron_layout(ctx)
    shapes.rule_bit_order(ctx, ["graphiq/backends/density_matrix/functions.py", "graphiq/backends/density_matrix/state.py", "graphiq/backends/density_matrix/compiler.py"])
    tableau.rule_measure_rowset(ctx)
    tableau.rule_measure_indices(ctx)
    tableau.rule_outcome_used(ctx)
    tableau.rule_phase_combine(ctx)
    gatesum.rule_derived_gates(ctx)
    rule_gate_table(ctx)
    ctx.floor("sibling.qindex", 40)
    ctx.floor("sibling.determinism", 9)
    ctx.floor("sibling.condition", 5)
    ctx.floor("dispatch.cover", 30)
    ctx.assume("the primitives hadamard_gate/phase_gate/cnot_gate, get_two_qubit_controlled_gate, z_measurement_gate, "
               "reset_z and the Kraus reset are trusted as named; their arithmetic is not decided")


# ------------------------------------------------------------------------------------------------ index.map


def rule_index_map(ctx: Ctx) -> None:
    repo = ctx.repo
    m = repo.module(BASE)
    outer = repo.anchor(BASE, "CompilerBase.reg_to_index_func")
    ctx.touch(m, outer)
    nph = func_params(outer)[0]
    inner = [n for n in outer.body if isinstance(n, ast.FunctionDef)]
    if len(inner) != 1:
        raise AnalysisError("reg_to_index_func: inner mapping function not found")
    fn = inner[0]
    reg, rtype = func_params(fn)[:2]
    got: Dict[str, ast.AST] = {}
    for ch in extract_chains(repo, m, fn):
        for b in ch:
            if b.parsed and b.subject == rtype and len(b.literals) == 1 and len(b.body) == 1 \
                    and isinstance(b.body[0], ast.Return):
                got[next(iter(b.literals))] = b.body[0].value
    for lit, want in (("p", {reg}), ("e", {reg, nph})):
        v = got.get(lit)
        if v is None:
            ctx.fail("index.map", m, fn, f"register type '{lit}' has no mapping branch", construct=f"reg_type == '{lit}'")
            continue
        terms = _sum_terms(v)
        if terms is not None and sorted(terms) == sorted(want):
            ctx.ok("index.map", m, v, what=f"'{lit}' -> {norm(v)}")
        else:
            ctx.fail("index.map", m, v,
                     f"register type '{lit}' maps to `{norm(v)}`; photons-before-emitters requires "
                     f"`{' + '.join(sorted(want))}`", construct=f"'{lit}' -> {norm(v)}")
    # the single construction site passes circuit.n_photons
    comp = repo.anchor(BASE, "CompilerBase.compile")
    sites = [c for c in calls_in(comp) if call_attr(c) == "reg_to_index_func"]
    if len(sites) != 1:
        raise AnalysisError("CompilerBase.compile: reg_to_index_func call site not found")
    cparam = func_params(comp)[1]
    if len(sites[0].args) == 1 and norm(sites[0].args[0]) == f"{cparam}.n_photons":
        ctx.ok("index.map", m, sites[0])
    else:
        ctx.fail("index.map", m, sites[0], f"index map is built from `{short(sites[0].args[0]) if sites[0].args else ''}` "
                                           f"instead of the circuit's photon count")


def _sum_terms(e: ast.AST):
    if isinstance(e, ast.Name):
        return [e.id]
    if isinstance(e, ast.BinOp) and isinstance(e.op, ast.Add):
        a, b = _sum_terms(e.left), _sum_terms(e.right)
        if a is None or b is None:
            return None
        return a + b
    return None


# ------------------------------------------------------------------------------------------------ order.compile


def rule_order_compile(ctx: Ctx) -> None:
    repo = ctx.repo
    m = repo.module(BASE)
    fn = repo.anchor(BASE, "CompilerBase.compile")
    ctx.touch(m, fn)
    cparam = func_params(fn)[1]
    seq_name = None
    for n in ast.walk(fn):
        if isinstance(n, ast.Assign) and isinstance(n.value, ast.Call) and call_name(n.value) == f"{cparam}.sequence":
            kw = get_kw(n.value, "unwrapped")
            if not (kw is not None and isinstance(kw, ast.Constant) and kw.value is True):
                ctx.fail("order.compile", m, n, "compile does not request the unwrapped operation sequence")
            seq_name = n.targets[0].id if isinstance(n.targets[0], ast.Name) else None
    if seq_name is None:
        raise AnalysisError("CompilerBase.compile: `<circuit>.sequence(...)` binding not found")
    loops = [n for n in ast.walk(fn) if isinstance(n, ast.For)]
    main = [l for l in loops if any(call_name(c) == "self.compile_one_gate" for c in calls_in(l))]
    if len(main) != 1:
        raise AnalysisError("CompilerBase.compile: the compile loop was not found")
    loop = main[0]
    if isinstance(loop.iter, ast.Name) and loop.iter.id == seq_name and isinstance(loop.target, ast.Name):
        ctx.ok("order.compile", m, loop.iter, what="loop iterates the sequence in order")
    else:
        ctx.fail("order.compile", m, loop.iter,
                 f"the compile loop iterates `{short(loop.iter)}` instead of the circuit's operation sequence in order",
                 construct=f"for {norm(loop.target)} in {norm(loop.iter)}")
    pos = hooks.hook_positions(repo)
    lv = loop.target.id if isinstance(loop.target, ast.Name) else None
    for c in calls_in(loop):
        if call_name(c) in ("self.compile_one_gate", "self.compile_one_noisy_gate", "self._apply_additional_noise"):
            a = c.args[pos["op"]] if len(c.args) > pos["op"] else None
            if isinstance(a, ast.Name) and a.id == lv:
                ctx.ok("order.compile", m, c)
            else:
                ctx.fail("order.compile", m, c, "hook is not applied to the loop's current operation")
    # sequence() derives from a topological sort, reduce keeps order
    dag_rel = "graphiq/circuit/circuit_dag.py"
    dm_ = repo.module(dag_rel)
    seq = repo.anchor(dag_rel, "CircuitDAG.sequence")
    ctx.touch(dm_, seq)
    comps = [n for n in ast.walk(seq) if isinstance(n, ast.ListComp)]
    ok = False
    for lc in comps:
        g = lc.generators[0]
        if isinstance(g.iter, ast.Call) and call_attr(g.iter) == "topological_sort" and norm(g.iter.args[0]) == "self.dag" \
                and not g.ifs:
            ok = True
            ctx.ok("order.compile", dm_, lc, what="sequence = topological order of the DAG")
    if not ok:
        ctx.fail("order.compile", dm_, seq, "CircuitDAG.sequence does not derive its operation list from "
                                             "nx.topological_sort(self.dag)", construct="sequence: op_list source")
    for c in calls_in(seq):
        if call_attr(c) == "reduce" and c.args and isinstance(c.args[0], ast.Lambda):
            lam = c.args[0]
            a = [x.arg for x in lam.args.args]
            b = lam.body
            if isinstance(b, ast.BinOp) and isinstance(b.op, ast.Add) and isinstance(b.left, ast.Name) and b.left.id == a[0] \
                    and isinstance(b.right, ast.Call) and norm(b.right) == f"{a[1]}.unwrap()":
                ctx.ok("order.compile", dm_, lam, what="unwrapped sequence concatenates in order")
            else:
                ctx.fail("order.compile", dm_, lam,
                         f"the unwrapped sequence is accumulated as `{short(b)}`; order-preserving form is "
                         f"`acc + op.unwrap()`")


# ------------------------------------------------------------------------------------------------ determinism-map


def rule_determinism_map(ctx: Ctx) -> None:
    """In z_measurement_gate and DensityMatrix.apply_measurement the determinism chain maps 'probabilistic' to a
    random draw, 1 to outcome 1 (when possible) and 0 / else to outcome 0."""
    repo = ctx.repo
    sites = [("graphiq/backends/stabilizer/functions/clifford.py", "z_measurement_gate"),
             ("graphiq/backends/density_matrix/state.py", "DensityMatrix.apply_measurement")]
    for rel, q in sites:
        m = repo.module(rel)
        fn = repo.anchor(rel, q)
        ctx.touch(m, fn)
        params = func_params(fn)
        det = [p for p in params if "determinism" in p]
        if len(det) != 1:
            raise AnalysisError(f"{rel}::{q}: determinism parameter not found")
        det = det[0]
        found = False
        for ch in extract_chains(repo, m, fn):
            brs = [b for b in ch if b.parsed and b.subject == det and b.literals]
            if not brs:
                continue
            found = True
            expanded = []
            for b in ch:
                if b.test is None:
                    expanded.append((b, "else"))
                elif b.parsed and b.subject == det and len(b.literals) >= 1:
                    for lit_ in sorted(b.literals, key=repr):
                        expanded.append((b, lit_))
                else:
                    raise AnalysisError(f"{rel}::{q}: determinism chain branch not recognised: {short(b.test)}")
            for b, lit in expanded:
                if b.raises:
                    continue
                outs = _outcome_constants(b.body, det, lit)
                # a forced outcome is taken unless its probability is (numerically) zero: polarity and index of the test, on its truth table
                if lit in (0, 1):
                    from ..boolform import Table as _Table
                    for gi in [x for st_ in b.body for x in ast.walk(st_) if isinstance(x, ast.If) and "isclose" in norm(x.test)]:
                        tb_ = _Table()
                        f_ = tb_.formula(gi.test, {})
                        keys_ = [k for k in tb_.atoms if "probs[" in k or "prob" in k]
                        if len(tb_.atoms) != 1 or not keys_:
                            continue
                        k_ = keys_[0]
                        import re as _re
                        mi = _re.search(r"\[(\w+)\]", k_)
                        idx_txt = mi.group(1) if mi else "?"
                        idx_val = lit if idx_txt == det else (int(idx_txt) if idx_txt.isdigit() else None)

                        def arm_val(stmts):
                            vs = [a.value for st2 in stmts for a in ast.walk(st2) if isinstance(a, ast.Assign) and any(isinstance(t, ast.Name) and "outcome" in t.id for t in a.targets)]
                            o = _outcome_constants(stmts, det, lit)
                            return o["first"]
                        when_zero = arm_val(gi.body if f_({k_: True}) else gi.orelse)
                        when_pos = arm_val(gi.body if f_({k_: False}) else gi.orelse)
                        if idx_val != lit:
                            ctx.fail("sibling.determinism-map", m, gi.test, f"{q}: with determinism setting {lit!r} the test looks at the probability of outcome {idx_txt}, "
                                     f"not of the requested outcome", construct=f"{q}: {lit!r} tests probability of {idx_txt}", func=q)
                        elif when_pos != lit or when_zero != 1 - lit:
                            ctx.fail("sibling.determinism-map", m, gi.test, f"{q}: with determinism setting {lit!r} the outcome is {when_pos} when it is possible and "
                                     f"{when_zero} when its probability is zero; it must be {lit} unless impossible, then {1 - lit}",
                                     construct=f"{q}: {lit!r} -> possible {when_pos} / impossible {when_zero}", func=q)
                        else:
                            ctx.ok("sibling.determinism-map", m, gi.test, what=f"{q}: {lit!r} taken unless its probability is zero")
                stray = sorted(v for v in outs["values"] if v not in (0, 1))
                if stray and lit != "probabilistic":
                    ctx.fail("sibling.determinism-map", m, b.node,
                             f"{q}: with determinism setting {lit!r} the outcome can become {stray}: an outcome is 0 or 1 (a negative value still "
                             f"indexes a projector, but every `outcome == 1` correction downstream is then skipped)",
                             construct=f"{q}: {lit!r} -> outcome in {sorted(outs['values'], key=repr)}", func=q)
                    continue
                if lit == "probabilistic":
                    rnd = any((call_name(c) or "").split(".")[-2:-1] == ["random"] for st in b.body for c in calls_in(st))
                    if rnd and not outs["const_only"]:
                        ctx.ok("sibling.determinism-map", m, b.node, what=f"{q}: 'probabilistic' -> random draw")
                    else:
                        ctx.fail("sibling.determinism-map", m, b.node,
                                 f"{q}: setting 'probabilistic' does not draw the outcome at random",
                                 construct=f"{q}: 'probabilistic' -> {sorted(outs['values'])}", func=q)
                else:
                    want = 1 if lit == 1 else 0
                    first = outs["first"]
                    if first == want:
                        ctx.ok("sibling.determinism-map", m, b.node, what=f"{q}: {lit!r} -> outcome {want} preferred")
                    else:
                        ctx.fail("sibling.determinism-map", m, b.node,
                                 f"{q}: determinism setting {lit!r} selects outcome {first} where the sibling backend and "
                                 f"the documented contract select {want}",
                                 construct=f"{q}: {lit!r} -> outcome {first}", func=q)
        if not found:
            raise AnalysisError(f"{rel}::{q}: no chain on the determinism setting found")


def _outcome_constants(body: List[ast.stmt], det: str = "", lit=None):
    """Values a name containing 'outcome' can take in a branch, with the determinism parameter bound to the branch's literal
    (so `outcome = int(det)`, `outcome = 1 - outcome` fold); 'first' = the value on the preferred (first / unconditional) path."""
    vals: List = []
    const_only = True

    def ev(e, cur):
        if isinstance(e, ast.Constant):
            return e.value
        if isinstance(e, ast.Name):
            if e.id == det and isinstance(lit, int):
                return lit
            if "outcome" in e.id and cur is not None:
                return cur
            raise ValueError
        if isinstance(e, ast.Call) and isinstance(e.func, ast.Name) and e.func.id in ("int", "bool") and len(e.args) == 1:
            return int(ev(e.args[0], cur))
        if isinstance(e, ast.UnaryOp) and isinstance(e.op, ast.Not):
            return int(not ev(e.operand, cur))
        if isinstance(e, ast.UnaryOp) and isinstance(e.op, ast.USub):
            return -ev(e.operand, cur)
        if isinstance(e, ast.BinOp):
            a, b_ = ev(e.left, cur), ev(e.right, cur)
            for k, f in ((ast.Add, lambda: a + b_), (ast.Sub, lambda: a - b_), (ast.BitXor, lambda: a ^ b_), (ast.Mod, lambda: a % b_), (ast.Mult, lambda: a * b_)):
                if isinstance(e.op, k):
                    return f()
        raise ValueError

    def block(stmts, cur_set):
        nonlocal const_only
        for st in stmts:
            if isinstance(st, ast.If):
                a = block(st.body, set(cur_set))
                b_ = block(st.orelse, set(cur_set)) if st.orelse else set(cur_set)
                cur_set = a | b_
                continue
            if isinstance(st, ast.Assign) and any(isinstance(t, ast.Name) and "outcome" in t.id for t in st.targets):
                new = set()
                for cur in (cur_set or {None}):
                    try:
                        v = ev(st.value, cur)
                        new.add(v)
                        vals.append(v)
                    except (ValueError, TypeError):
                        const_only = False
                if new:
                    cur_set = new
                continue
            for n in ast.walk(st):
                if isinstance(n, ast.Assign) and any(isinstance(t, ast.Name) and "outcome" in t.id for t in n.targets):
                    try:
                        vals.append(ev(n.value, None))
                    except (ValueError, TypeError):
                        const_only = False
        return cur_set

    block(body, set())
    return {"values": set(vals), "first": vals[0] if vals else None, "const_only": const_only and bool(vals)}


# ------------------------------------------------------------------------------------------------ init.zero


def rule_init_zero(ctx: Ctx) -> None:
    repo = ctx.repo
    m = repo.module(BASE)
    fn = repo.anchor(BASE, "CompilerBase.compile")
    cparam = func_params(fn)[1]
    iparam = func_params(fn)[2] if len(func_params(fn)) > 2 else None
    # state_data = circuit.n_quantum on the no-initial-state path
    ok = False
    for n in ast.walk(fn):
        if isinstance(n, ast.If) and isinstance(n.test, ast.Name) and n.test.id == iparam and n.orelse:
            for st in n.orelse:
                if isinstance(st, ast.Assign) and norm(st.value) == f"{cparam}.n_quantum":
                    ok = True
                    var = st.targets[0].id
                    # and it is what QuantumState receives
                    qs = [c for c in calls_in(fn) if call_attr(c) == "QuantumState"]
                    if len(qs) == 1 and norm(get_kw(qs[0], "data") or (qs[0].args[0] if qs[0].args else ast.Constant(None))) == var:
                        ctx.ok("init.zero", m, st, what="default initial data = number of qubits")
                    else:
                        ctx.fail("init.zero", m, st, "QuantumState is not constructed from the default initial data")
    if not ok:
        ctx.fail("init.zero", m, fn, "without an initial state the compile does not start from `circuit.n_quantum` "
                                     "(the all-|0> constructor argument)", construct="compile: default state_data")
    # representation constructors turn an int into |0...0>
    dmm = repo.module("graphiq/backends/density_matrix/state.py")
    init = repo.anchor(dmm.rel, "DensityMatrix.__init__")
    good = any(call_attr(c) == "create_n_product_state" and len(c.args) == 2 and call_attr(c.args[1]) == "state_ketz0"
               for c in calls_in(init) if isinstance(c.args[1] if len(c.args) > 1 else None, ast.Call))
    if good:
        ctx.ok("init.zero", dmm, init, what="DensityMatrix(int) = |0..0><0..0|")
    else:
        ctx.fail("init.zero", dmm, init, "DensityMatrix(int) is not built as create_n_product_state(n, state_ketz0())",
                 construct="DensityMatrix.__init__: int data")
    for cn in ("Stabilizer", "MixedStabilizer"):
        sm = repo.module(gatesum.SSTATE)
        init = repo.anchor(sm.rel, f"{cn}.__init__")
        if any(call_attr(c) == "CliffordTableau" and len(c.args) == 1 and isinstance(c.args[0], ast.Name)
               and c.args[0].id == func_params(init)[1] for c in calls_in(init)):
            ctx.ok("init.zero", sm, init, what=f"{cn}(int) = CliffordTableau(n)")
        else:
            ctx.fail("init.zero", sm, init, f"{cn}(int) is not built as CliffordTableau(n)", construct=f"{cn}.__init__: int data")


# ------------------------------------------------------------------------------------------------ reset.zero


def rule_reset_zero(ctx: Ctx) -> None:
    """'a reset leaves the measured qubit in |0>': both stabilizer wrappers ask reset_z for state 0 on their own qubit
    argument and forward their determinism parameter; the dm Kraus pair is {|0><0|, |0><1|} (trace preserving, range |0>)."""
    from .. import consteval
    repo = ctx.repo
    sm = repo.module(gatesum.SSTATE)
    for cn in ("Stabilizer", "MixedStabilizer"):
        fn = repo.anchor(sm.rel, f"{cn}.reset_qubit")
        ctx.touch(sm, fn)
        ps = func_params(fn)
        cs = [c for c in calls_in(fn) if call_attr(c) == "reset_z"]
        if len(cs) != 1:
            raise AnalysisError(f"{cn}.reset_qubit: reset_z call not found")
        c = cs[0]
        tgt = repo.anchor("graphiq/backends/stabilizer/functions/clifford.py", "reset_z")
        tps = func_params(tgt)
        bound = {tps[i]: a for i, a in enumerate(c.args)}
        bound.update({k.arg: k.value for k in c.keywords})
        st = bound.get("intended_state")
        ok = isinstance(st, ast.Constant) and st.value == 0 and norm(bound.get("qubit_position")) == ps[1] \
            and norm(bound.get("measurement_determinism") or ast.Constant(None)) == ps[2]
        if ok:
            ctx.ok("reset.zero", sm, c, what=f"{cn}.reset_qubit -> reset_z(.., q, 0, determinism)")
        else:
            ctx.fail("reset.zero", sm, c,
                     f"{cn}.reset_qubit calls `{short(c)}`; a reset must leave the qubit in |0>: intended_state 0, on the method's own "
                     f"qubit argument, with the caller's determinism setting", func=f"{cn}.reset_qubit",
                     construct=f"{cn}.reset_qubit: {short(c, 90)}")
    dmf_rel = "graphiq/backends/density_matrix/functions.py"
    dmm = repo.module(dmf_rel)
    fn = repo.anchor(dmf_rel, "get_reset_qubit_kraus")
    ctx.touch(dmm, fn)
    mats = []
    for n in fn.body:
        if isinstance(n, ast.Assign) and isinstance(n.value, ast.Call) and call_attr(n.value) == "array":
            try:
                mats.append((norm(n.targets[0]), consteval.to_complex_matrix(consteval.fold(n.value))))
            except consteval.NotConstant:
                pass
    if len(mats) != 2:
        raise AnalysisError("get_reset_qubit_kraus: the two 2x2 Kraus literals were not found")
    tot = [[0j, 0j], [0j, 0j]]
    in_zero = True
    for _, k in mats:
        kk = cl.mm(cl.dag(k), k)
        tot = [[tot[i][j] + kk[i][j] for j in range(2)] for i in range(2)]
        in_zero = in_zero and abs(k[1][0]) < 1e-12 and abs(k[1][1]) < 1e-12
    if cl.close(tot, cl.I2) and in_zero:
        ctx.ok("reset.zero", dmm, fn, what="Kraus pair is trace preserving with range |0>")
    else:
        ctx.fail("reset.zero", dmm, fn,
                 f"the reset Kraus operators {[n for n, _ in mats]} are not a trace-preserving pair mapping every state of the qubit to |0> "
                 f"(sum K^dagger K = {tot})", func="get_reset_qubit_kraus", construct="get_reset_qubit_kraus: Kraus pair")
    used = [c for c in calls_in(fn) if call_attr(c) == "get_one_qubit_gate"]
    qp = func_params(fn)[1]
    if len(used) == 2 and all(len(c.args) == 3 and norm(c.args[1]) == qp for c in used):
        ctx.ok("reset.zero", dmm, used[0], what="both Kraus operators embedded at the reset qubit")
    else:
        ctx.fail("reset.zero", dmm, fn, "the two reset Kraus operators are not both embedded at the qubit being reset",
                 func="get_reset_qubit_kraus", construct="get_reset_qubit_kraus: embedding position")


# ------------------------------------------------------------------------------------------------ gate table (B5)


def rule_gate_table(ctx: Ctx) -> None:
    repo = ctx.repo
    # --- stabilizer side: Stabilizer.<method> / MixedStabilizer.<method> -> transform fn -> model element
    sm = repo.module(gatesum.SSTATE)
    stab_methods = {}
    for meth in ("apply_hadamard", "apply_phase", "apply_phase_dagger", "apply_sigmax", "apply_sigmay", "apply_sigmaz",
                 "apply_cnot", "apply_cz"):
        t1, p1, f1, c1, fn1 = gatesum.stab_method_element(repo, "Stabilizer", meth)
        t2, p2, f2, c2, fn2 = gatesum.stab_method_element(repo, "MixedStabilizer", meth)
        ctx.touch(sm, fn1)
        ctx.touch(sm, fn2)
        if t1 != t2:
            ctx.fail("sibling.gate-table", sm, c2,
                     f"MixedStabilizer.{meth} applies transform.{t2} while Stabilizer.{meth} applies transform.{t1}",
                     func=f"MixedStabilizer.{meth}")
        else:
            ctx.ok("sibling.gate-table", sm, c2, what=f"Stabilizer/MixedStabilizer.{meth} -> {t1}")
        for cn, p, f, c in (("Stabilizer", p1, f1, c1), ("MixedStabilizer", p2, f2, c2)):
            if f != p:
                ctx.fail("sibling.gate-table", sm, c,
                         f"{cn}.{meth} forwards its qubit parameters as {f} (declared {p}); control/target would be swapped",
                         func=f"{cn}.{meth}")
            else:
                ctx.ok("sibling.gate-table", sm, c, what=f"{cn}.{meth} forwards {p} in order")
        try:
            sm_ = gatesum.summarise_or_none(repo, t1)
            if sm_ is None:
                ctx.fail("sibling.gate-table", sm, c1, f"Stabilizer.{meth} applies transform.{t1}, whose sign update is not a Pauli conjugation",
                         func=f"Stabilizer.{meth}", construct=f"Stabilizer.{meth} -> {t1} (bad sign update)")
                continue
            stab_methods[meth] = sm_
        except gatesum.Unsummarisable as e:
            raise AnalysisError(f"transformation.{t1}: {e}")
    # conditioned gates of MixedStabilizer: gate == "x" -> transform.x_gate ...
    acg = repo.anchor(sm.rel, "MixedStabilizer.apply_conditioned_gate")
    cond = {}
    for ch in extract_chains(repo, sm, acg):
        for b in ch:
            if b.parsed and len(b.literals) == 1 and len(b.body) == 1 and isinstance(b.body[0], ast.Assign):
                d = dotted(b.body[0].value) or ""
                if d.startswith("transform."):
                    cond[next(iter(b.literals))] = d.split(".", 1)[1]
    # --- stabilizer compiler branches
    stm = repo.module(STAB)
    acc = hooks.accepted_classes(repo, STAB, "StabilizerCompiler")
    fn = repo.anchor(STAB, "StabilizerCompiler.compile_one_gate")
    names = hooks.hook_names(fn, hooks.hook_positions(repo))
    chain = hooks.flat_chain(repo, stm, fn, names["op"])
    for c in acc:
        den = gatesum.OP_DENOTES.get(c.name)
        if den is None:
            continue
        kind, want = den
        b = hooks.reach(repo, chain, c)
        if b is None or b.raises:
            continue
        if c.name == "Identity":
            ctx.ok_abstract("sibling.gate-table", "stabilizer: Identity -> no-op")
            continue
        gate_calls = [x for st in b.body for x in calls_in(st)
                      if call_attr(x) in stab_methods or call_attr(x) == "apply_conditioned_gate"]
        via_table = None
        if not gate_calls:
            # method chosen from a class-keyed table of method names: getattr(state, TABLE[type(op)])(...)
            for x in [y for st in b.body for y in ast.walk(st) if isinstance(y, ast.Call) and isinstance(y.func, ast.Name) and y.func.id == "getattr" and len(y.args) == 2]:
                sel = x.args[1]
                if isinstance(sel, ast.Subscript) and "type(" in norm(sel.slice) and isinstance(sel.value, (ast.Name, ast.Attribute)):
                    tname_ = sel.value.id if isinstance(sel.value, ast.Name) else sel.value.attr
                    tbl = stm.find(tname_) if isinstance(sel.value, ast.Name) else None
                    dct = None
                    if isinstance(tbl, ast.Assign) and isinstance(tbl.value, ast.Dict):
                        dct = tbl.value
                    else:
                        for st_ in list(stm.tree.body) + list(repo.cls("StabilizerCompiler", STAB).node.body):
                            if isinstance(st_, ast.Assign) and any(isinstance(t, ast.Name) and t.id == tname_ for t in st_.targets) and isinstance(st_.value, ast.Dict):
                                dct = st_.value
                    if dct is None:
                        raise AnalysisError(f"{STAB}: table `{tname_}` of gate methods not found")
                    for k_, v_ in zip(dct.keys, dct.values):
                        if k_ is not None and (dotted(k_) or "").split(".")[-1] == c.name and isinstance(v_, ast.Constant) and isinstance(v_.value, str):
                            via_table = (v_.value, v_)
        if via_table is not None:
            a, node_ = via_table
            if a not in stab_methods:
                ctx.fail("sibling.gate-table", stm, node_, f"stabilizer table entry for {c.name} names `{a}`, which is not a gate method of the stabilizer state",
                         construct=f"stabilizer: {c.name} -> {a}", func="StabilizerCompiler.compile_one_gate")
                continue
            k, u = stab_methods[a]
            exp = want if kind in ("1", "cc") else cl.controlled(want)
            if len(u) == len(exp) and cl.key(u) == cl.key(exp):
                ctx.ok("sibling.gate-table", stm, node_, what=f"stabilizer {c.name} -> {a} (method table)")
            else:
                ctx.fail("sibling.gate-table", stm, node_,
                         f"stabilizer branch for {c.name} applies `{a}` (method table entry) whose Clifford element is not the one {c.name} denotes",
                         construct=f"stabilizer: {c.name} -> {a}", func="StabilizerCompiler.compile_one_gate")
            continue
        if not gate_calls:
            ctx.fail("sibling.gate-table", stm, b.node, f"stabilizer branch for {c.name} applies no gate",
                     construct=f"stabilizer: {c.name} applies nothing", func="StabilizerCompiler.compile_one_gate")
            continue
        for gc in gate_calls:
            a = call_attr(gc)
            if a == "apply_conditioned_gate":
                g = get_kw(gc, "gate")
                if isinstance(g, ast.Subscript) and isinstance(g.value, ast.Attribute) and norm(g.value.value) == "self" and "type(" in norm(g.slice):
                    # gate looked up in a class-level table keyed by the operation class: take this class's entry
                    sci = repo.cls("StabilizerCompiler", STAB)
                    tbl = g.value.attr
                    for st_ in sci.node.body:
                        if isinstance(st_, ast.Assign) and any(isinstance(t, ast.Name) and t.id == tbl for t in st_.targets) and isinstance(st_.value, ast.Dict):
                            for k_, v_ in zip(st_.value.keys, st_.value.values):
                                if k_ is not None and (dotted(k_) or "").split(".")[-1] == c.name:
                                    g = v_
                tname = cond.get(g.value) if isinstance(g, ast.Constant) else None
                if tname is None:
                    raise AnalysisError(f"{STAB}: conditioned gate tag not resolvable: {short(gc)}")
                ku = gatesum.summarise_or_none(repo, tname)
                if ku is None:
                    continue
                k, u = ku
            else:
                if a not in stab_methods:
                    continue
                k, u = stab_methods[a]
            exp = want if kind in ("1", "cc") else cl.controlled(want)
            if len(u) == len(exp) and cl.key(u) == cl.key(exp):
                ctx.ok("sibling.gate-table", stm, gc, what=f"stabilizer {c.name} -> {a}")
            else:
                ctx.fail("sibling.gate-table", stm, gc,
                         f"stabilizer branch for {c.name} applies `{a}` whose Clifford element is not the one {c.name} denotes",
                         construct=f"stabilizer: {c.name} -> {a}" + (f"[{norm(get_kw(gc, 'gate'))}]" if a == "apply_conditioned_gate" else ""),
                         func="StabilizerCompiler.compile_one_gate")
    # --- dm side: table lambda -> dm.<f>() -> matrix
    dmm = repo.module(DM)
    ci = repo.cls("DensityMatrixCompiler", DM)
    table = ci.class_attrs().get("ops")
    if not isinstance(table, ast.Dict):
        raise AnalysisError("DensityMatrixCompiler.ops is not a dict display")
    for k, v in zip(table.keys, table.values):
        c = repo.resolve_class(dmm, dotted(k) or "")
        den = gatesum.OP_DENOTES.get(c.name) if c else None
        if den is None:
            continue
        kind, want = den
        mat = gatesum.dm_matrix_of(repo, v, dmm)
        if c.name == "Identity":
            if mat is None or cl.equal_mod_phase(mat, cl.I2):
                ctx.ok("sibling.gate-table", dmm, v, what="dm Identity")
            else:
                ctx.fail("sibling.gate-table", dmm, v, "dm table maps Identity to a non-identity matrix",
                         construct=f"dm table: Identity -> {norm(v)}", func="DensityMatrixCompiler")
            continue
        good = mat is not None and (cl.equal_mod_phase(mat, want) if kind == "1" else cl.close(mat, want))
        if good:
            ctx.ok("sibling.gate-table", dmm, v, what=f"dm {c.name} -> {norm(v)}")
        else:
            ctx.fail("sibling.gate-table", dmm, v,
                     f"dm table maps {c.name} to `{norm(v)}` which is not the matrix {c.name} denotes",
                     construct=f"dm table: {c.name} -> {norm(v)}", func="DensityMatrixCompiler")
    # direct matrix literals in the dm hook (e.g. dm.sigmax() in the measure-and-reset branch)
    fn = repo.anchor(DM, "DensityMatrixCompiler.compile_one_gate")
    names = hooks.hook_names(fn, hooks.hook_positions(repo))
    chain = hooks.flat_chain(repo, dmm, fn, names["op"])
    acc = hooks.accepted_classes(repo, DM, "DensityMatrixCompiler")
    for c in acc:
        den = gatesum.OP_DENOTES.get(c.name)
        if den is None or den[0] != "cc":
            continue
        b = hooks.reach(repo, chain, c)
        if b is None or b.raises:
            continue
        corr = [x for st in b.body for x in calls_in(st) if call_attr(x) == "get_one_qubit_gate"]
        if not corr:
            # one level of helper: self.<method>(...) called in the branch
            dci = repo.cls("DensityMatrixCompiler", DM)
            for st in b.body:
                for hc in calls_in(st):
                    f = hc.func
                    if isinstance(f, ast.Attribute) and isinstance(f.value, ast.Name) and f.value.id == "self" and f.attr in dci.methods():
                        corr += [x for x in calls_in(dci.methods()[f.attr]) if call_attr(x) == "get_one_qubit_gate"]
        if not corr:
            raise AnalysisError(f"{DM}: the conditioned correction gate of the branch reached by {c.name} is not built in the branch "
                                f"(moved into a helper?): the gate-table rule cannot identify it")
        for x in corr:
            g = x.args[2] if len(x.args) > 2 else get_kw(x, "target_gate")
            if isinstance(g, ast.Call) and not g.args and (call_name(g) or "").startswith("dm."):
                mat = gatesum.dm_matrix_of(repo, g, dmm)
                if cl.close(mat, den[1]):
                    ctx.ok("sibling.gate-table", dmm, x, what=f"dm {c.name} correction literal")
                else:
                    ctx.fail("sibling.gate-table", dmm, x,
                             f"dm branch reached by {c.name} applies `{norm(g)}` as the conditioned correction; "
                             f"{c.name} denotes a different Pauli", construct=f"dm: {c.name} correction {norm(g)}",
                             func="DensityMatrixCompiler.compile_one_gate")
            elif "self.ops[" in norm(g):
                ctx.ok("sibling.gate-table", dmm, x, what=f"dm {c.name} correction from table")
            else:
                raise AnalysisError(f"{DM}: correction gate expression not recognised: {short(g)}")


# ------------------------------------------------------------------------------------------------ knock-outs

def _swap_first(a: str, b: str):
    """swap the first occurrence of ``a`` with the first occurrence of ``b`` (re-orders two branch tests)"""
    def f(src: str) -> str:
        i, j = src.find(a), src.find(b)
        if i < 0 or j < 0:
            raise LookupError("knock-out anchor text missing")
        (i, a1), (j, b1) = sorted([(i, a), (j, b)])
        return src[:i] + b1 + src[i + len(a1):j] + a1 + src[j + len(b1):]
    return f


def _edit_method_table(src: str) -> str:
    """the one-qubit branches of StabilizerCompiler.compile_one_gate become a look-up in a table of method names; PhaseDagger's entry names apply_phase"""
    a = src.index("        elif type(op) is ops.Hadamard:\n            state.apply_hadamard(")
    b = src.index("        elif type(op) is ops.CNOT:\n", a)
    out = src[:a] + ("        elif type(op) in ONE_QUBIT_GATE_METHODS:\n"
                     "            apply_gate = getattr(state, ONE_QUBIT_GATE_METHODS[type(op)])\n"
                     "            apply_gate(q_index(op.register, op.reg_type))\n\n") + src[b:]
    c = out.index("class StabilizerCompiler(")
    table = ("ONE_QUBIT_GATE_METHODS = {\n    ops.Hadamard: \"apply_hadamard\",\n    ops.Phase: \"apply_phase\",\n    ops.PhaseDagger: \"apply_phase\",\n"
             "    ops.SigmaX: \"apply_sigmax\",\n    ops.SigmaY: \"apply_sigmay\",\n    ops.SigmaZ: \"apply_sigmaz\",\n}\n\n\n")
    return out[:c] + table + out[c:]


KNOCKOUTS = [
    Knockout("dm-controlled-gate-drops-determinism", "graphiq/backends/density_matrix/state.py", sub_once("        outcome = self.apply_measurement(projectors, measurement_determinism)\n        if outcome == 1:\n            self.apply_unitary(target_gate)", "        outcome = self.apply_measurement(projectors)\n        if outcome == 1:\n            self.apply_unitary(target_gate)"), "sibling.determinism", "without it"),
    Knockout("stabilizer-z-on-raw-register-number", STAB, sub_once("            state.apply_sigmaz(q_index(op.register, op.reg_type))\n", "            state.apply_sigmaz(op.register)\n"), "sibling.qindex", "raw"),
    Knockout("method-table-phase-dagger-entry", STAB, _edit_method_table, "sibling.gate-table", "PhaseDagger"),
    Knockout("dm-forced-one-test-inverted", "graphiq/backends/density_matrix/state.py", sub_once("                if not np.isclose(probs[1], 0.0):", "                if np.isclose(probs[1], 0.0):"), "sibling.determinism-map", "possible"),
    Knockout("dm-forced-zero-tests-other-probability", "graphiq/backends/density_matrix/state.py", sub_once("                if not np.isclose(probs[0], 0.0):", "                if not np.isclose(probs[1], 0.0):"), "sibling.determinism-map", "tests probability"),
    Knockout("dm-basis-bit-lsb-first", "graphiq/backends/density_matrix/functions.py", sub_once("def projectors_zbasis(n_qubits, measure_register):", "def _both_one(n_qubits, control_qubit, target_qubit):\n    basis_states = np.arange(2**n_qubits)\n    return (basis_states >> control_qubit) & (basis_states >> target_qubit) & 1\n\n\ndef projectors_zbasis(n_qubits, measure_register):"), "index.bit-order", "_both_one"),
    Knockout("dm-forced-outcome-fallback-minus-one", "graphiq/backends/density_matrix/state.py", sub_once("                if not np.isclose(probs[0], 0.0):\n                    outcome = 0\n                else:\n                    outcome = 1\n", "                outcome = int(measurement_determinism)\n                if np.isclose(probs[outcome], 0.0):\n                    outcome = outcome - 1\n"), "sibling.determinism-map", "outcome can become"),
    Knockout("prim-cnot-x-direction", "graphiq/backends/stabilizer/functions/transformation.py", sub_once("    tableau.table = add_columns(tableau.table, ctrl_qubit, target_qubit)\n", "    tableau.table = add_columns(tableau.table, target_qubit, ctrl_qubit)\n"), "prim.formula", "cnot_gate"),
    Knockout("hook-args-swapped", "graphiq/backends/compiler_base.py", sub_nth("                self.compile_one_gate(\n                    state, op, circuit.n_quantum, q_index, classical_registers\n                )", "                self.compile_one_gate(\n                    op, state, circuit.n_quantum, q_index, classical_registers\n                )", 0), "arg.names-swapped", "swapped"),
    Knockout("forced-outcome-exact-threshold", "graphiq/backends/density_matrix/state.py", sub_once("                if not np.isclose(probs[1], 0.0):", "                if probs[1] > 0:"), "num.prob-threshold", "exact threshold", on_fixed_only=True),
    Knockout("A1-reintroduce-shadow", DM, _swap_first("elif isinstance(op, ops.MeasurementCNOTandReset):", "elif isinstance(op, ops.ClassicalControlledPairOperationBase):"),
             "dispatch.shadow", "MeasurementCNOTandReset"),
    Knockout("kron-one-qubit-offbyone", "graphiq/backends/density_matrix/functions.py",
             sub_once("    final_gate = np.kron(final_gate, np.identity(2 ** (n_qubits - qubit_position - 1)))", "    final_gate = np.kron(final_gate, np.identity(2 ** (n_qubits - qubit_position)))"),
             "kron.layout", "get_one_qubit_gate"),
    Knockout("kron-controlled-swapped", "graphiq/backends/density_matrix/functions.py",
             sub_once("            np.kron(np.eye(2**target_qubit), target_gate - np.eye(2)),\n            np.eye(2 ** (control_qubit - target_qubit - 1)),",
                      "            np.kron(np.eye(2**target_qubit), np.eye(2) - sigmaz()),\n            np.eye(2 ** (control_qubit - target_qubit - 1)),"),
             "kron.layout", "control_qubit > target_qubit"),
    Knockout("projectors-order", "graphiq/backends/density_matrix/functions.py", sub_once("    return [projector0, projector1]", "    return [projector1, projector0]"), "kron.layout", "projectors_zbasis"),
    Knockout("cache-key-incomplete", DM, sub_once("""            unitary = dm.get_one_qubit_gate(
                n_quantum,
                q_index(op.register, op.reg_type),
                self.ops[op.__class__](*params),
            )
            state.apply_unitary(unitary)""", """            key = (n_quantum, op.register, op.reg_type)
            if key not in self._memo:
                self._memo[key] = dm.get_one_qubit_gate(
                    n_quantum,
                    q_index(op.register, op.reg_type),
                    self.ops[op.__class__](*params),
                )
            state.apply_unitary(self._memo[key])"""),
             "cache.key-complete", "cache key misses"),
    Knockout("determinism-falsy-zero", gatesum.SSTATE, sub_once("            self._tableau, qubit_position, measurement_determinism\n        )\n        return outcome\n\n    def apply_x_measurement", "            self._tableau, qubit_position, measurement_determinism or \"probabilistic\"\n        )\n        return outcome\n\n    def apply_x_measurement"),
             "sibling.determinism", "measurement_determinism or"),
    Knockout("reset-to-one", gatesum.SSTATE, sub_nth("qubit_position, 0, measurement_determinism", "qubit_position, 1, measurement_determinism", 0), "reset.zero", "reset_qubit"),
    Knockout("reset-kraus", "graphiq/backends/density_matrix/functions.py", sub_once("    kraus1 = np.array([[0, 1], [0, 0]])", "    kraus1 = np.array([[0, 0], [0, 1]])"), "reset.zero", "Kraus"),
    Knockout("A2-delete-CZ-branch", STAB,
             sub_once("        elif type(op) is ops.CZ:\n            state.apply_cz(\n                control=q_index(op.control, op.control_type),\n                target=q_index(op.target, op.target_type),\n            )\n", ""),
             "dispatch.cover", "CZ"),
    Knockout("B1-qindex-type-swap", STAB,
             sub_nth("q_index(op.control, op.control_type)", "q_index(op.control, op.target_type)", 0),
             "sibling.qindex", "op.target_type"),
    Knockout("B2-role-swap", STAB,
             sub_once("            state.apply_cnot(\n                control=q_index(op.control, op.control_type),\n                target=q_index(op.target, op.target_type),",
                      "            state.apply_cnot(\n                control=q_index(op.target, op.target_type),\n                target=q_index(op.control, op.control_type),"),
             "sibling.role", "apply_cnot"),
    Knockout("B2-dm-measure-target", DM,
             sub_nth("projectors = dm.projectors_zbasis(\n                n_quantum, q_index(op.control, op.control_type)\n            )",
                     "projectors = dm.projectors_zbasis(\n                n_quantum, q_index(op.target, op.target_type)\n            )", 0),
             "sibling.role", "projectors_zbasis"),
    Knockout("B3-dm-drop-record", DM,
             sub_once("            outcome = state.apply_measurement(\n                projectors, measurement_determinism=self.measurement_determinism\n            )\n            classical_registers[op.c_register] = outcome\n",
                      "            outcome = state.apply_measurement(\n                projectors, measurement_determinism=self.measurement_determinism\n            )\n"),
             "sibling.crecord", "MeasurementZ"),
    Knockout("B4-stab-drop-reset", STAB,
             sub_once("            state.reset_qubit(\n                q_index(op.control, op.control_type),\n                measurement_determinism=self.measurement_determinism,\n            )\n", "            pass\n"),
             "sibling.reset", "MeasurementCNOTandReset"),
    Knockout("B5-dm-table-cz", DM, sub_once("ops.CZ: lambda: dm.sigmaz(),", "ops.CZ: lambda: dm.sigmax(),"),
             "sibling.gate-table", "CZ"),
    Knockout("B5-mixed-phase", gatesum.SSTATE,
             sub_once("(p_i, transform.phase_gate(t_i, qubit_position))", "(p_i, transform.phase_dagger_gate(t_i, qubit_position))"),
             "sibling.gate-table", "apply_phase"),
    Knockout("B5-stab-classical-cz-x", STAB,
             sub_once("                if outcome == 1:\n                    state.apply_sigmaz(q_index(op.target, op.target_type))",
                      "                if outcome == 1:\n                    state.apply_sigmax(q_index(op.target, op.target_type))"),
             "sibling.gate-table", "ClassicalCZ"),
    Knockout("B8-constant-determinism", STAB,
             sub_nth("measurement_determinism=self.measurement_determinism,\n                )\n                if outcome == 1:\n                    state.apply_sigmax",
                     "measurement_determinism=1,\n                )\n                if outcome == 1:\n                    state.apply_sigmax", 0),
             "sibling.determinism", "apply_measurement"),
    Knockout("B9-condition-zero", "graphiq/backends/density_matrix/state.py",
             sub_once("        if outcome == 1:\n            self.apply_unitary(target_gate)", "        if outcome == 0:\n            self.apply_unitary(target_gate)"),
             "sibling.condition", "outcome == 0"),
    Knockout("B10-determinism-map", "graphiq/backends/stabilizer/functions/clifford.py",
             sub_once("        elif measurement_determinism == 1:\n            outcome = 1\n        else:\n            outcome = 0",
                      "        elif measurement_determinism == 1:\n            outcome = 0\n        else:\n            outcome = 1"),
             "sibling.determinism-map", "z_measurement_gate"),
    Knockout("index-map-emitters-first", BASE, sub_once("                return reg + n_photon", "                return reg"),
             "index.map", "'e'"),
    Knockout("F4-reversed", BASE, sub_once("        for op in seq:", "        for op in reversed(seq):"), "order.compile", "reversed"),
    Knockout("F4-reduce-order", "graphiq/circuit/circuit_dag.py",
             sub_once("lambda x, y: x + y.unwrap()", "lambda x, y: y.unwrap() + x"), "order.compile", "unwrap"),
    Knockout("derived-x-gate", gatesum.TRANSFORM,
             sub_once("    tableau = hadamard_gate(tableau, qubit_position)\n    tableau = z_gate(tableau, qubit_position)\n    tableau = hadamard_gate(tableau, qubit_position)\n",
                      "    tableau = hadamard_gate(tableau, qubit_position)\n    tableau = z_gate(tableau, qubit_position)\n"),
             "effect.derived-gate", "x_gate"),
    Knockout("init-zero-dm", "graphiq/backends/density_matrix/state.py",
             sub_once("dmf.create_n_product_state(data, dmf.state_ketz0())", "dmf.create_n_product_state(data, dmf.state_ketx0())"),
             "init.zero", "DensityMatrix"),
]
