"""C12 — the circuit DAG stays structurally consistent under any edit history (DESIGN §5.12)."""
from __future__ import annotations

import ast
from typing import Dict, List, Optional, Set, Tuple

from ..core import (AnalysisError, Repo, call_attr, call_name, calls_in, dotted, enclosing_class, enclosing_def, func_params,
                    get_kw, norm, parent, qualname, short)
from ..driver import Knockout, sub_nth, sub_once
from ..report import Ctx
from .c01 import rule_order_compile

DAG = "graphiq/circuit/circuit_dag.py"
BASE = "graphiq/circuit/circuit_base.py"
REG = "graphiq/circuit/register.py"

EXPLANATION = (
    "Static rules over circuit_dag.py / circuit_base.py / register.py and every caller in the package: a raw networkx "
    "mutator on a circuit's `.dag` (add_node, add_edge, remove_node, remove_edge(s_from), *_from, clear, a store into "
    "dag.nodes[..][..]) sits in a function that performs the matching index update (_edge_dict_append/_remove, "
    "_node_dict_append/_remove) in the same body — a pairing rule over the whole package; annotation of an existing "
    "edge is classified non-structural (own.dag); _add_node, _remove_node and both halves of replace_op maintain the "
    "same three node_dict key kinds: labels, type name, register-type description (sibling.nodekeys); register sizes are "
    "written only by Register, CircuitBase's register setters and CircuitDAG._add_reg_if_absent (own.registers); _add and "
    "_insert_at re-create both halves of a split edge with the removed edge's key, reg and reg_type and remove exactly "
    "that edge, _remove_node re-joins in/out edges of equal key and removes all of them (edge.keys); sequence() is a "
    "topological order handed unchanged to the compile loop (order.compile). Does not decide wire-is-a-single-path after "
    "arbitrary histories, sufficiency of find_incompatible_edges, or the depth recursion.")

ADDERS = {"add_node": "_node_dict_append", "add_nodes_from": "_node_dict_append", "add_edge": "_edge_dict_append",
          "add_edges_from": "_edge_dict_append"}
REMOVERS = {"remove_node": "_node_dict_remove", "remove_nodes_from": "_node_dict_remove", "remove_edge": "_edge_dict_remove",
            "remove_edges_from": "_edge_dict_remove"}
OTHER = {"clear", "clear_edges", "update", "add_weighted_edges_from"}


def _is_dag_expr(e: ast.AST) -> bool:
    return isinstance(e, ast.Attribute) and e.attr == "dag"


def rule_index_keys_stay(ctx: Ctx) -> None:
    """index.key-stays: several readers subscript the label index directly (`node_dict["one-qubit"]`, `node_dict["Input"]`, ...), some of
    them inside loops that remove nodes: they rely on a key, once created, staying in the dictionary with a possibly empty list.  So no
    function may delete keys from node_dict (del / pop / popitem / clear / re-binding to a filtered dict outside __init__) — unless every
    subscript read is guarded by `key in node_dict` in a position where no removal can intervene."""
    repo = ctx.repo
    m = repo.module(DAG)
    writers = []
    for mm in repo.modules.values():
        for fn in mm.functions():
            for x in ast.walk(fn):
                if isinstance(x, ast.Delete):
                    for t in x.targets:
                        if isinstance(t, ast.Subscript) and norm(t.value).endswith("node_dict"):
                            writers.append((mm, fn, x))
                elif isinstance(x, ast.Call) and call_attr(x) in ("pop", "popitem", "clear") and isinstance(x.func, ast.Attribute) and norm(x.func.value).endswith("node_dict"):
                    writers.append((mm, fn, x))
                elif isinstance(x, ast.Assign) and any(norm(t).endswith(".node_dict") for t in x.targets) and fn.name not in ("__init__", "copy", "_copy", "__deepcopy__") \
                        and isinstance(x.value, (ast.DictComp, ast.Call)) and not (isinstance(x.value, ast.Call) and call_name(x.value) in ("copy.deepcopy", "deepcopy", "dict")):
                    if isinstance(x.value, ast.DictComp) and x.value.generators and x.value.generators[0].ifs:
                        writers.append((mm, fn, x))
    readers = []
    REMOVALS = {"remove_op", "_remove_node", "_node_dict_remove", "remove_identity", "unwrap_nodes"}
    for mm in repo.modules.values():
        if not mm.rel.startswith(("graphiq/circuit/", "graphiq/utils/circuit_comparison", "graphiq/solvers/", "graphiq/metrics")):
            continue
        for fn in mm.functions():
            if fn.name in ("_node_dict_append", "_node_dict_remove"):
                continue
            for x in ast.walk(fn):
                if isinstance(x, ast.Subscript) and isinstance(x.ctx, ast.Load) and norm(x.value).endswith(".node_dict") and isinstance(x.slice, ast.Constant):
                    key = x.slice.value
                    guarded = False
                    q = x
                    in_removing_loop = False
                    while parent(q) is not None and q is not fn:
                        pq = parent(q)
                        if isinstance(pq, (ast.For, ast.While)) and any(call_attr(c) in REMOVALS for c in calls_in(pq)):
                            in_removing_loop = True
                        if isinstance(pq, ast.If) and any(q is b for b in pq.body):
                            t = pq.test
                            if isinstance(t, ast.Compare) and len(t.ops) == 1 and isinstance(t.ops[0], ast.In) and isinstance(t.left, ast.Constant) \
                                    and t.left.value == key and norm(t.comparators[0]).endswith("node_dict") and not in_removing_loop:
                                guarded = True
                        q = pq
                    if not guarded:
                        readers.append((mm, fn, x))
    if not readers:
        raise AnalysisError("index.key-stays: no direct subscript read of node_dict found (the readers this rule protects)")
    ctx.touch(m)
    if writers:
        mm, fn, w = writers[0]
        rm, rf, rx = readers[0]
        # prefer a reader inside a removing loop as the example
        for cand in readers:
            if any(isinstance(a, (ast.For, ast.While)) for a in ancestors_list(cand[2], cand[1])):
                rm, rf, rx = cand
                break
        ctx.fail("index.key-stays", mm, w,
                 f"{qualname(fn)} deletes keys from node_dict (`{short(w, 60)}`), but {len(readers)} readers subscript the index without a guard, e.g. "
                 f"`{short(rx)}` in {qualname(rf)} ({rm.rel}:{rx.lineno}): once the last node of a label is gone the read raises KeyError in the middle of "
                 f"the edit and leaves the circuit half rewritten", func=qualname(fn), construct=f"{qualname(fn)}: deletes node_dict keys")
    else:
        ctx.ok("index.key-stays", m, m.tree, what=f"no function deletes node_dict keys; {len(readers)} unguarded subscript readers rely on that")


def ancestors_list(x, fn):
    out, q = [], x
    while parent(q) is not None and q is not fn:
        q = parent(q)
        out.append(q)
    return out


def rule_own_dag(ctx: Ctx) -> None:
    repo = ctx.repo
    n = 0
    for m in repo.modules.values():
        for fn in m.functions():
            body_calls = calls_in(fn, nested=False)
            helpers = {call_attr(c) for c in body_calls if (call_name(c) or "").startswith("self.")}
            from ..core import unroll_literal_loops as _unroll
            helpers |= {call_attr(c) for c in calls_in(_unroll(fn)) if (call_name(c) or "").startswith("self.")}
            if m.rel == DAG:
                from ..rules import nodeindex as _ni
                _reach = _ni.index_helpers(repo)
                for h_ in list(helpers):
                    helpers |= _reach.get(h_, set())
            for c in body_calls:
                a = call_attr(c)
                if not (isinstance(c.func, ast.Attribute) and _is_dag_expr(c.func.value)):
                    continue
                need = ADDERS.get(a) or REMOVERS.get(a)
                if need is None and a not in OTHER:
                    continue
                n += 1
                ctx.touch(m, fn)
                inside = m.rel == DAG and enclosing_class(fn) is not None and enclosing_class(fn).name == "CircuitDAG"
                if need is not None and inside and need in helpers:
                    # the index update runs under exactly the conditions of the graph mutation (loops apart): an update guarded by a
                    # test the mutation is not guarded by leaves edges / nodes in the graph that the index never lists
                    def _ifs(x):
                        out, q = set(), x
                        while parent(q) is not None and q is not fn:
                            pq = parent(q)
                            if isinstance(pq, ast.If):
                                out.add((id(pq), "body" if any(q is b for b in pq.body) else "orelse" if any(q is b for b in pq.orelse) else "test"))
                            q = pq
                        return out
                    direct = [x for x in body_calls if call_attr(x) == need and (call_name(x) or "").startswith("self.")]
                    cond_c = _ifs(c)
                    guarded = [x for x in direct if _ifs(x) - cond_c]
                    if direct and len(guarded) == len(direct):
                        g = guarded[0]
                        extra = [pq for pq in ancestors_list(g, fn) if isinstance(pq, ast.If) and not any(pq is y for y in ancestors_list(c, fn))]
                        ctx.fail("own.dag", m, g,
                                 f"`{short(c, 60)}` changes the circuit graph unconditionally, but the matching index update `{short(g, 60)}` only runs under "
                                 f"`{short(extra[0].test) if extra else '?'}`: on the other path the graph holds an entry that {need.replace('_append', '').replace('_remove', '').strip('_')} never lists "
                                 f"(a second wire between the same two operations has the same end points as the first)",
                                 func=qualname(fn), construct=f"{qualname(fn)}: {need} conditional, {a} not")
                    else:
                        ctx.ok("own.dag", m, c, what=f"{a} paired with {need}")
                else:
                    ctx.fail("own.dag", m, c,
                             f"`{short(c, 90)}` changes the circuit graph " + (f"without the matching index update `{need}` in the same "
                             f"function" if inside else "from outside CircuitDAG's maintained helpers") +
                             ": node_dict / edge_dict, which the solvers query for insertion points, no longer agree with the graph",
                             func=qualname(fn), construct=f"{qualname(fn)}: raw {a} on .dag")
            for st in ast.walk(fn):
                if isinstance(st, (ast.Assign, ast.AugAssign)):
                    tg = st.targets if isinstance(st, ast.Assign) else [st.target]
                    for t in tg:
                        if isinstance(t, ast.Subscript):
                            chain = t
                            depth = 0
                            while isinstance(chain, ast.Subscript):
                                chain = chain.value
                                depth += 1
                            # circuit.dag.nodes[n]["op"] = ...   (structural: replaces the operation)
                            if isinstance(chain, ast.Attribute) and chain.attr in ("nodes", "_node") and _is_dag_expr(chain.value):
                                n += 1
                                if m.rel == DAG and {"_node_dict_remove", "_node_dict_append"} <= helpers:
                                    ctx.ok("own.dag", m, st, what="operation replaced with node_dict remove+append")
                                else:
                                    ctx.fail("own.dag", m, st, f"`{short(st, 90)}` replaces a node's operation without updating node_dict "
                                                               f"(remove old labels, append new ones)", func=qualname(fn),
                                             construct=f"{qualname(fn)}: store into dag.nodes[..][..]")
                            # circuit.dag[u][v][k]["attr"] = ... : annotation of an existing edge, not a structural edit
                            elif _is_dag_expr(chain) and depth == 4:
                                n += 1
                                ctx.ok("own.dag", m, st, what="edge-attribute annotation (non-structural)")
                            elif _is_dag_expr(chain):
                                n += 1
                                ctx.fail("own.dag", m, st, f"`{short(st, 90)}` writes into the graph's adjacency structure directly",
                                         func=qualname(fn), construct=f"{qualname(fn)}: raw store into .dag[...]")
    if n == 0:
        raise AnalysisError("own.dag: no graph mutation found")


def _key_kind(e: ast.AST, fn: ast.FunctionDef) -> str:
    t = norm(e)
    if t.startswith("type(") and t.endswith(").__name__"):
        return "type"
    if t.endswith(".parse_q_reg_types()"):
        return "regtypes"
    if isinstance(e, ast.Name):
        for l in ast.walk(fn):
            if isinstance(l, ast.For) and norm(l.target) == e.id and norm(l.iter).endswith(".labels"):
                return "labels"
    if isinstance(e, ast.Constant):
        return f"const:{e.value}"
    return f"other:{t}"


def rule_nodekeys(ctx: Ctx) -> None:
    from ..rules import nodeindex
    nodeindex.rule_nodekeys(ctx)


REG_WRITERS = {(REG, "Register"), (BASE, "CircuitBase"), (DAG, "CircuitDAG._add_reg_if_absent")}


def rule_own_registers(ctx: Ctx) -> None:
    repo = ctx.repo
    n = 0
    for m in repo.modules.values():
        for node in ast.walk(m.tree):
            hit = None
            if isinstance(node, ast.Call) and isinstance(node.func, ast.Attribute) and node.func.attr in ("append", "pop", "extend", "insert", "remove", "clear"):
                recv = node.func.value
                if isinstance(recv, ast.Subscript) and isinstance(recv.value, ast.Attribute) and recv.value.attr in ("_registers", "_register_depth") \
                        and recv.value.attr == "_registers":
                    hit = node
            if isinstance(node, (ast.Assign, ast.AugAssign)):
                for t in (node.targets if isinstance(node, ast.Assign) else [node.target]):
                    base = t
                    while isinstance(base, ast.Subscript):
                        base = base.value
                    if isinstance(base, ast.Attribute) and base.attr == "_registers":
                        hit = node
            if hit is None:
                continue
            n += 1
            fn = enclosing_def(hit)
            q = qualname(fn) if fn is not None else "<module>"
            allowed = any(m.rel == r and (q == p or q.startswith(p + ".")) for r, p in REG_WRITERS)
            if allowed:
                ctx.ok("own.registers", m, hit)
            else:
                ctx.fail("own.registers", m, hit,
                         f"`{short(hit)}` changes register sizes outside the register-adding API (Register, CircuitBase setters, "
                         f"CircuitDAG._add_reg_if_absent): the register counts stop matching the DAG's input/output nodes",
                         func=q, construct=f"{q}: writes _registers")
    if n == 0:
        raise AnalysisError("own.registers: no register write found")


def rule_register_depth_paired(ctx: Ctx) -> None:
    """own.registers (paired growth): CircuitDAG keeps one depth entry per register; a method of the class that makes the register list of a
    type grow (`self._registers[t].append(..)` or `self._registers.add_register(..)`) also appends to `self._register_depth[t]` — otherwise
    the depth queries silently omit the new register."""
    repo = ctx.repo
    m = repo.module(DAG)
    ci = repo.cls("CircuitDAG", DAG)
    n = 0
    for name, fn in ci.methods().items():
        grows = [c for c in calls_in(fn) if isinstance(c.func, ast.Attribute) and (
            (c.func.attr == "append" and isinstance(c.func.value, ast.Subscript) and norm(c.func.value.value) == "self._registers")
            or (c.func.attr in ("add_register", "add_quantum_register", "add_classical_register") and norm(c.func.value) == "self._registers"))]
        if not grows:
            continue
        n += 1
        ctx.touch(m, fn)
        depth = [c for c in calls_in(fn) if isinstance(c.func, ast.Attribute) and c.func.attr == "append" and isinstance(c.func.value, ast.Subscript)
                 and norm(c.func.value.value) == "self._register_depth"]
        if depth:
            ctx.ok("own.registers", m, grows[0], what=f"CircuitDAG.{name}: register list and depth table grow together")
        else:
            ctx.fail("own.registers", m, grows[0],
                     f"CircuitDAG.{name} makes the register list grow (`{short(grows[0])}`) without appending to self._register_depth: the depth table "
                     f"stays one entry short, so register_depth / calculate_reg_depth / min_reg_depth_index omit a register the circuit has",
                     func=f"CircuitDAG.{name}", construct=f"CircuitDAG.{name}: registers grow without their depth entry")
    if n == 0:
        raise AnalysisError("own.registers: no register-growing method found in CircuitDAG")


def rule_edge_keys(ctx: Ctx) -> None:
    repo = ctx.repo
    m = repo.module(DAG)
    for q in ("CircuitDAG._add", "CircuitDAG._insert_at"):
        fn = repo.anchor(DAG, q)
        ctx.touch(m, fn)
        adds = [c for c in calls_in(fn) if call_name(c) == "self._add_edge"]
        rems = [c for c in calls_in(fn) if call_name(c) == "self._remove_edge"]
        if len(adds) != 2 or len(rems) != 1:
            ctx.fail("edge.keys", m, fn, f"{q} must split one edge into exactly two (_add_edge x2) and remove exactly that edge "
                                         f"(found {len(adds)} adds, {len(rems)} removes)", func=q, construct=f"{q}: split shape")
            continue
        e = norm(rems[0].args[0])
        env = {norm(n.targets[0]): norm(n.value) for n in ast.walk(fn) if isinstance(n, ast.Assign) and len(n.targets) == 1}
        def res(x):
            t = norm(x)
            return env.get(t, t)
        a1, a2 = adds
        new_id = norm(a1.args[1])
        ok = (norm(a1.args[0]) == f"{e}[0]" and norm(a2.args[0]) == new_id and norm(a2.args[1]) == f"{e}[1]"
              and res(a1.args[2]) == f"{e}[2]" and res(a2.args[2]) == f"{e}[2]")
        for a in adds:
            for kw in ("reg", "reg_type"):
                v = get_kw(a, kw)
                ok = ok and v is not None and res(v) == f"self.dag.edges[{e}]['{kw}']"
        if ok:
            ctx.ok("edge.keys", m, rems[0], what=f"{q}: (u,new,k) + (new,v,k) replace (u,v,k) with its reg / reg_type")
        else:
            ctx.fail("edge.keys", m, fn,
                     f"{q} does not re-create both halves of the split edge `{e}` with its own key, reg and reg_type "
                     f"(expected _add_edge({e}[0], new, {e}[2], ...), _add_edge(new, {e}[1], {e}[2], ...), _remove_edge({e}))",
                     func=q, construct=f"{q}: split-edge attribute propagation")
    fn = repo.anchor(DAG, "CircuitDAG._remove_node")
    ctx.touch(m, fn)
    adds = [c for c in calls_in(fn) if call_name(c) == "self._add_edge"]
    rems = [norm(c.args[0]) for c in calls_in(fn) if call_name(c) == "self._remove_edge"]
    # names of the in-edge / out-edge loop variables are read off the re-join call: _add_edge(<in>[0], <out>[1], ...)
    ie = oe = None
    if len(adds) == 1 and len(adds[0].args) >= 2:
        a0, a1 = adds[0].args[0], adds[0].args[1]
        if isinstance(a0, ast.Subscript) and isinstance(a0.value, ast.Name) and norm(a0.slice) == "0" \
                and isinstance(a1, ast.Subscript) and isinstance(a1.value, ast.Name) and norm(a1.slice) == "1":
            ie, oe = a0.value.id, a1.value.id
    guard = ie is not None and any(isinstance(n, ast.If) and norm(n.test) in (f"{ie}[2] == {oe}[2]", f"{oe}[2] == {ie}[2]")
                                   and any(x is adds[0] for x in ast.walk(n)) for n in ast.walk(fn))
    # both names are loop variables over the node's in / out edges
    loops_ok = ie is not None and all(any(isinstance(l, ast.For) and norm(l.target) == v for l in ast.walk(fn)) for v in (ie, oe))
    good = len(adds) == 1 and guard and loops_ok and ie != oe and sorted(rems) == sorted([ie, oe])
    if good:
        # the re-joined edge inherits key, reg and reg_type from the edges it replaces (attribute propagation, as in _add)
        env = {norm(n.targets[0]): norm(n.value) for n in ast.walk(fn) if isinstance(n, ast.Assign) and len(n.targets) == 1}
        a = adds[0]
        key = env.get(norm(a.args[2]), norm(a.args[2])) if len(a.args) > 2 else ""
        good = key in (f"{ie}[2]", f"{oe}[2]")
        for kw in ("reg", "reg_type"):
            v = get_kw(a, kw)
            r = env.get(norm(v), norm(v)) if v is not None else ""
            good = good and r in (f"self.dag.edges[{ie}]['{kw}']", f"self.dag.edges[{oe}]['{kw}']")
    if good:
        ctx.ok("edge.keys", m, adds[0], what="_remove_node re-joins in/out edges of equal key and removes all of them")
    else:
        ctx.fail("edge.keys", m, fn, "_remove_node must re-join (in_edge[0], out_edge[1]) for in/out edges with the same key and remove every "
                                     "in and out edge of the node", func="CircuitDAG._remove_node", construct="_remove_node: re-join shape")
    # _add_edge / _remove_edge themselves index under the edge's reg_type
    fn = repo.anchor(DAG, "CircuitDAG._add_edge")
    p = func_params(fn)
    c = [c for c in calls_in(fn) if call_name(c) == "self._edge_dict_append"]
    if c and norm(c[0].args[0]) == "reg_type" and norm(c[0].args[1]) == f"({p[1]}, {p[2]}, {p[3]})":
        ctx.ok("edge.keys", m, c[0], what="edge_dict entry = (u, v, key) under reg_type")
    else:
        ctx.fail("edge.keys", m, fn, "_add_edge does not index the new edge as (in_node, out_node, label) under its reg_type",
                 func="CircuitDAG._add_edge", construct="_add_edge: edge_dict entry")
    # _remove_edge(edge): the graph is a multigraph (two operations can be joined by one wire per shared register), so the removal has to
    # name the edge with its key — `remove_edge(u, v)` without the key deletes whichever parallel edge was added last
    fn = repo.anchor(DAG, "CircuitDAG._remove_edge")
    ctx.touch(m, fn)
    E = func_params(fn)[1]
    comps = {}
    for a_ in ast.walk(fn):
        if isinstance(a_, ast.Assign) and isinstance(a_.targets[0], ast.Tuple) and norm(a_.value) == E:
            comps = {norm(t): i for i, t in enumerate(a_.targets[0].elts)}
    rem = [c for c in calls_in(fn) if call_attr(c) in ("remove_edge", "remove_edges_from") and norm(c.func.value) == "self.dag"]
    if len(rem) != 1:
        raise AnalysisError("_remove_edge: the removal from the graph was not found")
    r_ = rem[0]
    if call_attr(r_) == "remove_edges_from":
        okr = len(r_.args) == 1 and isinstance(r_.args[0], (ast.List, ast.Tuple)) and len(r_.args[0].elts) == 1 and \
            (norm(r_.args[0].elts[0]) == E or (isinstance(r_.args[0].elts[0], ast.Tuple) and [comps.get(norm(x)) for x in r_.args[0].elts[0].elts] == [0, 1, 2]))
    else:
        args = list(r_.args) + [k.value for k in r_.keywords if k.arg == "key"]
        if len(args) == 1 and isinstance(args[0], ast.Starred):
            okr = norm(args[0].value) == E
        else:
            idx = [comps.get(norm(x), int(norm(x.slice)) if isinstance(x, ast.Subscript) and norm(x.value) == E and norm(x.slice).isdigit() else None) for x in args]
            okr = idx == [0, 1, 2]
    if okr:
        ctx.ok("edge.keys", m, r_, what="_remove_edge removes exactly the keyed edge")
    else:
        ctx.fail("edge.keys", m, r_, f"_remove_edge removes `{short(r_)}`: the graph is a multigraph and the edge must be named with its key (u, v, key); without "
                                     f"the key networkx deletes the last-added parallel edge, which may be the other register's wire, while edge_dict loses `{E}`",
                 func="CircuitDAG._remove_edge", construct="_remove_edge: graph removal without the key")


def rule_reach_whole_dag(ctx: Ctx) -> None:
    """reach.whole-dag: find_incompatible_edges decides which edge pairs may receive a two-qubit operation without closing a cycle;
    the ancestor / descendant sets it uses must be those of the whole DAG (`self.dag`): a view that drops some edges (the classical
    wires, say) misses orderings that run through them, and the pair it then reports compatible closes a cycle."""
    repo = ctx.repo
    m = repo.module(DAG)
    fn = repo.anchor(DAG, "CircuitDAG.find_incompatible_edges")
    ctx.touch(m, fn)
    cs = [c for c in calls_in(fn) if call_name(c) in ("nx.ancestors", "nx.descendants")]
    kinds = {call_name(c) for c in cs}
    if kinds != {"nx.ancestors", "nx.descendants"}:
        # a hand-written traversal: it must follow every edge; one that tests an edge attribute before following an edge walks a sub-graph
        cls_ = repo.cls("CircuitDAG", DAG)
        helpers_ = [cls_.methods()[call_attr(c)] for c in calls_in(fn) if (call_name(c) or "").startswith("self.") and call_attr(c) in cls_.methods()]
        for h in helpers_ + [fn]:
            for i_ in [x for x in ast.walk(h) if isinstance(x, ast.If)]:
                t = norm(i_.test)
                walks = any(isinstance(y, ast.Call) and call_attr(y) in ("append", "add", "extend", "update") for y in ast.walk(i_))
                if walks and ("reg_type" in t or "'c'" in t or "\"c\"" in t or "[2]" in t):
                    ctx.fail("reach.whole-dag", m, i_,
                             f"find_incompatible_edges collects ancestors / descendants with a traversal that follows an edge only under `{short(i_.test)}`: "
                             f"orderings that run through the edges left out (a classical register shared by two measurements) are missed, and a two-qubit "
                             f"operation inserted on a pair reported compatible closes a cycle", func="CircuitDAG.find_incompatible_edges",
                             construct="find_incompatible_edges: traversal restricted to a subset of edges")
                    return
        raise AnalysisError("find_incompatible_edges: reachability is not computed with nx.ancestors / nx.descendants and the replacement could not be "
                            "classified (undecided)")
    for c in cs:
        g = norm(c.args[0]) if c.args else "?"
        if g == "self.dag":
            ctx.ok("reach.whole-dag", m, c, what=f"{call_name(c)} over the whole DAG")
        else:
            ctx.fail("reach.whole-dag", m, c,
                     f"find_incompatible_edges computes `{short(c)}` on `{g}` instead of the whole DAG `self.dag`: two operations ordered only through "
                     f"an edge that `{g}` leaves out (a shared classical register) are treated as unordered, so a two-qubit operation inserted on a "
                     f"pair reported compatible closes a cycle", func="CircuitDAG.find_incompatible_edges",
                     construct="find_incompatible_edges: reachability on a partial graph")


def rule_validate_shape(ctx: Ctx) -> None:
    """validate.shape: CircuitDAG.validate is the guard every solver move is followed by.  It (a) asserts that the graph is acyclic,
    (b) raises when a node without incoming edges is not an Input operation, (c) raises when a node without outgoing edges is not an
    Output operation.  The polarity of (b) and (c) is decided on the truth table of the loop body; the node selections on their
    filters (degree == 0 over in_degree() / out_degree())."""
    from ..boolform import Table
    repo = ctx.repo
    m = repo.module(DAG)
    fn = repo.anchor(DAG, "CircuitDAG.validate")
    ctx.touch(m, fn)
    acyc = [a for a in fn.body if isinstance(a, ast.Assert) and isinstance(a.test, ast.Call) and call_name(a.test) == "nx.is_directed_acyclic_graph"
            and a.test.args and norm(a.test.args[0]) == "self.dag"]
    rais = [i for i in fn.body if isinstance(i, ast.If) and any(isinstance(x, ast.Raise) for x in i.body) and any(
        isinstance(c, ast.Call) and call_name(c) == "nx.is_directed_acyclic_graph" for c in ast.walk(i.test))]
    if acyc or (rais and isinstance(rais[0].test, ast.UnaryOp)):
        ctx.ok("validate.shape", m, (acyc or rais)[0], what="acyclicity of self.dag asserted")
    else:
        ctx.fail("validate.shape", m, fn, "validate() no longer asserts nx.is_directed_acyclic_graph(self.dag)", func="CircuitDAG.validate",
                 construct="validate: acyclicity check")
    for deg, cls_ in (("in_degree", "Input"), ("out_degree", "Output")):
        sel = [a for a in fn.body if isinstance(a, ast.Assign) and isinstance(a.value, ast.ListComp) and any(
            isinstance(c, ast.Call) and call_attr(c) == deg for c in ast.walk(a.value.generators[0].iter))]
        if len(sel) != 1:
            raise AnalysisError(f"validate: selection of the nodes with {deg} == 0 not found")
        g = sel[0].value.generators[0]
        tg = [norm(e) for e in g.target.elts] if isinstance(g.target, ast.Tuple) else []
        okf = len(g.ifs) == 1 and isinstance(g.ifs[0], ast.Compare) and len(g.ifs[0].ops) == 1 and isinstance(g.ifs[0].ops[0], ast.Eq) and len(tg) == 2 \
            and {norm(g.ifs[0].left), norm(g.ifs[0].comparators[0])} == {tg[1], "0"} and norm(sel[0].value.elt) == tg[0]
        if not okf:
            ctx.fail("validate.shape", m, sel[0], f"validate selects `{short(sel[0].value, 80)}`; it must be the nodes whose {deg} is 0", func="CircuitDAG.validate",
                     construct=f"validate: {deg} selection")
            continue
        lv = norm(sel[0].targets[0])
        loop = next((l for l in fn.body if isinstance(l, ast.For) and norm(l.iter) == lv), None)
        if loop is None:
            raise AnalysisError(f"validate: loop over `{lv}` not found")
        tb = Table()
        run = tb.outcomes(loop.body)
        inst = [k for k in tb.atoms if k.startswith("isinstance(") and k.rstrip(")").endswith(cls_)]
        if len(inst) != 1 or len(tb.atoms) != 1:
            raise AnalysisError(f"validate: the test on the {cls_} class was not found in the loop over `{lv}`")
        k = inst[0]
        good = run({k: True}) != ("raise", None) and run({k: False}) == ("raise", None)
        if good:
            ctx.ok("validate.shape", m, loop, what=f"raises exactly when a node with {deg} 0 is not {cls_}")
        else:
            ctx.fail("validate.shape", m, loop, f"validate does not raise exactly when a node with {deg} == 0 is not an {cls_} operation (polarity / class)",
                     func="CircuitDAG.validate", construct=f"validate: {cls_} test polarity")


def rule_wire_label_values(ctx: Ctx) -> None:
    """wire.label-values: the boundary nodes of a wire are named `<type><register>_in/_out`, where <register> is the register's *number*.
    A label whose register placeholder is a variable ranging over `range(len(<op>.*_registers))` names the wire by the position of the
    register in the operation's register list instead (c_registers == [1] would address wire c0); the position has to be used to
    subscript that list.  Likewise a register taken from one list position and its type from another."""
    repo = ctx.repo
    m = repo.module(DAG)
    n = 0
    for fn in m.functions():
        for js in [x for x in ast.walk(fn) if isinstance(x, ast.JoinedStr)]:
            tail = js.values[-1] if js.values else None
            if not (isinstance(tail, ast.Constant) and isinstance(tail.value, str) and tail.value in ("_in", "_out")):
                continue
            fvs = [v for v in js.values if isinstance(v, ast.FormattedValue)]
            if not fvs:
                continue
            n += 1
            ctx.touch(m, fn)
            reg = fvs[-1].value
            bad = None
            if isinstance(reg, ast.Name):
                # where does the name range?
                cur = parent(js)
                rng = None
                while cur is not None and not isinstance(cur, ast.FunctionDef):
                    gens = cur.generators if isinstance(cur, (ast.ListComp, ast.SetComp, ast.GeneratorExp, ast.DictComp)) else []
                    for g in gens:
                        if isinstance(g.target, ast.Name) and g.target.id == reg.id:
                            rng = g.iter
                    if isinstance(cur, ast.For) and isinstance(cur.target, ast.Name) and cur.target.id == reg.id:
                        rng = cur.iter
                    if rng is not None:
                        break
                    cur = parent(cur)
                if rng is not None and isinstance(rng, ast.Call) and call_name(rng) == "range" and len(rng.args) == 1 \
                        and isinstance(rng.args[0], ast.Call) and call_name(rng.args[0]) == "len" and rng.args[0].args \
                        and isinstance(rng.args[0].args[0], ast.Attribute) and rng.args[0].args[0].attr.endswith("registers"):
                    lst = norm(rng.args[0].args[0])
                    bad = (f"`{short(js)}` names the wire by `{reg.id}`, a position in `{lst}` (it ranges over `{short(rng)}`), not by the register "
                           f"stored there: an operation on classical/quantum register k != position is spliced into the wrong wire ({lst}[{reg.id}] is the register)")
            if bad is None and len(fvs) == 2 and isinstance(fvs[0].value, ast.Subscript) and isinstance(reg, ast.Subscript) \
                    and norm(fvs[0].value.value).endswith("registers_type") and norm(reg.value).endswith("registers") \
                    and norm(fvs[0].value.slice) != norm(reg.slice):
                bad = f"`{short(js)}` takes the register type from position `{norm(fvs[0].value.slice)}` and the register from position `{norm(reg.slice)}`"
            if bad:
                ctx.fail("wire.label-values", m, js, bad, func=qualname(fn), construct=f"{qualname(fn)}: label {short(js, 50)}")
            else:
                ctx.ok("wire.label-values", m, js)
    if n < 8:
        raise AnalysisError(f"wire.label-values: only {n} wire labels found in circuit_dag.py (8 confirmed by hand)")


def rule_reg_create(ctx: Ctx) -> None:
    """reg.create: _add_reg_if_absent(register, reg_type) — evaluated at register = n - 1, n, n + 1 (n = number of registers of that type):
    an existing register changes nothing in the register lists, the next one (== n) extends the register list and the depth list by one
    entry each (depth 0), a gap (> n) raises.  The wire is created exactly when the `<type><reg>_in` node is absent: Input and Output
    nodes with matching operations and index entries, and one edge in -> out keyed `<type><reg>` carrying reg and reg_type."""
    from .. import linear
    repo = ctx.repo
    m = repo.module(DAG)
    fn = repo.anchor(DAG, "CircuitDAG._add_reg_if_absent")
    ctx.touch(m, fn)
    R, T = func_params(fn)[1:3]
    bad = []
    sizes = [i for i in fn.body if isinstance(i, ast.If) and "len(" in norm(i.test)]
    if len(sizes) != 1:
        raise AnalysisError("_add_reg_if_absent: the size test was not found")

    def outcome(off):
        """what happens for register = n + off: 'extend' | 'raise' | 'nothing'"""
        cur = sizes[0]
        while True:
            t = cur.test
            if not (isinstance(t, ast.Compare) and len(t.ops) == 1):
                raise AnalysisError(f"_add_reg_if_absent: test `{short(t)}` not recognised")
            l_, r_ = t.left, t.comparators[0]
            flip = False
            if norm(r_) == R and norm(l_) != R:
                l_, r_, flip = r_, l_, True
            if norm(l_) != R or not (isinstance(r_, ast.Call) and call_name(r_) == "len"):
                raise AnalysisError(f"_add_reg_if_absent: test `{short(t)}` not recognised")
            op = type(t.ops[0])
            if flip:
                op = {ast.Lt: ast.Gt, ast.Gt: ast.Lt, ast.LtE: ast.GtE, ast.GtE: ast.LtE}.get(op, op)
            val = {ast.Eq: off == 0, ast.NotEq: off != 0, ast.Gt: off > 0, ast.GtE: off >= 0, ast.Lt: off < 0, ast.LtE: off <= 0}[op]
            arm = cur.body if val else cur.orelse
            if val or not (len(cur.orelse) == 1 and isinstance(cur.orelse[0], ast.If)):
                if any(isinstance(x, ast.Raise) for st in arm for x in ast.walk(st)):
                    return "raise", arm
                apps = [c for st in arm for c in ast.walk(st) if isinstance(c, ast.Call) and call_attr(c) == "append"]
                return ("extend" if apps else "nothing"), arm
            cur = cur.orelse[0]
    for off, want in ((-1, "nothing"), (0, "extend"), (1, "raise")):
        got, arm = outcome(off)
        if got != want:
            bad.append(f"for register = n{off:+d}" .replace("+0", "") + f" the register lists get `{got}`, expected `{want}`")
        elif got == "extend":
            apps = [c for st in arm for c in ast.walk(st) if isinstance(c, ast.Call) and call_attr(c) == "append"]
            tgt = sorted(norm(c.func.value) for c in apps)
            if tgt != sorted([f"self._register_depth[{T}]", f"self._registers[{T}]"]):
                bad.append(f"a new register must extend self._registers[{T}] and self._register_depth[{T}] by one entry each (got {tgt})")
            for c in apps:
                if "depth" in norm(c.func.value) and not (isinstance(c.args[0], ast.Constant) and c.args[0].value == 0):
                    bad.append("the depth of a new register starts at 0")
    wire = [i for i in fn.body if isinstance(i, ast.If) and "_in" in norm(i.test)]
    if len(wire) != 1:
        raise AnalysisError("_add_reg_if_absent: the test for an existing wire was not found")
    from ..chains import positive as _pos
    t, neg = _pos(wire[0].test)
    creates_when_absent = (isinstance(t, ast.Compare) and isinstance(t.ops[0], ast.In) and neg and not wire[0].orelse) or \
                          (isinstance(t, ast.Compare) and isinstance(t.ops[0], ast.In) and not neg and wire[0].orelse and not any(call_attr(c) == "add_node" for st in wire[0].body for c in calls_in(st)))
    if not creates_when_absent:
        bad.append(f"the wire is created under `{short(wire[0].test)}`: it must be created exactly when the Input node is absent")
    body = wire[0].body if neg else wire[0].orelse
    nodes_ = [c for st in body for c in ast.walk(st) if isinstance(c, ast.Call) and call_attr(c) == "add_node"]
    kinds = sorted((norm(c.args[0]), (call_name(get_kw(c, "op")) or "").split(".")[-1]) for c in nodes_ if c.args and get_kw(c, "op") is not None)
    if [k[1] for k in kinds] != ["Input", "Output"] or not kinds[0][0].endswith("_in'") or not kinds[1][0].endswith("_out'"):
        bad.append(f"the wire needs an `_in` node with an Input operation and an `_out` node with an Output operation (got {kinds})")
    edges_ = [c for st in body for c in ast.walk(st) if isinstance(c, ast.Call) and call_attr(c) == "add_edge"]
    if len(edges_) != 1 or len(edges_[0].args) < 2 or not (norm(edges_[0].args[0]).endswith("_in'") and norm(edges_[0].args[1]).endswith("_out'")):
        bad.append("exactly one edge from the `_in` node to the `_out` node is needed")
    else:
        e = edges_[0]
        if get_kw(e, "reg") is None or norm(get_kw(e, "reg")) != R or get_kw(e, "reg_type") is None or norm(get_kw(e, "reg_type")) != T:
            bad.append("the new edge must carry reg=<register> and reg_type=<reg_type>")
        k = get_kw(e, "key")
        if k is None or not (isinstance(k, ast.JoinedStr) and [norm(v.value) for v in k.values if isinstance(v, ast.FormattedValue)] == [T, R]):
            bad.append("the new edge's key is f\"{reg_type}{register}\"")
    idx = sorted(norm(c.args[0]) for st in body for c in ast.walk(st) if isinstance(c, ast.Call) and call_attr(c) == "_node_dict_append" and c.args)
    if idx != ["'Input'", "'Output'"]:
        bad.append(f"the Input / Output nodes must be filed in node_dict under 'Input' and 'Output' (got {idx})")
    if bad:
        for why in dict.fromkeys(bad):
            ctx.fail("reg.create", m, fn, f"_add_reg_if_absent: {why}", func="CircuitDAG._add_reg_if_absent", construct=f"_add_reg_if_absent: {why[:70]}")
    else:
        ctx.ok("reg.create", m, fn, what="n-1 / n / n+1 decision, paired list growth, wire nodes, edge attributes, index entries")


def rule_reg_ensure(ctx: Ctx) -> None:
    """reg.ensure: CircuitDAG.add makes sure that *every* quantum register the operation acts on exists before the operation is wired in:
    `_add_reg_if_absent` runs for each of them, unconditionally (the method itself does nothing for a register that exists).  A guard
    derived from one register (the highest index, say) skips the creation of another register of the other type: the operation is then
    wired to one wire only and the register counts are off."""
    from .. import flow
    repo = ctx.repo
    m = repo.module(DAG)
    fn = repo.anchor(DAG, "CircuitDAG.add")
    ctx.touch(m, fn)
    ens = [c for c in calls_in(fn) if call_attr(c) == "_add_reg_if_absent"]
    wire = [c for c in calls_in(fn) if call_attr(c) == "_add"]
    if not ens or not wire:
        raise AnalysisError("CircuitDAG.add: _add_reg_if_absent / _add not found")
    bad = None
    for e_ in ens:
        loop = next((a for a in _ancs(e_) if isinstance(a, ast.For)), None)
        guard = next((a for a in _ancs(e_) if isinstance(a, (ast.If, ast.IfExp, ast.Try, ast.While))), None)
        every = flow.must_pass(fn.body, lambda nd, e_=e_: any(x is e_ for x in ast.walk(nd)) or (loop is not None and nd is loop.iter))
        all_regs = loop is not None and "len(" in norm(loop.iter)
        if guard is not None or not every or not all_regs:
            bad = (e_, guard)
            break
    if bad is None:
        ctx.ok("reg.ensure", m, ens[0], what="every register of the operation is ensured before wiring")
    else:
        e_, guard = bad
        ctx.fail("reg.ensure", m, guard.test if guard is not None and hasattr(guard, "test") else e_,
                 "CircuitDAG.add creates the missing registers of an operation only " + (f"under `{short(guard.test)}`" if guard is not None and hasattr(guard, "test") else "on some paths") +
                 ": _add_reg_if_absent is idempotent and has to run for every register the operation acts on — a condition on one register leaves another "
                 "one (of the other type) uncreated, and the operation is wired to one wire only", func="CircuitDAG.add",
                 construct="CircuitDAG.add: registers ensured conditionally")


def _ancs(n):
    p_ = parent(n)
    while p_ is not None:
        yield p_
        p_ = parent(p_)


def run(ctx: Ctx) -> None:
    rule_reg_ensure(ctx)
    from .c13 import rule_group_run_closed
    rule_group_run_closed(ctx)
    rule_index_keys_stay(ctx)
    rule_reg_create(ctx)
    rule_wire_label_values(ctx)
    from .c13 import rule_remove_identity_scope
    rule_remove_identity_scope(ctx)   # identity removal is one of the edits: it visits every identity node
    rule_validate_shape(ctx)
    from .c13 import rule_unwrap_order
    rule_unwrap_order(ctx)   # unwrap() decides the register every expanded gate sits on
    from .c13 import rule_rewrite_order
    rule_rewrite_order(ctx)
    from ..rules import order as _order
    _order.rule_sequence_source(ctx, [("graphiq/circuit/circuit_dag.py", "CircuitDAG.to_json"), ("graphiq/circuit/circuit_dag.py", "CircuitDAG._slim_seq"), ("graphiq/circuit/circuit_base.py", "CircuitBase.to_openqasm")])
    rule_reach_whole_dag(ctx)
    from ..rules import memo as _memo
    _memo.rule_memo_sound(ctx, ['graphiq/circuit/circuit_dag.py', 'graphiq/circuit/circuit_base.py'])
    _memo.rule_falsy_zero(ctx, ['graphiq/circuit/circuit_dag.py', 'graphiq/circuit/circuit_base.py'])
    _memo.rule_arg_names(ctx, ['graphiq/circuit/circuit_dag.py', 'graphiq/circuit/circuit_base.py'])
    _memo.rule_fixed_width(ctx, ['graphiq/circuit/circuit_dag.py', 'graphiq/circuit/circuit_base.py'])
    _memo.rule_paste_incomplete(ctx, ['graphiq/circuit/circuit_dag.py', 'graphiq/circuit/circuit_base.py'])
    _memo.rule_negative_start(ctx, ['graphiq/circuit/circuit_dag.py', 'graphiq/circuit/circuit_base.py'])
    _memo.rule_elim_no_pivot(ctx, ['graphiq/circuit/circuit_dag.py', 'graphiq/circuit/circuit_base.py'])
    _memo.rule_subject_drift(ctx, ['graphiq/circuit/circuit_dag.py', 'graphiq/circuit/circuit_base.py'])
    _memo.rule_isinstance_on_class(ctx, ['graphiq/circuit/circuit_dag.py', 'graphiq/circuit/circuit_base.py'])
    _memo.rule_zip_truncation(ctx, ['graphiq/circuit/circuit_dag.py', 'graphiq/circuit/circuit_base.py'])
    _memo.rule_search_fallthrough(ctx, ['graphiq/circuit/circuit_dag.py', 'graphiq/circuit/circuit_base.py'])
    _memo.rule_zip_pairing(ctx, ['graphiq/circuit/circuit_dag.py', 'graphiq/circuit/circuit_base.py'])
    rule_own_dag(ctx)
    rule_nodekeys(ctx)
    rule_own_registers(ctx)
    rule_register_depth_paired(ctx)
    rule_edge_keys(ctx)
    rule_order_compile(ctx)
    from ..rules import loops
    loops.rule_iter_snapshot(ctx, DAG, "CircuitDAG")
    ctx.floor("own.dag", 9)
    ctx.floor("own.registers", 6)
    ctx.floor("edge.keys", 4)


_REPLACE_BLOCKS = ("        # remove entries related to old_operation\n"
                   "        for label in old_operation.labels:\n"
                   "            self._node_dict_remove(label, node)\n"
                   "        self._node_dict_remove(type(old_operation).__name__, node)\n"
                   "        self._node_dict_remove(old_operation.parse_q_reg_types(), node)\n"
                   "\n"
                   "        # add entries related to new_operation\n"
                   "        for label in new_operation.labels:\n"
                   "            self._node_dict_append(label, node)\n"
                   "        self._node_dict_append(type(new_operation).__name__, node)\n"
                   "        self._node_dict_append(new_operation.parse_q_reg_types(), node)\n")
_REPLACE_TABLE = ("        for operation, update_entry in (\n"
                  "            (old_operation, self._node_dict_remove),\n"
                  "            (new_operation, self._node_dict_append),\n"
                  "        ):\n"
                  "            for label in operation.labels:\n"
                  "                update_entry(label, node)\n"
                  "            update_entry(type(old_operation).__name__, node)\n"
                  "            update_entry(operation.parse_q_reg_types(), node)\n")


KNOCKOUTS = [
    Knockout("remove-identity-stops-at-first-noisy-identity", DAG, sub_once('                if isinstance(self.dag.nodes[node]["op"].noise, NoNoise):\n                    self.remove_op(node)\n', '                if not isinstance(self.dag.nodes[node]["op"].noise, NoNoise):\n                    break\n                self.remove_op(node)\n'), "identity.scope", "leaves its loop"),
    Knockout("remove-edge-without-key", DAG, sub_once("        self.dag.remove_edges_from([edge_to_remove])", "        self.dag.remove_edge(edge_to_remove[0], edge_to_remove[1])"), "edge.keys", "without the key"),
    Knockout("add-classical-wire-by-position", DAG, sub_once('] + [f"c{c}_out" for c in operation.c_registers]', '] + [f"c{i}_out" for i in range(len(operation.c_registers))]'), "wire.label-values", "a position in"),
    Knockout("insert-at-registers-sorted-without-their-types", DAG, sub_once("        register, reg_type = zip(\n            *sorted(zip(operation.q_registers, operation.q_registers_type))\n        )\n        for i in range(len(register)):\n            self._add_reg_if_absent(\n                register=register[i],\n                reg_type=reg_type[i],\n            )\n\n        assert len(edges)", "        for register, reg_type in zip(sorted(operation.q_registers), operation.q_registers_type):\n            self._add_reg_if_absent(register=register, reg_type=reg_type)\n\n        assert len(edges)"), "zip.pairing", "parallel sequence"),
    Knockout("node-dict-drops-empty-keys", DAG, sub_once("            except ValueError:\n                pass\n\n    def _edge_dict_append", "            except ValueError:\n                pass\n            if not self.node_dict[key]:\n                del self.node_dict[key]\n\n    def _edge_dict_append"), "index.key-stays", "deletes node_dict keys"),
    Knockout("edge-index-only-for-new-node-pairs", DAG, sub_once("        self._edge_dict_append(reg_type, (in_node, out_node, label))\n\n    def _remove_edge", "        if not self.dag.has_edge(in_node, out_node):\n            self._edge_dict_append(reg_type, (in_node, out_node, label))\n\n    def _remove_edge"), "own.dag", "conditional"),
    Knockout("replace-op-table-driven-old-type-key", DAG, sub_once(_REPLACE_BLOCKS, _REPLACE_TABLE), "sibling.nodekeys", "old"),
    Knockout("register-gap-accepted", DAG, sub_once("        elif register > len(self._registers[reg_type]):", "        elif register > len(self._registers[reg_type]) + 1:") if False else sub_once("        if register == len(self._registers[reg_type]):\n            self._registers[reg_type].append(1)", "        if register >= len(self._registers[reg_type]):\n            self._registers[reg_type].append(1)"), "reg.create", "register = n+1"),
    Knockout("wire-created-when-present", DAG, sub_once('        if f"{reg_type}{register}_in" not in self.dag.nodes:', '        if f"{reg_type}{register}_in" in self.dag.nodes:'), "reg.create", "absent"),
    Knockout("validate-source-test-inverted", DAG, sub_once('            if not isinstance(self.dag.nodes[input_node]["op"], ops.Input):', '            if isinstance(self.dag.nodes[input_node]["op"], ops.Input):'), "validate.shape", "Input test polarity"),
    Knockout("validate-sinks-by-degree-one", DAG, sub_once("            node for node, out_degree in self.dag.out_degree() if out_degree == 0", "            node for node, out_degree in self.dag.out_degree() if out_degree == 1"), "validate.shape", "out_degree selection"),
    Knockout("add-ensures-registers-only-for-highest-index", DAG, sub_nth("        for i in range(len(register)):\n            self._add_reg_if_absent(\n                register=register[i],\n                reg_type=reg_type[i],\n            )\n", "        if register[-1] >= len(self._registers[reg_type[-1]]):\n            for i in range(len(register)):\n                self._add_reg_if_absent(\n                    register=register[i],\n                    reg_type=reg_type[i],\n                )\n", 0), "reg.ensure", "conditionally"),
    Knockout("depth-entry-dropped", DAG, sub_once("            self._register_depth[reg_type].append(0)\n", ""), "own.registers", "without their depth entry"),
    Knockout("export-node-order", "graphiq/circuit/circuit_dag.py", sub_once("        for op in self.sequence():\n            if isinstance(op, ops.InputOutputOperationBase):", "        for op in [self.dag.nodes[k]['op'] for k in self.dag.nodes]:\n            if isinstance(op, ops.InputOutputOperationBase):"), "order.topological", "node-creation order"),

    Knockout("reach-partial-graph", DAG, sub_once("        ancestors = nx.ancestors(self.dag, first_edge[0])", "        ancestors = nx.ancestors(self.dag.subgraph([n for n in self.dag if not str(n).startswith('c')]), first_edge[0])"), "reach.whole-dag", "partial graph"),
    Knockout("wrapper-live-iteration", DAG, sub_once('wrapper_list = self.node_dict["OneQubitGateWrapper"].copy()', 'wrapper_list = self.node_dict["OneQubitGateWrapper"]'), "iter.snapshot", "iterated element"),
    Knockout("C1-drop-edge-dict-remove", DAG, sub_once("        self._edge_dict_remove(reg_type, edge_to_remove)\n        self.dag.remove_edges_from", "        self.dag.remove_edges_from"),
             "own.dag", "_remove_edge"),
    Knockout("C1-solver-raw-remove", "graphiq/solvers/evolutionary_solver.py", sub_once("        circuit.remove_op(node)\n", "        circuit.dag.remove_node(node)\n"),
             "own.dag", "remove_op"),
    Knockout("B7-drop-type-key", DAG, sub_once("        self._node_dict_remove(type(operation).__name__, node)\n", ""), "sibling.nodekeys", "_remove_node"),
    Knockout("B7-replace-drop-regtypes", DAG, sub_once("        self._node_dict_append(new_operation.parse_q_reg_types(), node)\n", ""), "sibling.nodekeys", "replace_op"),
    Knockout("C2-solver-register-write", "graphiq/solvers/evolutionary_solver.py", sub_once("        circuit.remove_op(node)\n", "        circuit._registers[\"e\"].append(1)\n        circuit.remove_op(node)\n"),
             "own.registers", "_registers"),
    Knockout("edge-keys-wrong-reg", DAG, sub_once("                reg_type = self.dag.edges[edge][\"reg_type\"]\n                reg = self.dag.edges[edge][\"reg\"]", "                reg_type = self.dag.edges[edge][\"reg_type\"]\n                reg = 0"),
             "edge.keys", "_add"),
    Knockout("edge-keys-no-remove", DAG, sub_once("            self._remove_edge(reg_edge)  # remove the edge\n", ""), "edge.keys", "_insert_at"),
    Knockout("edge-keys-rejoin-reg-from-label", DAG, sub_once('                    reg = self.dag.edges[in_edge]["reg"]\n                    reg_type = self.dag.edges[in_edge]["reg_type"]\n                    label = out_edge[2]',
                                                              '                    label = out_edge[2]\n                    reg = int(label[1])\n                    reg_type = label[0]'),
             "edge.keys", "_remove_node"),
    Knockout("edge-keys-rejoin", DAG, sub_once("                        in_edge[0], out_edge[1], label, reg_type=reg_type, reg=reg", "                        in_edge[0], out_edge[0], label, reg_type=reg_type, reg=reg"),
             "edge.keys", "_remove_node"),
    Knockout("F4-sequence-not-topological", DAG, sub_once("for node in nx.topological_sort(self.dag)]", "for node in self.dag.nodes]"), "order.compile", "sequence"),
]
