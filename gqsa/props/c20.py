"""C20 — the single-qubit Clifford library is complete, closed and consistently ordered (DESIGN §5.20)."""
from __future__ import annotations

import ast
import itertools
from typing import List

from .. import clifford as cl
from ..core import AnalysisError, call_attr, call_name, calls_in, dotted, func_params, norm, parent, short
from ..driver import Knockout, sub_nth, sub_once
from ..report import Ctx
from ..rules import gatesum, hooks, order

OPS = "graphiq/circuit/ops.py"
NM = "graphiq/noise/noise_models.py"
TRS = "graphiq/solvers/time_reversed_solver.py"

EXPLANATION = (
    "The six 'a' lists x four 'b' lists of local_clifford_composition are read from the syntax tree and interpreted by the "
    "checker's own single-qubit Clifford model under 'list = matrix product': they must be 24 pairwise distinct group "
    "elements, i.e. exactly the group (complete and closed; exhaustive over the finite table). The matrices bound to class "
    "names in local_clifford_to_matrix_map constant-fold to the elements those names denote. Every consumer of a wrapper's "
    "operation list implements 'last listed acts first': unwrap() returns the reversed list, local_clifford_to_matrix_map "
    "and LocalCliffordError.apply accumulate the matrix product in list order, find_local_clifford_by_matrix / "
    "local_cliffords_name_to_matrix_map / one_qubit_cliffords pair `m1 @ m2` with `l1 + l2`, and "
    "TimeReversedSolver._add_one_qubit_gate merges as existing.operations + new (order.wrapper, direction calculus). "
    "Neither compiler accepts the wrapper itself, so both backends see unwrap()'s expansion (own.expand); "
    "find_local_clifford_by_matrix returns only inside its match and otherwise raises (reject.fallthrough). "
    "Does not decide the numerical behaviour of check_equivalent_unitaries.")


def _lists(repo):
    fn = repo.anchor(OPS, "local_clifford_composition")
    env = {}
    for st in fn.body:
        if isinstance(st, ast.Assign) and isinstance(st.targets[0], ast.Name) and isinstance(st.value, ast.List):
            env[st.targets[0].id] = st.value
    ret = [r for r in ast.walk(fn) if isinstance(r, ast.Return)]
    if len(ret) != 1 or not isinstance(ret[0].value, ast.Tuple) or len(ret[0].value.elts) != 2:
        raise AnalysisError("local_clifford_composition: return (a, b) not found")
    out = []
    for e in ret[0].value.elts:
        node = env.get(norm(e))
        if node is None:
            raise AnalysisError("local_clifford_composition: list literal not found")
        lst = []
        for sub in node.elts:
            if not isinstance(sub, ast.List):
                raise AnalysisError("local_clifford_composition: nested list expected")
            names = [dotted(x) for x in sub.elts]
            lst.append(names)
        out.append((node, lst))
    return fn, out


def rule_clifford24(ctx: Ctx) -> None:
    repo = ctx.repo
    m = repo.module(OPS)
    fn, ((na, a), (nb, b)) = _lists(repo)
    ctx.touch(m, fn)
    seen = {}
    for la, lb in itertools.product(a, b):
        names = la + lb
        unknown = [n for n in names if n not in cl.OPCLASS]
        if unknown:
            ctx.fail("table.clifford24", m, na, f"composition list uses {unknown}, which is not an elementary Clifford class",
                     func="local_clifford_composition", construct=f"composition: unknown classes {unknown}")
            return
        k = cl.key(cl.prod([cl.OPCLASS[n] for n in names]))
        if k in seen:
            ctx.fail("table.clifford24", m, na,
                     f"the products {seen[k]} and {names} denote the same Clifford element (mod phase): the enumeration has fewer than "
                     f"24 distinct gates, so it is neither complete nor closed and simplify_local_clifford cannot return every product",
                     func="local_clifford_composition", construct=f"composition: duplicate element {'.'.join(names)} == {'.'.join(seen[k])}")
        else:
            seen[k] = names
            ctx.ok_abstract("table.clifford24", f"{'.'.join(names)} -> {k}")
    if len(a) * len(b) != 24:
        ctx.fail("table.clifford24", m, na, f"the composition table has {len(a)} x {len(b)} = {len(a) * len(b)} entries, not 24",
                 func="local_clifford_composition", construct=f"composition: {len(a)}x{len(b)} entries")
    elif set(seen) == set(cl.all24()):
        ctx.ok_abstract("table.clifford24", "24 pairwise distinct elements = the whole single-qubit Clifford group (closed)")
        ctx.extra["exhaustive"] = True
    # name -> matrix table
    mp = repo.anchor(OPS, "local_clifford_to_matrix_map")
    ctx.touch(m, mp)
    table = None
    for st in mp.body:
        if isinstance(st, ast.Assign) and isinstance(st.value, ast.Dict):
            table = st.value
    if table is None:
        raise AnalysisError("local_clifford_to_matrix_map: mapping dict not found")
    covered = set()
    for k, v in zip(table.keys, table.values):
        cname = (dotted(k) or "").split(".")[0]
        covered.add(cname)
        if isinstance(v, ast.Call) and call_attr(v) == "eye":
            mat = cl.I2
        else:
            mat = gatesum.dm_matrix_of(repo, v, m)
        want = cl.OPCLASS.get(cname)
        if want is not None and cl.equal_mod_phase(mat, want):
            ctx.ok("table.clifford24", m, v, what=f"{cname} -> {norm(v)}")
        else:
            ctx.fail("table.clifford24", m, v, f"local_clifford_to_matrix_map binds {cname} to `{norm(v)}`, which is not the matrix {cname} denotes",
                     func="local_clifford_to_matrix_map", construct=f"matrix map: {cname} -> {norm(v)}")
    used = {n for lst in a + b for n in lst}
    if used - covered:
        ctx.fail("table.clifford24", m, table, f"local_clifford_to_matrix_map has no matrix for {sorted(used - covered)} used by the composition lists",
                 func="local_clifford_to_matrix_map", construct=f"matrix map: missing {sorted(used - covered)}")


def rule_order_wrapper(ctx: Ctx) -> None:
    repo = ctx.repo
    m = repo.module(OPS)
    # 1. unwrap(): every return is a reversed list built in list order
    fn = repo.anchor(OPS, "OneQubitGateWrapper.unwrap")
    ctx.touch(m, fn)
    from .c13 import unwrap_model
    _fn, bad, cases = unwrap_model(repo)
    order_bad = [x for x in bad if "per-gate noise" in x or "fails" in x] or bad
    if order_bad:
        ctx.fail("order.wrapper", m, fn,
                 f"OneQubitGateWrapper.unwrap: a wrapped list is a matrix product (last listed gate acts first), so the application sequence "
                 f"handed to the compilers must be the reversed list: {order_bad[0]}",
                 func="OneQubitGateWrapper.unwrap", construct="unwrap: application sequence on the wrapper model")
    else:
        ctx.ok("order.wrapper", m, fn, what=f"unwrap returns the application order on {cases} model wrappers")
    base = repo.anchor(OPS, "OperationBase.unwrap")
    # 2. matrix accumulations in list order
    for rel, q in ((OPS, "local_clifford_to_matrix_map"), (NM, "LocalCliffordError.apply")):
        mm_ = repo.module(rel)
        f = repo.anchor(rel, q)
        ctx.touch(mm_, f)
        # the accumulated product: a name this function returns or hands to apply_unitary
        cands = [r.value.id for r in ast.walk(f) if isinstance(r, ast.Return) and isinstance(r.value, ast.Name)]
        cands += [c.args[0].id for c in calls_in(f) if call_attr(c) == "apply_unitary" and c.args and isinstance(c.args[0], ast.Name)]
        acc = []
        var = None
        for cv in dict.fromkeys(cands):
            a_ = order.loop_accumulations(f, cv)
            if a_:
                acc += a_
                var = cv
        if not acc:
            raise AnalysisError(f"{q}: accumulation of the matrix product not found")
        for loop, st, d, s in acc:
            if d * s == 1:
                ctx.ok("order.wrapper", mm_, st, what=f"{q}: product in list order")
            else:
                ctx.fail("order.wrapper", mm_, st,
                         f"{q} accumulates `{short(st)}` while iterating {'forward' if d > 0 else 'backward'}: the result is the product in "
                         f"reversed list order, but a gate list denotes the product in list order (unwrap() applies the last listed gate first)",
                         func=q, construct=f"{q}: product direction {d * s:+d}")
    # 3. pairings m1 @ m2 with l1 + l2
    for q in ("find_local_clifford_by_matrix", "local_cliffords_name_to_matrix_map"):
        f = repo.anchor(OPS, q)
        ctx.touch(m, f)
        mats = {}
        for n in ast.walk(f):
            if isinstance(n, ast.Assign) and isinstance(n.value, ast.Call) and call_attr(n.value) == "local_clifford_to_matrix_map":
                mats[norm(n.targets[0])] = norm(n.value.args[0])
        prods = [n for n in ast.walk(f) if isinstance(n, ast.BinOp) and isinstance(n.op, ast.MatMult) and norm(n.left) in mats and norm(n.right) in mats]
        if len(prods) != 1:
            raise AnalysisError(f"{q}: matrix product of the two halves not found")
        l, r = mats[norm(prods[0].left)], mats[norm(prods[0].right)]
        # the composition halves are (a-part, b-part) in this order everywhere: `A, B = local_clifford_composition()`, x iterates A, y iterates B
        first, second = set(), set()
        for n in ast.walk(f):
            if isinstance(n, ast.Assign) and isinstance(n.value, ast.Call) and call_name(n.value) == "local_clifford_composition" \
                    and isinstance(n.targets[0], ast.Tuple) and len(n.targets[0].elts) == 2:
                first.add(norm(n.targets[0].elts[0]))
                second.add(norm(n.targets[0].elts[1]))
        iters = {norm(lp.target): norm(lp.iter) for lp in ast.walk(f) if isinstance(lp, ast.For)}

        def _half(t: str) -> int:
            if t.endswith("[0]") or iters.get(t) in first:
                return 0
            if t.endswith("[1]") or iters.get(t) in second:
                return 1
            return -1
        if _half(l) < 0 or _half(r) < 0:
            raise AnalysisError(f"{q}: the two composition halves `{l}` / `{r}` are not recognised")
        halves_ok = _half(l) == 0 and _half(r) == 1
        cat = [n for n in ast.walk(f) if isinstance(n, ast.BinOp) and isinstance(n.op, ast.Add) and {norm(n.left), norm(n.right)} == {l, r}]
        if cat:
            halves_ok = halves_ok and norm(cat[0].left) == l
        if halves_ok:
            ctx.ok("order.wrapper", m, prods[0], what=f"{q}: a-part @ b-part")
        else:
            ctx.fail("order.wrapper", m, prods[0], f"{q} multiplies / concatenates the two composition halves in different orders",
                     func=q, construct=f"{q}: halves order")
    f = repo.anchor(OPS, "one_qubit_cliffords")
    cat = [n for n in ast.walk(f) if isinstance(n, ast.BinOp) and isinstance(n.op, ast.Add)]
    if len(cat) == 1 and norm(cat[0].left).endswith("[0]") and norm(cat[0].right).endswith("[1]"):
        ctx.ok("order.wrapper", m, cat[0], what="one_qubit_cliffords: a-part + b-part")
    else:
        ctx.fail("order.wrapper", m, f, "one_qubit_cliffords does not flatten (a, b) as a + b", func="one_qubit_cliffords",
                 construct="one_qubit_cliffords: flatten order")
    # 4. merging in the time-reversed solver: existing.operations + new
    tm = repo.module(TRS)
    f = repo.anchor(TRS, "TimeReversedSolver._add_one_qubit_gate")
    ctx.touch(tm, f)
    gl = func_params(f)[2]
    cat = [n for n in ast.walk(f) if isinstance(n, ast.Assign) and norm(n.targets[0]) == gl and isinstance(n.value, ast.BinOp)
           and isinstance(n.value.op, ast.Add)]
    if len(cat) != 1:
        raise AnalysisError("_add_one_qubit_gate: merge statement not found")
    if norm(cat[0].value.left).endswith(".operations") and norm(cat[0].value.right) == gl:
        ctx.ok("order.wrapper", tm, cat[0], what="merge: later-applied (existing) on the left, earlier-applied (new, inserted at the front) on the right")
    else:
        ctx.fail("order.wrapper", tm, cat[0],
                 f"`{short(cat[0])}`: the new gates are inserted at the front of the wire (they act first), so in the merged list they "
                 f"must stand to the right of the existing wrapper's operations", func="TimeReversedSolver._add_one_qubit_gate")


def rule_expand(ctx: Ctx) -> None:
    repo = ctx.repo
    for rel, cn in hooks.COMPILERS:
        acc = hooks.accepted_classes(repo, rel, cn)
        m = repo.module(rel)
        if any(c.name == "OneQubitGateWrapper" for c in acc):
            ctx.fail("own.expand", m, repo.cls(cn, rel).node, f"{cn}.ops accepts OneQubitGateWrapper itself; a backend could then expand "
                                                               f"the list its own way", func=cn, construct=f"{cn}: accepts the wrapper")
        else:
            ctx.ok_abstract("own.expand", f"{cn}.ops does not contain OneQubitGateWrapper")
    m = repo.module(OPS)
    f = repo.anchor(OPS, "find_local_clifford_by_matrix")
    ctx.touch(m, f)
    rets = [r for r in ast.walk(f) if isinstance(r, ast.Return)]
    inside = all(any(isinstance(a, ast.If) and "check_equivalent_unitaries" in norm(a.test) for a in _anc(r)) for r in rets)
    if rets and inside and isinstance(f.body[-1], ast.Raise):
        ctx.ok("reject.fallthrough", m, f, what="returns only on a match, otherwise raises")
    else:
        ctx.fail("reject.fallthrough", m, f, "find_local_clifford_by_matrix can return without a match or falls off the end instead of "
                                             "rejecting a non-Clifford matrix", func="find_local_clifford_by_matrix",
                 construct="find_local_clifford_by_matrix: reject path")


def _anc(n):
    p = parent(n)
    while p is not None:
        yield p
        p = parent(p)


DMF = "graphiq/backends/density_matrix/functions.py"


def rule_phase_pivot(ctx: Ctx) -> None:
    """phase.pivot: check_equivalent_unitaries fixes the global phase by dividing one entry of the first matrix by the same
    entry of the second; the entry's position must be provably a non-zero entry of the divisor matrix: taken from
    np.nonzero(<divisor matrix>) / np.argwhere, or the argmax of its absolute values.  An argmax of the complex matrix itself
    orders entries by real part, so a structural zero beats -1 or -i and the phase becomes nan."""
    repo = ctx.repo
    m = repo.module(DMF)
    fn = repo.anchor(DMF, "check_equivalent_unitaries")
    ctx.touch(m, fn)
    env = {}
    for st in ast.walk(fn):
        if isinstance(st, ast.Assign) and len(st.targets) == 1:
            t = st.targets[0]
            if isinstance(t, ast.Name):
                env[t.id] = st.value
            elif isinstance(t, ast.Tuple):
                for k, e in enumerate(t.elts):
                    if isinstance(e, ast.Name):
                        env[e.id] = ("tuple", k, st.value)
    divs = [b for b in ast.walk(fn) if isinstance(b, ast.BinOp) and isinstance(b.op, ast.Div) and isinstance(b.right, ast.Subscript)
            and isinstance(b.right.value, ast.Name) and b.right.value.id in func_params(fn)]
    if not divs:
        raise AnalysisError("check_equivalent_unitaries: global-phase division by a matrix entry not found")
    for b in divs:
        mat = b.right.value.id
        idx = b.right.slice.elts if isinstance(b.right.slice, ast.Tuple) else [b.right.slice]
        if norm(b.left) != norm(b.right).replace(mat, norm(b.left.value) if isinstance(b.left, ast.Subscript) else "?", 1):
            ctx.fail("phase.pivot", m, b, f"`{short(b)}`: numerator and denominator are not the same entry of the two matrices",
                     func="check_equivalent_unitaries", construct="check_equivalent_unitaries: phase entries differ")
            continue
        why = None
        ks = set()
        for pos, ix in enumerate(idx):
            d = env.get(ix.id) if isinstance(ix, ast.Name) else None
            if d is None:
                raise AnalysisError(f"check_equivalent_unitaries: index `{short(ix)}` of the phase entry not resolved")
            if isinstance(d, tuple):  # r, c = f(...)
                _, k, v = d
                good = (isinstance(v, ast.Call) and call_name(v) == "np.unravel_index" and len(v.args) == 2 and norm(v.args[1]) == f"{mat}.shape"
                        and k == pos and isinstance(v.args[0], ast.Call) and call_name(v.args[0]) in ("np.argmax", "np.nanargmax"))
                if good:
                    inner = v.args[0].args[0]
                    if isinstance(inner, ast.Call) and call_name(inner) in ("np.abs", "np.absolute", "abs") and norm(inner.args[0]) == mat:
                        continue
                    why = (f"the position is the argmax of `{short(inner)}`; numpy orders complex entries by real part, then imaginary part, so a "
                           f"zero entry beats -1 and -i: for [[0,-i],[-1,0]] (= P·Y, one of the 24 Cliffords) the pivot is a zero, the phase is nan "
                           f"and the matrix is not recognised as equivalent to itself")
                else:
                    raise AnalysisError(f"check_equivalent_unitaries: provenance `{short(v)}` of the phase entry position not recognised")
            else:
                # nz[pos][k] with nz = np.nonzero(mat)
                ok = False
                if isinstance(d, ast.Subscript) and isinstance(d.value, ast.Subscript) and isinstance(d.value.value, ast.Name):
                    src = env.get(d.value.value.id)
                    if isinstance(src, ast.Call) and call_name(src) == "np.nonzero" and norm(src.args[0]) == mat and norm(d.value.slice) == str(pos):
                        ok = True
                        ks.add(norm(d.slice))
                if not ok:
                    why = f"index `{short(ix)}` = `{short(d)}` is not component {pos} of np.nonzero({mat})"
        if why is None and len(ks) > 1:
            why = f"row and column are taken from different non-zero entries ({sorted(ks)})"
        if why:
            ctx.fail("phase.pivot", m, b, f"check_equivalent_unitaries divides by `{short(b.right)}`, which is not provably non-zero: {why}",
                     func="check_equivalent_unitaries", construct="check_equivalent_unitaries: phase pivot not provably non-zero")
        else:
            ctx.ok("phase.pivot", m, b, what=f"global phase taken at a provably non-zero entry of {mat}")


def rule_equiv_decision(ctx: Ctx) -> None:
    """equiv.decision: check_equivalent_unitaries as a decision table over its atoms (is_unitary of each operand, the proportionality
    test `allclose(op1, phase * op2)`, further tests): it answers True only when both operands are unitary and proportional, and it
    answers True when every atom holds.  This is what makes simplify_local_clifford reject a non-Clifford (non-unitary) matrix."""
    from .. import boolform
    repo = ctx.repo
    m = repo.module(DMF)
    fn = repo.anchor(DMF, "check_equivalent_unitaries")
    ctx.touch(m, fn)
    ps = func_params(fn)[:2]
    tb = boolform.Table()
    try:
        prog = tb.outcomes(fn.body)
        rows = list(tb.rows())
    except boolform.Undecidable as e:
        raise AnalysisError(f"check_equivalent_unitaries: decision not tabulated ({e})")
    uni = [k for k in tb.atoms if k.startswith("is_unitary(")]
    prop_ = [k for k in tb.atoms if " == " in k and all(q in k for q in ps)]
    if sorted(uni) != sorted(f"is_unitary({q})" for q in ps) or len(prop_) != 1:
        raise AnalysisError(f"check_equivalent_unitaries: unitarity tests of both operands and one proportionality test expected (atoms {sorted(tb.atoms)})")
    need = uni + prop_
    bad = None
    for a in rows:
        out = prog(a)
        if out[0] != "return" or out[1] is None:
            raise AnalysisError("check_equivalent_unitaries: a path does not return a boolean constant / formula")
        if out[1] and not all(a[k] for k in need):
            bad = "answers True although " + " and ".join(f"`{k}` is false" for k in need if not a[k])
            break
        if all(a.values()) and not out[1]:
            bad = "answers False although both operands are unitary and proportional"
            break
    if bad:
        ctx.fail("equiv.decision", m, fn, f"check_equivalent_unitaries {bad}", func="check_equivalent_unitaries", construct=f"check_equivalent_unitaries: {bad[:60]}")
    else:
        ctx.ok("equiv.decision", m, fn, what=f"{len(rows)} rows over {len(tb.atoms)} atoms: True only for unitary, proportional operands")


def rule_simplify_member(ctx: Ctx) -> None:
    """simplify.member: simplify_local_clifford answers with a member of the 24-element table on every path: each return value is what
    find_local_clifford_by_matrix returned for the product matrix of the input list.  Returning (a copy of) the input under some
    cheaper syntactic test is not provably a member: such tests accept lists like [I, X, X] that merely *look* tabulated."""
    repo = ctx.repo
    m = repo.module(OPS)
    fn = repo.anchor(OPS, "simplify_local_clifford")
    ctx.touch(m, fn)
    lst = func_params(fn)[0]
    env = {}
    for a in ast.walk(fn):
        if isinstance(a, ast.Assign) and len(a.targets) == 1 and isinstance(a.targets[0], ast.Name):
            env.setdefault(a.targets[0].id, []).append(a.value)

    def from_lookup(e, depth=0):
        if isinstance(e, ast.Call) and call_name(e) == "find_local_clifford_by_matrix" and e.args:
            # its argument is the matrix of the whole input list
            a0 = e.args[0]
            srcs = [a0] + (env.get(a0.id, []) if isinstance(a0, ast.Name) else [])
            return any(isinstance(x, ast.Call) and call_name(x) == "local_clifford_to_matrix_map" and x.args and norm(x.args[0]) == lst for s_ in srcs for x in ast.walk(s_))
        if isinstance(e, ast.Name) and depth < 3 and e.id in env:
            return all(from_lookup(v, depth + 1) for v in env[e.id])
        if isinstance(e, ast.Call) and call_name(e) in ("list", "tuple") and e.args:
            return from_lookup(e.args[0], depth + 1)
        return False
    rets = [r for r in ast.walk(fn) if isinstance(r, ast.Return) and r.value is not None]
    if not rets:
        raise AnalysisError("simplify_local_clifford: no return value")
    for r in rets:
        if from_lookup(r.value):
            ctx.ok("simplify.member", m, r, what="result comes from the table lookup of the product matrix")
        else:
            ctx.fail("simplify.member", m, r,
                     f"simplify_local_clifford returns `{short(r.value)}` on a path that does not go through find_local_clifford_by_matrix(matrix of "
                     f"the whole list): the result need not be one of the 24 tabulated forms ([I, X, X] is returned unchanged), so a cancelled "
                     f"gate is no longer recognised as [Identity, Identity]", func="simplify_local_clifford",
                     construct="simplify_local_clifford: return that bypasses the table lookup")


def run(ctx: Ctx) -> None:
    from .c13 import rule_unwrap_order
    rule_unwrap_order(ctx)
    from .c14 import rule_derived_fields
    rule_derived_fields(ctx)   # unwrap() and the compilers read reg_type / register: a wrapper moved to the other register type must take its gates along
    rule_group_order(ctx)
    from .c14 import rule_wrapper_per_operation
    rule_wrapper_per_operation(ctx)  # the exported body of a local Clifford is the product of *all* its listed gates
    rule_simplify_member(ctx)
    for rel_, cname_ in hooks.COMPILERS:
        hooks.rule_qindex(ctx, rel_, cname_, hooks.HOOKS)   # "the same unitary in both backends" includes the same qubit: positions come from q_index
    from .c07 import rule_wrappers
    rule_wrappers(ctx)   # the mixed-stabilizer gate methods (used whenever noise simulation is on) agree with the pure ones
    gatesum.rule_derived_gates(ctx)  # both backends must realise each elementary gate: the stabilizer side's derived gates
    from ..rules import memo as _memo
    _memo.rule_memo_sound(ctx, ['graphiq/circuit/ops.py', 'graphiq/backends/density_matrix/functions.py'])
    _memo.rule_falsy_zero(ctx, ['graphiq/circuit/ops.py', 'graphiq/backends/density_matrix/functions.py'])
    _memo.rule_arg_names(ctx, ['graphiq/circuit/ops.py', 'graphiq/backends/density_matrix/functions.py'])
    _memo.rule_fixed_width(ctx, ['graphiq/circuit/ops.py', 'graphiq/backends/density_matrix/functions.py'])
    _memo.rule_paste_incomplete(ctx, ['graphiq/circuit/ops.py', 'graphiq/backends/density_matrix/functions.py'])
    _memo.rule_negative_start(ctx, ['graphiq/circuit/ops.py', 'graphiq/backends/density_matrix/functions.py'])
    _memo.rule_elim_no_pivot(ctx, ['graphiq/circuit/ops.py', 'graphiq/backends/density_matrix/functions.py'])
    _memo.rule_subject_drift(ctx, ['graphiq/circuit/ops.py', 'graphiq/backends/density_matrix/functions.py'])
    _memo.rule_isinstance_on_class(ctx, ['graphiq/circuit/ops.py', 'graphiq/backends/density_matrix/functions.py'])
    _memo.rule_zip_truncation(ctx, ['graphiq/circuit/ops.py', 'graphiq/backends/density_matrix/functions.py'])
    _memo.rule_search_fallthrough(ctx, ['graphiq/circuit/ops.py', 'graphiq/backends/density_matrix/functions.py'])
    _memo.rule_zip_pairing(ctx, ['graphiq/circuit/ops.py', 'graphiq/backends/density_matrix/functions.py'])
    rule_phase_pivot(ctx)
    rule_equiv_decision(ctx)
    rule_clifford24(ctx)
    rule_order_wrapper(ctx)
    rule_expand(ctx)
    ctx.floor("table.clifford24", 28)
    ctx.floor("order.wrapper", 8)


def rule_group_order(ctx: Ctx) -> None:
    """group.order: group_one_qubit_gates walks a register *backwards* (from its Output node along in-edges), so what it meets later acts
    earlier.  A OneQubitGateWrapper's list is a matrix product (first element acts last), hence every gate met — and the whole list of
    a wrapper met — goes to the *end* of the list being collected.  Prepending (`lst = x + lst`, insert(0, ..)) reverses the order of
    the run relative to the wrapper, and non-commuting gates are then applied the wrong way round."""
    import ast as _ast
    from ..core import call_attr as _ca, calls_in as _calls, norm as _norm, short as _short
    repo = ctx.repo
    DAGF = "graphiq/circuit/circuit_dag.py"
    m = repo.module(DAGF)
    fn = repo.anchor(DAGF, "CircuitDAG.group_one_qubit_gates")
    ctx.touch(m, fn)
    backward = any(_ca(c) == "in_edges" for c in _calls(fn)) and not any(_ca(c) == "out_edges" and "next_node" not in _norm(c) for c in _calls(fn))
    wr = [c for c in _calls(fn) if (_ca(c) or "") == "OneQubitGateWrapper" and c.args and isinstance(c.args[0], _ast.Name)]
    if not wr:
        raise AnalysisError("group_one_qubit_gates: construction of the grouping wrapper not found")
    lists = {_norm(wr[0].args[0])}
    nk = next((k.value for k in wr[0].keywords if k.arg == "noise"), None)
    if isinstance(nk, _ast.Name):
        lists.add(nk.id)
    if not any(_ca(c) == "in_edges" for c in _calls(fn)):
        raise AnalysisError("group_one_qubit_gates: direction of the walk not recognised")
    bad = []
    n_acc = 0
    for a in _ast.walk(fn):
        if isinstance(a, _ast.Assign) and len(a.targets) == 1 and _norm(a.targets[0]) in lists and isinstance(a.value, _ast.BinOp) and isinstance(a.value.op, _ast.Add):
            L = _norm(a.targets[0])
            n_acc += 1
            if _norm(a.value.right) == L and _norm(a.value.left) != L:
                bad.append(a)
        elif isinstance(a, _ast.AugAssign) and _norm(a.target) in lists:
            n_acc += 1
        elif isinstance(a, _ast.Call) and isinstance(a.func, _ast.Attribute) and _norm(a.func.value) in lists:
            if a.func.attr in ("append", "extend"):
                n_acc += 1
            elif a.func.attr == "insert":
                n_acc += 1
                bad.append(a)
    if n_acc < 2:
        raise AnalysisError("group_one_qubit_gates: accumulation into the gate list not found")
    if bad:
        ctx.fail("group.order", m, bad[0],
                 f"group_one_qubit_gates walks the register backwards and puts what it meets in *front* of the collected list (`{_short(bad[0])}`): gates met "
                 f"later act earlier and belong at the end of a wrapper's product-ordered list — W[H,P] followed by P must give [P,H,P], not [H,P,P]",
                 func="CircuitDAG.group_one_qubit_gates", construct="group_one_qubit_gates: prepend during a backward walk")
    else:
        ctx.ok("group.order", m, wr[0], what=f"{n_acc} accumulations, all at the end of the list (backward walk)")


KNOCKOUTS = [
    Knockout("equiv-unitarity-guard-inverted", DMF, sub_once("    if not (is_unitary(unitary_op1) and is_unitary(unitary_op2)):\n        return False\n\n    nonzero", "    if is_unitary(unitary_op1) and is_unitary(unitary_op2):\n        return False\n\n    nonzero"), "equiv.decision", "answers"),
    Knockout("equiv-phase-modulus-suffices", DMF, sub_once(") and np.allclose(\n        np.abs(global_phase), 1.0", ") or np.allclose(\n        np.abs(global_phase), 1.0"), "equiv.decision", "answers True although"),
    Knockout("grouping-prepends-wrapper-gates", "graphiq/circuit/circuit_dag.py", sub_once("                        gate_list += op.operations\n                        noise_list += op.noise\n", "                        gate_list = op.operations + gate_list\n                        noise_list = op.noise + noise_list\n"), "group.order", "prepend"),
    Knockout("simplify-early-return", OPS, sub_once("    matrix = local_clifford_to_matrix_map(gate_list)\n\n    return find_local_clifford_by_matrix(matrix)", "    if len(gate_list) == 2:\n        return gate_list\n    matrix = local_clifford_to_matrix_map(gate_list)\n\n    return find_local_clifford_by_matrix(matrix)"), "simplify.member", "bypasses the table lookup"),
    Knockout("phase-pivot-mixed", DMF, sub_once("    column = nonzero[1][0]\n", "    column = nonzero[1][-1]\n"), "phase.pivot", "not provably non-zero"),
    Knockout("E5-duplicate", OPS, sub_once("        [Hadamard, Phase],\n", "        [Phase, Phase, Phase, Phase],\n"), "table.clifford24", "duplicate"),
    Knockout("E5-matrix-map", OPS, sub_once("        Phase.__name__: dmf.phase(),", "        Phase.__name__: dmf.phase_dag(),"), "table.clifford24", "Phase"),
    Knockout("F1-unwrap-not-reversed", OPS, sub_nth("        return gates[::-1]", "        return gates", 0), "order.wrapper", "unwrap"),
    Knockout("F1-matrix-map-prepend", OPS, sub_once("                result = result @ mapping[op.__name__]", "                result = mapping[op.__name__] @ result"),
             "order.wrapper", "local_clifford_to_matrix_map"),
    Knockout("F1-lce-forward", NM, sub_once("            for gate in clifford_error[::-1]:", "            for gate in clifford_error:"), "order.wrapper", "LocalCliffordError"),
    Knockout("F1-merge-order", TRS, sub_once("            gate_list = next_op.operations + gate_list", "            gate_list = gate_list + next_op.operations"),
             "order.wrapper", "_add_one_qubit_gate"),
    Knockout("F1-find-halves", OPS, sub_once("            product_matrix = matrix1 @ matrix2\n            if dmf", "            product_matrix = matrix2 @ matrix1\n            if dmf"),
             "order.wrapper", "find_local_clifford_by_matrix"),
    Knockout("C7-compiler-accepts-wrapper", hooks.STAB, sub_once("        ops.Output,\n    ]", "        ops.Output,\n        ops.OneQubitGateWrapper,\n    ]"), "own.expand", "wrapper"),
    Knockout("reject-fallthrough", OPS, sub_once('    raise ValueError("Invalid one-qubit Clifford gate.")', "    return [Identity, Identity]"), "reject.fallthrough", "reject"),
]
