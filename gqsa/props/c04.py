"""C04 — generated and mutated circuits respect the photonic emission constraints (DESIGN §5.4)."""
from __future__ import annotations

from ..driver import Knockout, sub_nth, sub_once
from ..report import Ctx
from ..rules import shapes, solvers
from ..rules.solvers import EVO, TRS

EXPLANATION = (
    "Static rules over graphiq/solvers/: every two-qubit operation constructor carries the constant control_type='e' "
    "(own.twoqubit — no photon-photon or photon-controlled gates can be created); emitter->photon CNOT / "
    "measure-and-reset objects placed at initialisation pass through add_labels('Fixed') between construction and "
    "circuit.add / insert_at (typestate.fixed); remove_op draws from get_node_exclude_labels(['Fixed','Input','Output']) "
    "and refuses an explicit Fixed node, replace_* replaces a wrapper selected by label with a wrapper on the same "
    "register, photon-edge comprehensions feeding insert_at filter on the operation at edge[0], emitter moves use "
    "emitter edges only, and every move is immediately followed by validate() (move.filters); every insertion helper of "
    "TimeReversedSolver inserts on the out-edge of '<reg>_in', the emission CNOT is the last insertion on its photon in "
    "_add_photon_absorption and in the main loop, and the asserts on the photonic block dominate _add_gates_from_str "
    "(order.frontinsert). Does not decide that find_incompatible_edges is a sufficient cycle filter (validate() is the "
    "runtime guard; its placement is checked).")


def run(ctx: Ctx) -> None:
    from ..rules import solvers as _slvf
    _slvf.rule_frontinsert_owner(ctx)
    from ..rules import solvers as _slv4
    _slv4.rule_edge_roles(ctx)
    from .c02 import rule_index_space
    rule_index_space(ctx)   # the deterministic solver behind this property: emitter register numbers vs tableau positions
    from ..rules import order as _order_seq
    _order_seq.rule_sequence_source(ctx, [("graphiq/circuit/circuit_dag.py", "CircuitDAG._slim_seq")])  # the noisy copy (assign_noise) replays the operations in application order
    solvers.rule_emitter_cap(ctx)
    from .c12 import rule_reach_whole_dag
    rule_reach_whole_dag(ctx)
    from ..rules import memo as _memo
    _memo.rule_memo_sound(ctx, ['graphiq/solvers/evolutionary_solver.py', 'graphiq/solvers/hybrid_solvers.py'])
    _memo.rule_falsy_zero(ctx, ['graphiq/solvers/evolutionary_solver.py', 'graphiq/solvers/hybrid_solvers.py'])
    _memo.rule_arg_names(ctx, ['graphiq/solvers/evolutionary_solver.py', 'graphiq/solvers/hybrid_solvers.py'])
    _memo.rule_fixed_width(ctx, ['graphiq/solvers/evolutionary_solver.py', 'graphiq/solvers/hybrid_solvers.py'])
    _memo.rule_paste_incomplete(ctx, ['graphiq/solvers/evolutionary_solver.py', 'graphiq/solvers/hybrid_solvers.py'])
    _memo.rule_negative_start(ctx, ['graphiq/solvers/evolutionary_solver.py', 'graphiq/solvers/hybrid_solvers.py'])
    _memo.rule_elim_no_pivot(ctx, ['graphiq/solvers/evolutionary_solver.py', 'graphiq/solvers/hybrid_solvers.py'])
    _memo.rule_subject_drift(ctx, ['graphiq/solvers/evolutionary_solver.py', 'graphiq/solvers/hybrid_solvers.py'])
    _memo.rule_isinstance_on_class(ctx, ['graphiq/solvers/evolutionary_solver.py', 'graphiq/solvers/hybrid_solvers.py'])
    _memo.rule_zip_truncation(ctx, ['graphiq/solvers/evolutionary_solver.py', 'graphiq/solvers/hybrid_solvers.py'])
    _memo.rule_search_fallthrough(ctx, ['graphiq/solvers/evolutionary_solver.py', 'graphiq/solvers/hybrid_solvers.py'])
    _memo.rule_zip_pairing(ctx, ['graphiq/solvers/evolutionary_solver.py', 'graphiq/solvers/hybrid_solvers.py'])
    solvers.rule_twoqubit(ctx)
    solvers.rule_emission_first(ctx)
    from .c12 import rule_validate_shape
    rule_validate_shape(ctx)  # validate() is the guard every move is followed by
    solvers.rule_move_filters(ctx)
    solvers.rule_filter_literals(ctx)
    solvers.rule_frontinsert(ctx)
    shapes.rule_conversion_ops(ctx)
    from .c12 import rule_edge_keys
    rule_edge_keys(ctx)  # the moves build their gates from dag.edges[edge]['reg']: edge splicing must propagate reg / reg_type / key
    solvers.rule_result_provenance(ctx, TRS, "TimeReversedSolver.solve", False)
    ctx.floor("own.twoqubit", 6)
    ctx.floor("typestate.fixed", 4)
    ctx.floor("move.filters", 8)
    ctx.floor("order.frontinsert", 6)


KNOCKOUTS = [
    Knockout("one-qubit-move-register-from-neighbour-op", "graphiq/solvers/evolutionary_solver.py", sub_nth('            reg = circuit.dag.edges[edge]["reg"]\n', '            reg = circuit.dag.nodes[edge[0]]["op"].q_registers[0]\n', 1), "move.edge-roles", "one-qubit gate"),
    Knockout("conversion-gates-through-front-insertion-helper", "graphiq/solvers/alternate_target_solver.py", sub_once("    score, circ = solver.result\n", "    score, circ = solver.result\n    for gate in []:\n        solver._add_one_qubit_gate(circ, [type(gate)], gate.register)\n"), "own.frontinsert", "outside TimeReversedSolver"),
    Knockout("measure-reset-target-read-from-emitter-edge", "graphiq/solvers/evolutionary_solver.py", sub_once('            target=circuit.dag.edges[edge1]["reg"],\n            target_type="p",\n            noise=self._identify_noise(\n                ops.MeasurementCNOTandReset', '            target=circuit.dag.edges[edge0]["reg"],\n            target_type="p",\n            noise=self._identify_noise(\n                ops.MeasurementCNOTandReset'), "move.edge-roles", "not taken from its edges"),
    Knockout("fixed-label-after-insertion", TRS, sub_nth('        gate.add_labels("Fixed")\n        circuit.insert_at(gate, [edge0, edge1])\n', '        circuit.insert_at(gate, [edge0, edge1])\n        gate.add_labels("Fixed")\n', 0), "typestate.fixed", "not labelled Fixed"),
    Knockout("measurement-position-photon-filter-or", EVO, sub_once('            if type(circuit.dag.nodes[edge[1]]["op"]) is not ops.MeasurementCNOTandReset\n            and type(circuit.dag.nodes[edge[0]]["op"]) is not ops.Input\n', '            if type(circuit.dag.nodes[edge[1]]["op"]) is not ops.MeasurementCNOTandReset\n            or type(circuit.dag.nodes[edge[0]]["op"]) is not ops.Input\n'), "filter.literals", "_select_possible_measurement_position"),
    Knockout("cnot-position-output-polarity", EVO, sub_nth('if type(circuit.dag.nodes[edge[1]]["op"]) is not ops.Output', 'if type(circuit.dag.nodes[edge[1]]["op"]) is ops.Output', 0), "filter.literals", "admitted"),
    Knockout("measure-reset-inside-emission-loop", EVO, sub_once("            op.add_labels(\"Fixed\")\n\n            circuit.add(op)\n\n        # initialize all emitter measurement and reset operations\n", "            op.add_labels(\"Fixed\")\n\n            circuit.add(op)\n            if i == n_photon - 1 or emission_assignment[i] not in emission_assignment[i + 1:]:\n                mr = ops.MeasurementCNOTandReset(control=emission_assignment[i], control_type=\"e\", target=measurement_assignment[emission_assignment[i]], target_type=\"p\")\n                mr.add_labels(\"Fixed\")\n                circuit.add(mr)\n\n        # initialize all emitter measurement and reset operations\n"), "order.emission-first", "initialization"),
    Knockout("emitter-counter-uncapped", "graphiq/solvers/evolutionary_solver.py", sub_once("                    if ind == n_used_emitter and n_used_emitter < n_emitter:", "                    if ind == n_used_emitter:"), "budget.emitter-cap", "without a cap"),
    Knockout("conversion-ops-emitter", "graphiq/backends/stabilizer/functions/local_cliff_equi_check.py", sub_once('            operations_list.append(ops_list[op_index](register=gate[1], reg_type="p"))', '            operations_list.append(ops_list[op_index](register=gate[1], reg_type="e"))'), "move.filters", "str_to_op"),
    Knockout("C5-photon-control", EVO,
             sub_once("            control=circuit.dag.edges[edge0][\"reg\"],\n            control_type=\"e\",\n            target=circuit.dag.edges[edge1][\"reg\"],\n            target_type=\"e\",",
                      "            control=circuit.dag.edges[edge0][\"reg\"],\n            control_type=\"p\",\n            target=circuit.dag.edges[edge1][\"reg\"],\n            target_type=\"e\","),
             "own.twoqubit", "control_type"),
    Knockout("C5-drop-fixed-init", EVO,
             sub_once("                noise=self._identify_noise(ops.CNOT, noise_model_mapping[\"ep\"]),\n            )\n            op.add_labels(\"Fixed\")\n",
                      "                noise=self._identify_noise(ops.CNOT, noise_model_mapping[\"ep\"]),\n            )\n"),
             "typestate.fixed", "initialization"),
    Knockout("C5-drop-fixed-trs", TRS, sub_nth("        gate.add_labels(\"Fixed\")\n", "", 0), "typestate.fixed", "_add_emitter_photon_cnot"),
    Knockout("move-remove-fixed", EVO, sub_once('get_node_exclude_labels(["Fixed", "Input", "Output"])', 'get_node_exclude_labels(["Input", "Output"])'),
             "move.filters", "remove_op"),
    Knockout("move-photon-edge-filter", EVO,
             sub_once("            if type(circuit.dag.nodes[edge[0]][\"op\"]) is ops.CNOT\n            and type(circuit.dag.nodes[edge[1]][\"op\"]) is not ops.OneQubitGateWrapper",
                      "            if type(circuit.dag.nodes[edge[1]][\"op\"]) is not ops.OneQubitGateWrapper"),
             "move.filters", "add_photon_one_qubit_op"),
    Knockout("move-no-validate", EVO, sub_once("                transformation(circuit)\n                circuit.validate()\n", "                transformation(circuit)\n"),
             "move.filters", "validate"),
    Knockout("F2-emission-before-gate", TRS,
             sub_once("        self._add_emitter_photon_cnot(circuit, emitter_index, photon_index)\n        transform.cnot_gate(tableau, self.n_photon + emitter_index, photon_index)\n",
                      "        self._add_emitter_photon_cnot(circuit, emitter_index, photon_index)\n        transform.cnot_gate(tableau, self.n_photon + emitter_index, photon_index)\n        self._add_one_qubit_gate(circuit, [ops.Hadamard], photon_index)\n"),
             "order.frontinsert", "_add_photon_absorption"),
    Knockout("F2-insert-at-output", TRS,
             sub_nth('photonic_edge = circuit.dag.out_edges(nbunch=f"p{photon_index}_in", keys=True)', 'photonic_edge = circuit.dag.in_edges(nbunch=f"p{photon_index}_out", keys=True)', 0),
             "order.frontinsert", "_add_emitter_photon_cnot"),
    Knockout("D4-trs-result", TRS, sub_once("        self.result = (score, circuit.copy())", "        self.result = (0.0, circuit.copy())"), "effect.result-provenance", "result"),
]
