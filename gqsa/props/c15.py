"""C15 — circuits reported equal are equivalent (structural clauses, DESIGN §5.15)."""
from __future__ import annotations

import ast
from typing import Dict, List, Optional, Set, Tuple

from .. import flow
from ..chains import Branch, parse_test
from ..core import (AnalysisError, Repo, call_attr, call_name, calls_in, dotted, func_params, norm, parent, qualname, short)
from ..driver import Knockout, sub_nth, sub_once
from ..report import Ctx

CMP = "graphiq/utils/circuit_comparison.py"
OPS = "graphiq/circuit/ops.py"

EXPLANATION = (
    "Static rules over graphiq/utils/circuit_comparison.py: each comparator predicate (direct's per-node test, ged's "
    "node_match, circuit_is_isomorphic's node_match) compares, symmetrically, every attribute the compilers read to build "
    "a gate — exact type, q_registers_type, params, and q_registers for the register-by-register methods (cmp.fields; "
    "`isinstance(a, type(b))` is rejected as asymmetric); the control/target edge attribute of the isomorphism method is "
    "produced for every operation class that has a control and a target (cmp.roles); every method reachable from "
    "compare_circuits normalises copies of both circuits (copy -> unwrap_nodes -> remove_identity) before comparing, so "
    "the relation is insensitive to wrapping and identity gates and does not touch its inputs (cmp.normalise); the "
    "redundancy filters delegate to these comparators on copies. Does not decide completeness (never reporting equal "
    "circuits unequal) beyond the normalisation clause.")


def _op_exprs(fn: ast.FunctionDef) -> Tuple[Set[str], Set[str]]:
    """Texts of expressions denoting 'operation 1' and 'operation 2' in a comparator."""
    a: Set[str] = set()
    b: Set[str] = set()
    ps = func_params(fn)
    for n in ast.walk(fn):
        if isinstance(n, ast.Subscript) and isinstance(n.slice, ast.Constant) and n.slice.value == "op":
            base = norm(n.value)
            # n1["op"] / circuit1.dag.nodes[node1]["op"]
            (a if "1" in base and "2" not in base else b if "2" in base and "1" not in base else a).add(norm(n))
    for n in ast.walk(fn):
        if isinstance(n, ast.Assign) and len(n.targets) == 1 and isinstance(n.targets[0], ast.Name):
            v = norm(n.value)
            if v in a:
                a.add(n.targets[0].id)
            elif v in b:
                b.add(n.targets[0].id)
    return a, b


SYMMETRIC_TWO_QUBIT = {"CZ"}      # gates whose two qubits play the same role (confirmed: ops.CZ is the unitary controlled-Z)


def compared_fields(fn: ast.FunctionDef, module=None, _depth: int = 0) -> Dict[str, List[ast.AST]]:
    """attr -> compare nodes where the same field of two different operands is compared (`a.f == b.f`, `type(a) is type(b)`,
    `tuple(a.params) != tuple(b.params)`); 'helper:<attr>' when the comparison is delegated to helper(a.f, b.f); 'isinstance' for the
    asymmetric isinstance(a, type(b)).  Operands are recognised by shape (the two sides are the same expression over two different
    names), not by how they were obtained, so a lock-step loop over zip(...) is read like an indexed walk."""
    from ..boolform import _pair_field
    import re as _re
    out: Dict[str, List[ast.AST]] = {}

    def field_of(pf: str) -> Optional[str]:
        t = pf
        while True:
            m_ = _re.fullmatch(r"(tuple|list)\((.*)\)", t)
            if not m_:
                break
            t = m_.group(2)
        if _re.fullmatch(r"type\(@(\[.*\])?\)", t) or t.endswith(".__class__"):
            return "type"
        m_ = _re.fullmatch(r"@(\[.*\])?\.(\w+)", t)
        return m_.group(2) if m_ else None
    from ..core import expand as _expand
    for n in ast.walk(fn):
        if isinstance(n, ast.Compare):
            items = [n.left] + list(n.comparators)
            for x, y, op in zip(items, items[1:], n.ops):
                if isinstance(op, (ast.Eq, ast.NotEq, ast.Is, ast.IsNot)):
                    pf = _pair_field(x, y)
                    f = field_of(pf) if pf else None
                    if f:
                        out.setdefault(f, []).append(n)
                    elif pf is not None:
                        # the two sides may be named intermediates, possibly several fields zipped together, possibly sorted
                        pf2 = pf
                        if _re.fullmatch(r"(\w+\()*@(\[[^\]]*\])*\)*", pf):      # bare names (possibly wrapped): look at what they name
                            pf2 = _pair_field(_expand(fn, x, 1), _expand(fn, y, 1)) or pf
                        if pf2:
                            unordered = bool(_re.match(r"(sorted|set|frozenset)\(", pf2))
                            for fm in _re.finditer(r"@(\[[^\]]*\])?\.(\w+)", pf2):
                                out.setdefault(fm.group(2), []).append(n)
                                if unordered:
                                    out.setdefault("unordered:" + fm.group(2), []).append(n)
        if module is not None and _depth < 2 and isinstance(n, ast.Call) and isinstance(n.func, ast.Name) and len(n.args) == 2 and not n.keywords:
            pfw = _pair_field(n.args[0], n.args[1])
            if pfw is not None and _re.fullmatch(r"@(\[[^\]]*\])?", pfw):
                hf = module.find(n.func.id)
                if isinstance(hf, ast.FunctionDef):
                    # both operands handed whole to a helper of the module: the helper's own comparisons count
                    for k_, v_ in compared_fields(hf, module, _depth + 1).items():
                        out.setdefault(k_, []).extend(v_)
        if isinstance(n, ast.Call) and isinstance(n.func, ast.Name) and n.func.id not in ("isinstance", "tuple", "list", "zip", "type") and len(n.args) >= 2:
            pf = _pair_field(n.args[0], n.args[1])
            f = field_of(pf) if pf else None
            if f:
                out.setdefault("helper:" + f, []).append(n)
        if isinstance(n, ast.Call) and isinstance(n.func, ast.Name) and n.func.id == "isinstance" and len(n.args) == 2:
            x, y = n.args
            if isinstance(y, ast.Call) and isinstance(y.func, ast.Name) and y.func.id == "type" and len(y.args) == 1 and norm(x) != norm(y.args[0]) \
                    and _pair_field(x, y.args[0]) is not None:
                out.setdefault("isinstance", []).append(n)
    return out


COMPARATORS = [
    ("direct", "direct", True),
    ("ged.node_match", "ged", True),
    ("circuit_is_isomorphic.node_match", "circuit_is_isomorphic", False),
]


def rule_cmp_fields(ctx: Ctx) -> None:
    repo = ctx.repo
    m = repo.module(CMP)
    for q, label, by_register in COMPARATORS:
        fn = repo.anchor(CMP, q)
        ctx.touch(m, fn)
        got = compared_fields(fn, m)
        need = ["type", "q_registers_type", "params"] + (["q_registers"] if by_register else [])
        # registers compared as an unordered collection (sorted / set) forget which register is the control: allowed only under a class guard
        # that names gates symmetric in their two qubits — the unitary CZ, nothing that measures its control
        for f in ("q_registers", "q_registers_type"):
            for cmp_ in got.get("unordered:" + f, []):
                guard = None
                q_ = cmp_
                while parent(q_) is not None and not isinstance(q_, ast.FunctionDef):
                    pq = parent(q_)
                    if isinstance(pq, ast.If) and any(q_ is b for b in pq.body) and isinstance(pq.test, ast.Call) and call_name(pq.test) == "isinstance" and len(pq.test.args) == 2:
                        guard = pq.test.args[1]
                    q_ = pq
                classes = [norm(e).split(".")[-1] for e in (guard.elts if isinstance(guard, ast.Tuple) else [guard])] if guard is not None else None
                if classes is None or any(c_ not in SYMMETRIC_TWO_QUBIT for c_ in classes):
                    ctx.fail("cmp.fields", m, cmp_,
                             f"{q} compares `{f}` as an unordered collection (`{short(cmp_, 60)}`)" + (f" for {classes}" if classes else " for every operation") +
                             f": that is right only for gates symmetric in their two qubits ({sorted(SYMMETRIC_TWO_QUBIT)}); an operation that measures or conditions on "
                             f"its control (ClassicalCZ, CNOT, ...) with control and target exchanged is a different operation and would compare equal",
                             func=q, construct=f"{q}: {f} compared without order")
        for f in need:
            if f in got:
                ctx.ok("cmp.fields", m, got[f][0], what=f"{q}: compares {f}")
            elif "helper:" + f in got:
                call = got["helper:" + f][0]
                h = repo.try_anchor(CMP, call.func.id)
                if not isinstance(h, ast.FunctionDef):
                    raise AnalysisError(f"{q}: helper `{call.func.id}` comparing `{f}` not found in the module")
                hp = func_params(h)[:2]
                approx = [x for x in ast.walk(h) if (isinstance(x, ast.BinOp) and isinstance(x.op, ast.Mod))
                          or (isinstance(x, ast.Call) and (call_attr(x) or call_name(x) or "").split(".")[-1] in ("isclose", "allclose", "mod", "remainder", "fmod", "round", "around", "rint"))
                          or (isinstance(x, ast.Compare) and any(isinstance(o, (ast.Lt, ast.LtE, ast.Gt, ast.GtE)) for o in x.ops)
                              and not any(isinstance(y, ast.Call) and call_name(y) == "len" for y in ast.walk(x)))]
                exact = [x for x in ast.walk(h) if (isinstance(x, ast.Compare) and len(x.ops) == 1 and isinstance(x.ops[0], (ast.Eq, ast.NotEq))
                                                    and {hp[0], hp[1]} <= {y.id for y in ast.walk(x) if isinstance(y, ast.Name)})
                         or (isinstance(x, ast.Call) and (call_attr(x) or "") in ("array_equal",))]
                if approx:
                    ctx.fail("cmp.fields", m, call,
                             f"{q} compares `{f}` through {call.func.id}(), which matches them only approximately (`{short(approx[0], 50)}`): gates whose "
                             f"parameters differ (by a full turn, say — U(theta + 2 pi) = -U(theta), a relative phase once the gate is controlled) are "
                             f"treated as the same gate", func=q, construct=f"{q}: field {f} compared approximately / modulo")
                elif exact:
                    ctx.ok("cmp.fields", m, call, what=f"{q}: compares {f} exactly through {call.func.id}()")
                else:
                    raise AnalysisError(f"{q}: helper `{call.func.id}` comparing `{f}` not classified")
            elif f == "type" and "isinstance" in got:
                ctx.fail("cmp.fields", m, got["isinstance"][0],
                         f"{q} compares operation types with `{short(got['isinstance'][0])}`, which is asymmetric: for a subclass pair "
                         f"compare(a, b) != compare(b, a); an exact, symmetric type comparison is required",
                         func=q, construct=f"{q}: asymmetric isinstance type test")
            else:
                why = {"params": "two parameterised gates with different angles compare equal although the density-matrix compiler "
                                 "passes op.params to the gate matrix",
                       "q_registers": "gates on different registers would compare equal",
                       "q_registers_type": "emitter and photon gates would compare equal",
                       "type": "different gate types would compare equal"}[f]
                ctx.fail("cmp.fields", m, fn, f"{q} never compares `{f}` of the two operations: {why}",
                         func=q, construct=f"{q}: field {f} not compared")


def rule_cmp_roles(ctx: Ctx) -> None:
    repo = ctx.repo
    m = repo.module(CMP)
    fn = repo.anchor(CMP, "_create_edge_control_target_attr")
    ctx.touch(m, fn)
    opm = repo.module(OPS)
    # classes that define both control and target in their own __init__
    two = []
    for lst in repo.classes.values():
        for ci in lst:
            if ci.module.rel != OPS:
                continue
            init = ci.methods().get("__init__")
            if init is None:
                continue
            st = {n.attr for n in ast.walk(init) if isinstance(n, ast.Attribute) and isinstance(n.ctx, ast.Store)
                  and isinstance(n.value, ast.Name) and n.value.id == "self"}
            if {"control", "target"} <= st:
                two.append(ci)
    if len(two) < 2:
        raise AnalysisError("cmp.roles: classes with control and target not found in ops.py")
    covered: Set[str] = set()
    opn = func_params(fn)[0]
    for n in ast.walk(fn):
        if isinstance(n, ast.If):
            b = Branch(n.test, n.body, n)
            if parse_test(repo, m, n.test, b) and b.subject == opn:
                covered |= b.classes(repo)
    for ci in two:
        if ci.key in covered:
            ctx.ok_abstract("cmp.roles", f"control/target edge attribute produced for {ci.name}")
        else:
            ctx.fail("cmp.roles", m, fn,
                     f"_create_edge_control_target_attr produces no 'c'/'t' edge attribute for {ci.name} operations, so the "
                     f"isomorphism method cannot tell their control from their target (two inequivalent circuits compare equal)",
                     func="_create_edge_control_target_attr", construct=f"edge roles: {ci.name} not covered")


def rule_cmp_multiedge(ctx: Ctx) -> None:
    """cmp.multiedge: the circuit DAG is a multigraph — two gates sharing two registers are joined by two parallel edges.
    edge_match must compare all of them, and the edge attribute must carry the register's role at BOTH ends of the edge,
    otherwise the second of two consecutive two-qubit gates can be flipped without the comparison noticing."""
    repo = ctx.repo
    m = repo.module(CMP)
    fn = repo.anchor(CMP, "circuit_is_isomorphic.edge_match")
    ctx.touch(m, fn)
    e1, e2 = func_params(fn)[:2]
    first_only = [n for n in ast.walk(fn) if isinstance(n, ast.Call) and isinstance(n.func, ast.Name) and n.func.id == "next"
                  and n.args and isinstance(n.args[0], ast.Call) and isinstance(n.args[0].func, ast.Name) and n.args[0].func.id == "iter"]
    all_of = {e: any(isinstance(n, ast.Call) and call_attr(n) in ("values", "items") and norm(n.func.value) == e for n in ast.walk(fn))
              for e in (e1, e2)}
    if first_only or not all(all_of.values()):
        ctx.fail("cmp.multiedge", m, first_only[0] if first_only else fn,
                 "edge_match inspects only the first of the parallel edges between two operations (`next(iter(e))`); two gates that share two "
                 "registers are joined by two edges, so the roles on the second edge are never compared", func="circuit_is_isomorphic.edge_match",
                 construct="edge_match: first parallel edge only")
    else:
        ctx.ok("cmp.multiedge", m, fn, what="edge_match compares all parallel edges")
    # the reader keeps each edge's (role at source, role at destination) pair together: flattening the pairs into single roles makes
    # ('c','t') and ('t','c') — a two-qubit gate and the same gate reversed — indistinguishable
    flat = []
    for comp in [x for x in ast.walk(fn) if isinstance(x, (ast.ListComp, ast.GeneratorExp, ast.SetComp))]:
        for g in comp.generators:
            if isinstance(g.iter, ast.Subscript) and isinstance(g.iter.slice, ast.Constant) and g.iter.slice.value == "control_target":
                flat.append(g.iter)
    single = [x for x in ast.walk(fn) if isinstance(x, ast.Subscript) and isinstance(x.value, ast.Subscript) and isinstance(x.value.slice, ast.Constant)
              and x.value.slice.value == "control_target" and isinstance(x.slice, ast.Constant)]
    if flat or (single and len({x.slice.value for x in single}) < 2):
        site = (flat or single)[0]
        ctx.fail("cmp.multiedge", m, site,
                 f"edge_match takes the `control_target` attribute apart (`{short(site, 60)}`) and compares single roles: the attribute is the pair "
                 f"(role at the source operation, role at the destination operation) of one edge, and only pairs tell CNOT(a,b);CNOT(b,a) from "
                 f"CNOT(a,b);CNOT(a,b)", func="circuit_is_isomorphic.edge_match", construct="edge_match: role pairs flattened")
    else:
        ctx.ok("cmp.multiedge", m, fn, what="edge_match compares each edge's role pair as a unit")
    # the verdict is a full isomorphism of the two annotated DAGs — not a sub-graph match (a circuit plus idle registers would "equal" it)
    ci_ = repo.anchor(CMP, "circuit_is_isomorphic")
    verdicts = [r.value for r in ci_.body if isinstance(r, ast.Return) and r.value is not None]
    if verdicts:
        v_ = verdicts[-1]
        names_ = {(call_attr(c) or getattr(c.func, "id", "")) for c in ast.walk(v_) if isinstance(c, ast.Call)}
        if "is_isomorphic" in names_:
            ctx.ok("cmp.multiedge", m, v_, what="verdict = is_isomorphic of the two DAGs")
        elif names_ & {"subgraph_is_isomorphic", "subgraph_is_monomorphic", "could_be_isomorphic", "fast_could_be_isomorphic", "faster_could_be_isomorphic"}:
            ctx.fail("cmp.multiedge", m, v_, f"circuit_is_isomorphic answers with `{short(v_)}`: a sub-graph (or a necessary-condition) match also holds "
                     f"between a circuit and a strictly smaller / different one, so inequivalent circuits compare equal and the verdict is not symmetric",
                     func="circuit_is_isomorphic", construct="circuit_is_isomorphic: verdict is not a full isomorphism")
        else:
            raise AnalysisError(f"circuit_is_isomorphic: verdict `{short(v_)}` not recognised")
    ad = repo.anchor(CMP, "add_control_target_to_dag")
    ctx.touch(m, ad)
    env = {}
    for n in ast.walk(ad):
        if isinstance(n, ast.Assign) and len(n.targets) == 1 and isinstance(n.targets[0], ast.Name):
            env.setdefault(n.targets[0].id, []).append(n.value)
    stores = [n for n in ast.walk(ad) if isinstance(n, ast.Assign) and isinstance(n.targets[0], ast.Subscript)
              and isinstance(n.targets[0].slice, ast.Constant) and n.targets[0].slice.value == "control_target"]
    if not stores:
        raise AnalysisError("add_control_target_to_dag: no control_target store")
    for st in stores:
        vals = env.get(norm(st.value), [st.value]) if isinstance(st.value, ast.Name) else [st.value]
        # the assignment that precedes this store
        v = max((x for x in vals if getattr(x, "lineno", 0) <= st.lineno), key=lambda x: x.lineno, default=vals[-1])
        two = isinstance(v, ast.Tuple) and len(v.elts) == 2

        def is_role(e):
            if isinstance(e, ast.Constant) and e.value is None:
                return True
            if isinstance(e, ast.Call) and call_attr(e) == "_create_edge_control_target_attr":
                return True
            if isinstance(e, ast.Name):
                return any(isinstance(x, ast.Call) and call_attr(x) == "_create_edge_control_target_attr" for x in env.get(e.id, []))
            return False

        if two and all(is_role(e) for e in v.elts) and not all(isinstance(e, ast.Constant) for e in v.elts):
            ctx.ok("cmp.multiedge", m, st, what="edge attribute = (role at source operation, role at target operation)")
        else:
            ctx.fail("cmp.multiedge", m, st,
                     f"the control_target attribute of an edge is `{short(v, 80)}`; it must record the register's role in BOTH operations the edge "
                     f"joins, otherwise CNOT(a,b);CNOT(a,b) and CNOT(a,b);CNOT(b,a) have the same multiset of edge roles",
                     func="add_control_target_to_dag", construct=f"add_control_target_to_dag: attribute {short(v, 60)}")


def _step_loop(fn):
    """the innermost loop of direct() that contains the `return False` of the per-step comparison (a while walk or a for over zip)"""
    rets = [r for r in ast.walk(fn) if isinstance(r, ast.Return) and isinstance(r.value, ast.Constant) and r.value.value is False]
    for r in rets:
        p_ = parent(r)
        while p_ is not None and p_ is not fn:
            if isinstance(p_, (ast.While, ast.For)):
                return p_
            p_ = parent(p_)
    raise AnalysisError("direct(): the lock-step walk was not found")


def rule_cmp_every_step(ctx: Ctx) -> None:
    """cmp.every-step: direct() walks every register wire of both circuits in lock step and answers False at the first position where
    the two operations differ.  Every step of the walk must reach that comparison: a `continue` / early exit that skips it for some
    kind of operation means the *order* of such operations along the wire is no longer compared."""
    repo = ctx.repo
    m = repo.module(CMP)
    fn = repo.anchor(CMP, "direct")
    ctx.touch(m, fn)
    w = _step_loop(fn)
    cmp_ifs = [i for i in ast.walk(w) if isinstance(i, ast.If) and any(isinstance(r, ast.Return) and isinstance(r.value, ast.Constant) and r.value.value is False
                                                                        for r in ast.walk(i))]
    if not cmp_ifs:
        raise AnalysisError("direct(): the per-step comparison was not found")
    target = cmp_ifs[0]
    ok = flow.must_pass(w.body, lambda node: node is target.test)
    if ok:
        ctx.ok("cmp.every-step", m, target, what="every step of the wire walk reaches the comparison")
    else:
        skip = next((x for x in ast.walk(w) if isinstance(x, (ast.Continue, ast.Break)) ), None)
        ctx.fail("cmp.every-step", m, skip or target,
                 "direct() has a path through the wire walk that does not compare the two operations at that position"
                 + (f" (`{short(skip)}` at line {skip.lineno})" if skip is not None else "") +
                 ": operations skipped there can be re-ordered along the wire without the comparison noticing (two CNOTs with different controls "
                 "on one target, with a Hadamard between them)", func="direct", construct="direct: a step of the walk skips the comparison")


def _decision_check(ctx, m, label, tb, run, required, node, reject_is, func):
    """table properties of a comparator step: all pair fields equal -> accepted; a required field unequal -> rejected; making a field
    unequal never turns a rejection into an acceptance"""
    pair = {k: a.pair for k, a in tb.atoms.items() if a.pair is not None}
    if not pair:
        raise AnalysisError(f"{label}: no field comparison between the two operands found")

    def rejected(a):
        return reject_is(run(a))
    problems = []
    req_keys = {}
    for want in required:
        ks = [k for k, pf in pair.items() if (pf == want or pf.endswith(want) or want in pf) and not (want == "@.q_registers" and "q_registers_type" in pf)]
        if not ks:
            # delegated to a helper of the module that receives both operations whole and compares that field itself
            fld = want.split(".")[-1]
            for k, pf in pair.items():
                if pf.startswith("helper:"):
                    hf = m.find(pf.split(":", 1)[1])
                    if isinstance(hf, ast.FunctionDef) and fld in compared_fields(hf, m):
                        ks = [k]
                        break
        if not ks:
            problems.append(f"the `{want.replace('@', '<op>')}` of the two operations is never compared")
        else:
            req_keys[want] = ks[0]
    rows = list(tb.rows())
    for a in rows:
        if all(a[k] for k in pair) and rejected(a):
            problems.append("two operations that agree in every compared field are still told apart")
            break
    for want, k in req_keys.items():
        if any((not a[k]) and not rejected(a) for a in rows):
            problems.append(f"a difference in `{want.replace('@', '<op>')}` is accepted (for some combination of the other fields)")
    mono_bad = False
    for a in rows:
        if rejected(a):
            for k in pair:
                if a[k]:
                    b = dict(a)
                    b[k] = False
                    if not rejected(b):
                        mono_bad = True
    if mono_bad:
        problems.append("making one more field differ turns a mismatch into a match (a comparison has the wrong polarity)")
    # a compared field that differs is a mismatch whenever the guards around its comparison hold
    others = [k for k in tb.atoms if k not in pair]
    for k, pf in pair.items():
        for a in rows:
            if not a[k] and all(a[o] for o in others) and not rejected(a):
                problems.append(f"a difference in `{pf.replace('@', '<op>')}` alone is accepted")
                break
    if problems:
        ctx.fail("cmp.decision", m, node, f"{label}: " + "; ".join(dict.fromkeys(problems)), func=func, construct=f"{label}: decision table")
    else:
        ctx.ok("cmp.decision", m, node, what=f"{label}: {len(rows)} rows over {len(tb.atoms)} atoms")


def rule_cmp_decision(ctx: Ctx) -> None:
    """cmp.decision: the boolean structure of the comparators, decided on their truth tables (gqsa/boolform.py): the per-step comparison
    of direct(), its size precheck, and node_match of the isomorphism method accept exactly when every compared field agrees."""
    from ..boolform import Table, Undecidable
    repo = ctx.repo
    m = repo.module(CMP)
    # ---- direct(): per-step comparison
    fn = repo.anchor(CMP, "direct")
    ctx.touch(m, fn)
    w = _step_loop(fn)
    tb = Table()
    try:
        run = tb.outcomes([s_ for s_ in w.body if not isinstance(s_, (ast.For, ast.While))])
        _decision_check(ctx, m, "direct() step", tb, run, ["type(@)", "@.q_registers_type", "@.q_registers", "params"], w,
                        lambda r: r == ("return", False), "direct")
    except Undecidable as e:
        raise AnalysisError(f"direct(): step comparison not decidable ({e})")
    # ---- direct(): size precheck
    top = next((i for i in fn.body if isinstance(i, ast.If) and any(x is w for x in ast.walk(i))), None)
    if top is not None:
        tb2 = Table()
        env = {}
        for a in fn.body:
            if isinstance(a, ast.Assign) and len(a.targets) == 1 and isinstance(a.targets[0], ast.Name) and isinstance(a.value, (ast.Compare, ast.BoolOp)):
                env[a.targets[0].id] = tb2.formula(a.value, env)
        f = tb2.formula(top.test, env)
        pair = [k for k, a in tb2.atoms.items() if a.pair is not None]
        in_body = any(x is w for b_ in top.body for x in ast.walk(b_))
        other = top.orelse if in_body else top.body
        else_false = bool(other) and any(isinstance(r, ast.Return) and isinstance(r.value, ast.Constant) and r.value.value is False for b_ in other for r in ast.walk(b_))
        okp = bool(pair) and all((f(a) if in_body else not f(a)) == all(a[k] for k in pair) for a in tb2.rows()) and else_false
        if okp:
            ctx.ok("cmp.decision", m, top.test, what="direct(): walk entered only when register counts and node counts agree, else False")
        else:
            ctx.fail("cmp.decision", m, top.test, f"direct(): the precheck `{short(top.test)}` does not require both circuits to have the same registers and the same "
                     f"number of nodes (or the other branch does not answer False)", func="direct", construct="direct: precheck decision")
    # ---- node_match
    nm = repo.anchor(CMP, "circuit_is_isomorphic.node_match")
    ctx.touch(m, nm)
    tb3 = Table()
    try:
        run3 = tb3.outcomes(nm.body)
        _decision_check(ctx, m, "node_match", tb3, run3, ["type(@)", "@.q_registers_type", "params"], nm,
                        lambda r: r != ("return", True), "circuit_is_isomorphic.node_match")
    except Undecidable as e:
        raise AnalysisError(f"node_match: not decidable ({e})")


def rule_cmp_walk_edge(ctx: Ctx) -> None:
    """cmp.walk-edge: direct() advances along a register's wire in both circuits by taking the head (element 1) of the out-edge whose
    key is that register (`edge[2] == reg`); and edge_match accepts exactly when the two role lists are equal."""
    from ..boolform import Table
    repo = ctx.repo
    m = repo.module(CMP)
    fn = repo.anchor(CMP, "direct")
    w = _step_loop(fn)
    # the walked register's key: a local built as an f-string of the Input operation's reg_type and register
    regnames = {a.targets[0].id for a in ast.walk(fn) if isinstance(a, ast.Assign) and len(a.targets) == 1 and isinstance(a.targets[0], ast.Name)
                and isinstance(a.value, ast.JoinedStr) and "reg_type" in norm(a.value) and "register" in norm(a.value)}
    comps = [a for a in w.body if isinstance(a, ast.Assign) and isinstance(a.value, ast.ListComp)]
    steps = [a for a in w.body if isinstance(a, ast.Assign) and isinstance(a.value, ast.Subscript) and isinstance(a.value.value, ast.Subscript)]
    if len(comps) != 2 or len(steps) < 2:
        raise AnalysisError("direct(): the two out-edge selections / node advances were not found")
    for c in comps:
        g = c.value.generators[0]
        keyed = any(isinstance(t, ast.Compare) and len(t.ops) == 1 and isinstance(t.ops[0], ast.Eq) and
                    f"{norm(g.target)}[2]" in (norm(t.left), norm(t.comparators[0])) and any(
                        isinstance(x_, ast.Name) and x_.id in regnames for x_ in (t.left, t.comparators[0])) for t in g.ifs)
        src_ok = any(isinstance(x, ast.Call) and call_attr(x) == "out_edges" for x in ast.walk(g.iter))
        if keyed and src_ok and len(g.ifs) == 1:
            ctx.ok("cmp.walk-edge", m, c, what="out-edge selected by key == reg")
        else:
            ctx.fail("cmp.walk-edge", m, c, f"direct() selects the next edge with `{short(c.value, 90)}`: it must be the out-edge whose key is the walked register",
                     func="direct", construct="direct: edge selection")
    for a in steps[:2]:
        v = a.value
        if norm(v.slice) == "1" and norm(v.value.slice) == "0":
            ctx.ok("cmp.walk-edge", m, a, what="advance to the head of the first matching edge")
        else:
            ctx.fail("cmp.walk-edge", m, a, f"direct() advances with `{short(a)}`: the next node is element 1 (the head) of the first matching out-edge", func="direct",
                     construct="direct: node advance")
    em = repo.anchor(CMP, "circuit_is_isomorphic.edge_match")
    tb = Table()
    run = tb.outcomes(em.body)
    _decision_check(ctx, m, "edge_match", tb, run, ["@"], em, lambda r: r != ("return", True), "circuit_is_isomorphic.edge_match")


NORMALISERS = ("unwrap_nodes", "remove_identity")


def _normalises(repo: Repo, fn: ast.FunctionDef) -> Tuple[bool, List[str]]:
    """Does ``fn`` normalise copies of its first two parameters on every path before comparing?"""
    p1, p2 = func_params(fn)[:2]
    problems: List[str] = []
    # parameter rebinding to a copy (circuit1 = circuit1.copy()) or a fresh local bound to param.copy()
    fresh: Dict[str, str] = {}
    for st in fn.body:
        if isinstance(st, ast.Assign) and isinstance(st.value, ast.Call) and call_attr(st.value) == "copy" \
                and isinstance(st.targets[0], ast.Name) and isinstance(st.value.func, ast.Attribute):
            src = norm(st.value.func.value)
            if src in (p1, p2):
                fresh[st.targets[0].id] = src
    # X = helper(param): a module-level helper that copies its argument, expands the wrappers, then drops the identities, and returns the copy
    mod = repo.module(CMP)
    via_helper: Dict[str, str] = {}
    for st in fn.body:
        if isinstance(st, ast.Assign) and isinstance(st.value, ast.Call) and isinstance(st.value.func, ast.Name) and isinstance(st.targets[0], ast.Name) \
                and len(st.value.args) == 1 and norm(st.value.args[0]) in (p1, p2):
            hf = mod.find(st.value.func.id)
            if isinstance(hf, ast.FunctionDef) and len(func_params(hf)) == 1:
                q = func_params(hf)[0]
                cp = [a for a in hf.body if isinstance(a, ast.Assign) and isinstance(a.value, ast.Call) and call_attr(a.value) == "copy"
                      and isinstance(a.value.func, ast.Attribute) and norm(a.value.func.value) == q and isinstance(a.targets[0], ast.Name)]
                if not cp:
                    continue
                cn = cp[0].targets[0].id
                pos = {}
                for k_, hs in enumerate(hf.body):
                    for c in ast.walk(hs):
                        if isinstance(c, ast.Call) and call_attr(c) in NORMALISERS and isinstance(c.func, ast.Attribute) and norm(c.func.value) == cn and not isinstance(hs, (ast.If, ast.For, ast.While)):
                            pos.setdefault(call_attr(c), k_)
                rets = [r for r in ast.walk(hf) if isinstance(r, ast.Return)]
                src = norm(st.value.args[0])
                if not (len(rets) == 1 and rets[0].value is not None and norm(rets[0].value) == cn):
                    continue
                via_helper[st.targets[0].id] = src
                if set(pos) != set(NORMALISERS):
                    problems.append(f"helper {hf.name}() does not apply {[n_ for n_ in NORMALISERS if n_ not in pos]} to its copy")
                elif pos["unwrap_nodes"] > pos["remove_identity"]:
                    problems.append(f"helper {hf.name}() removes the identities before it expands the wrappers: an Identity inside a OneQubitGateWrapper only becomes a "
                                    f"node when the wrapper is unwrapped, so it survives the normalisation and `W[H, I, S]` compares different from `H, S`")
    for p in (p1, p2):
        if any(v == p for v in via_helper.values()):
            continue
        names = [k for k, v in fresh.items() if v == p]
        if not names:
            problems.append(f"`{p}` is never copied")
            continue
        # inline form: the wrappers are expanded before the identities are dropped
        order_ = {}
        for k_, st in enumerate(fn.body):
            for c in ast.walk(st):
                if isinstance(c, ast.Call) and call_attr(c) in NORMALISERS and isinstance(c.func, ast.Attribute) and norm(c.func.value) in names:
                    order_.setdefault(call_attr(c), k_)
        if set(order_) == set(NORMALISERS) and order_["unwrap_nodes"] > order_["remove_identity"]:
            problems.append(f"the copy of `{p}` has its identities removed before its wrappers are expanded (an Identity inside a wrapper survives)")
        for nm in NORMALISERS:
            ok = flow.must_pass(fn.body, lambda node, nm=nm, names=names: not isinstance(node, (ast.If, ast.For, ast.While)) and any(
                isinstance(c, ast.Call) and call_attr(c) == nm and isinstance(c.func, ast.Attribute) and norm(c.func.value) in names
                for c in ast.walk(node)))
            if not ok:
                problems.append(f"{nm}() is not applied to a copy of `{p}` on every path")
    for c in calls_in(fn):
        if call_attr(c) in NORMALISERS + ("add_control_target_to_dag",) :
            recv = c.args[0] if call_attr(c) == "add_control_target_to_dag" and c.args else (c.func.value if isinstance(c.func, ast.Attribute) else None)
            if recv is not None and isinstance(recv, ast.Name) and recv.id in (p1, p2) and recv.id not in fresh:
                problems.append(f"`{short(c)}` rewrites / annotates the caller's own circuit `{recv.id}`")
    return (not problems), problems


def rule_cmp_normalise(ctx: Ctx) -> None:
    repo = ctx.repo
    m = repo.module(CMP)
    cc = repo.anchor(CMP, "compare_circuits")
    ctx.touch(m, cc)
    targets = []
    for r in [n for n in ast.walk(cc) if isinstance(n, ast.Return) and isinstance(n.value, ast.Call)]:
        name = call_attr(r.value)
        f = m.find(name)
        if not isinstance(f, ast.FunctionDef):
            raise AnalysisError(f"compare_circuits: method function `{name}` not found")
        targets.append(f)
    if len(targets) < 4:
        raise AnalysisError("compare_circuits: fewer than four comparison methods found")
    done: Set[str] = set()
    for f in targets:
        if f.name in done:
            continue
        done.add(f.name)
        # a thin wrapper that forwards both circuits unchanged to another comparator (ged_adaptive -> ged) is judged by its callee
        fw = [c for c in calls_in(f) if isinstance(m.find(call_attr(c) or ""), ast.FunctionDef) and len(c.args) >= 2
              and [norm(a) for a in c.args[:2]] == func_params(f)[:2] and call_attr(c) in {t.name for t in targets} | {"ged"}]
        ok, problems = _normalises(repo, f)
        if not ok and fw:
            inner = m.find(call_attr(fw[0]))
            ok, problems = _normalises(repo, inner)
        if ok:
            ctx.ok("cmp.normalise", m, f, what=f"{f.name}: compares normalised copies")
        else:
            ctx.fail("cmp.normalise", m, f,
                     f"comparison method `{f.name}` (reachable from compare_circuits / CircuitDAG.compare) does not compare normalised "
                     f"copies: " + "; ".join(problems) + " — the relation is then sensitive to wrapping / identity gates or touches its inputs",
                     func=f.name, construct=f"{f.name}: " + "; ".join(sorted(set(problems))))
    # the redundancy filters work on copies and delegate to the comparators
    for q in ("remove_redundant_circuits", "check_redundant_circuit"):
        f = repo.anchor(CMP, q)
        ctx.touch(m, f)
        params = set(func_params(f))
        delegated = [c for c in calls_in(f) if call_attr(c) in ("circuit_is_isomorphic", "compare_circuits", "direct")]
        fresh = {n.targets[0].id for n in ast.walk(f) if isinstance(n, ast.Assign) and isinstance(n.targets[0], ast.Name)
                 and isinstance(n.value, ast.Call) and call_attr(n.value) in ("copy", "deepcopy")}
        bad = [c for c in calls_in(f) if call_attr(c) in NORMALISERS and isinstance(c.func, ast.Attribute)
               and not (isinstance(c.func.value, ast.Name) and c.func.value.id in fresh)]
        if delegated and not bad:
            ctx.ok("cmp.normalise", m, f, what=f"{q}: delegates on copies")
        else:
            ctx.fail("cmp.normalise", m, f, f"{q} " + ("rewrites a stored / input circuit in place" if bad else "does not delegate to a comparator"),
                     func=q)


def _relations(n: int):
    """all reflexive symmetric relations on range(n) (the comparison need not be transitive: `ged` is bounded, `direct` is per register)"""
    import itertools
    pairs = [(i, j) for i in range(n) for j in range(i + 1, n)]
    for bits in itertools.product((False, True), repeat=len(pairs)):
        yield {p for p, b in zip(pairs, bits) if b}


def rule_dedup_model(ctx: Ctx) -> None:
    """dedup.model: remove_redundant_circuits and CircuitStorage.add_new_circuit / is_redundant interpreted (gqsa/minterp.py) for every
    list of up to four circuits and every reflexive symmetric "reported equal" relation among them (the comparators answer from the
    relation; copy / unwrap / remove_identity are neutral in the model).  Afterwards the kept circuits are input circuits in input order,
    and every circuit that was dropped or refused is reported equal to one that is kept — the clause of the property: a circuit that is
    inequivalent to everything kept is never discarded."""
    from .. import minterp
    repo = ctx.repo
    m = repo.module(CMP)
    NEUTRAL = {"unwrap_nodes", "remove_identity"}
    COMPARATORS = {"circuit_is_isomorphic", "compare_circuits", "check_redundant_circuit", "direct"}

    def is_circ(v):
        return isinstance(v, tuple) and len(v) == 2 and v[0] == "circuit"

    def make_oracle(rel, inline):
        def oracle(c, it):
            a = call_attr(c)
            if isinstance(c.func, ast.Attribute) and a in NEUTRAL | {"copy"}:
                try:
                    recv = it.ev(c.func.value)
                except minterp.Unmodelled:
                    return NotImplemented
                if is_circ(recv):
                    return recv if a == "copy" else None
                return NotImplemented
            fn_v = None
            if isinstance(c.func, ast.Name) and c.func.id in it.env:
                fn_v = it.env[c.func.id]
            elif isinstance(c.func, ast.Attribute) and norm(c.func) in it.env:
                fn_v = it.env[norm(c.func)]
            if (a in COMPARATORS and not isinstance(c.func, ast.Attribute)) or (isinstance(c.func, ast.Name) and c.func.id in COMPARATORS) or fn_v == "<comparator>":
                args = [it.ev(x) for x in c.args[:2]]
                if len(args) != 2 or not all(is_circ(x) for x in args):
                    raise minterp.Unmodelled(f"comparator call `{norm(c)[:50]}` on something that is not two circuits")
                i, j = args[0][1], args[1][1]
                return i == j or (min(i, j), max(i, j)) in rel
            if isinstance(c.func, ast.Attribute) and norm(c.func.value) == "self" and a in inline:
                f = inline[a]
                ps = func_params(f)[1:]
                sub_env = {k: v for k, v in it.env.items() if k.startswith("self.")}
                for p_, x in zip(ps, c.args):
                    sub_env[p_] = it.ev(x)
                sub = minterp.Interp(sub_env, oracle, it.budget)
                try:
                    sub.run(f.body)
                    out = None
                except minterp.Return as r:
                    out = r.value
                for k, v in sub_env.items():
                    if k.startswith("self."):
                        it.env[k] = v
                return out
            return NotImplemented
        return oracle

    # --- remove_redundant_circuits
    fn = repo.anchor(CMP, "remove_redundant_circuits")
    ctx.touch(m, fn)
    P = func_params(fn)[0]
    n_models = 0
    bad = None
    for n in range(0, 5):
        for rel in _relations(n):
            n_models += 1
            env = {P: [("circuit", k) for k in range(n)]}
            it = minterp.Interp(env, make_oracle(rel, {}))
            try:
                it.run(fn.body)
                out = None
            except minterp.Return as r:
                out = r.value
            except minterp.Unmodelled as e:
                raise AnalysisError(f"remove_redundant_circuits: a construct the list model does not cover: {e}")
            except minterp.ModelError as e:
                bad = f"fails ({e})"
                break
            if not isinstance(out, list) or not all(is_circ(x) for x in out):
                bad = "does not return a list of circuits"
                break
            kept = [x[1] for x in out]
            if kept != sorted(set(kept)) or any(k >= n for k in kept):
                bad = f"returns circuits {kept}: not a sub-list of its input in input order"
                break
            lost = [k for k in range(n) if k not in kept and not any((min(k, q), max(k, q)) in rel for q in kept)]
            if lost:
                bad = f"drops circuit {lost[0]} although it is not reported equal to any circuit kept ({kept}); reported-equal pairs {sorted(rel)}"
                break
        if bad:
            break
    if bad:
        ctx.fail("dedup.model", m, fn, f"remove_redundant_circuits, list of {n} circuits: {bad}", func="remove_redundant_circuits",
                 construct="remove_redundant_circuits: wrong in the list model")
    else:
        ctx.ok("dedup.model", m, fn, what=f"{n_models} (list, relation) models up to 4 circuits: only circuits reported equal to a kept one are dropped")

    # --- CircuitStorage
    ci = repo.cls("CircuitStorage", CMP)
    ms = ci.methods()
    add = ms.get("add_new_circuit")
    if add is None:
        raise AnalysisError("CircuitStorage.add_new_circuit missing")
    ctx.touch(m, add)
    inline = {k: v for k, v in ms.items() if k not in ("__init__", "add_new_circuit")}
    bad = None
    n_models = 0
    ap = func_params(add)[1]
    for disabled in (False, True):
        for n in range(0, 5):
            for rel in _relations(n):
                n_models += 1
                env = {"self.circuit_list": [], "self.disable_circuit_comparison": disabled, "self._check_func": "<comparator>"}
                answers = []
                try:
                    for k in range(n):
                        env[ap] = ("circuit", k)
                        it = minterp.Interp(env, make_oracle(rel, inline))
                        try:
                            it.run(add.body)
                            answers.append(None)
                        except minterp.Return as r:
                            answers.append(r.value)
                except minterp.Unmodelled as e:
                    raise AnalysisError(f"CircuitStorage.add_new_circuit: a construct the list model does not cover: {e}")
                except minterp.ModelError as e:
                    bad = f"fails ({e})"
                    break
                store = env["self.circuit_list"]
                if not isinstance(store, list) or not all(is_circ(x) for x in store):
                    raise AnalysisError("CircuitStorage: circuit_list does not hold circuits in the model")
                kept = [x[1] for x in store]
                if kept != sorted(set(kept)):
                    bad = f"stores {kept}: not the offered circuits in the order offered, each at most once"
                    break
                if disabled and kept != list(range(n)):
                    bad = f"with comparison disabled it stores {kept} of {n} offered circuits"
                    break
                lost = [k for k in range(n) if k not in kept and not any((min(k, q), max(k, q)) in rel for q in kept if q < k)]
                if lost:
                    bad = f"refuses circuit {lost[0]} although it is not reported equal to any circuit stored before it ({[q for q in kept if q < lost[0]]}); reported-equal pairs {sorted(rel)}"
                    break
            if bad:
                break
        if bad:
            break
    if bad:
        ctx.fail("dedup.model", m, add, f"CircuitStorage.add_new_circuit, {n} circuits offered in turn: {bad}", func="CircuitStorage.add_new_circuit",
                 construct="CircuitStorage: wrong in the list model")
    else:
        ctx.ok("dedup.model", m, add, what=f"{n_models} (sequence, relation, switch) models: a circuit is refused only if reported equal to a stored one")


def rule_ged_zero(ctx: Ctx) -> None:
    """ged.zero: the graph-edit-distance comparator answers "same circuit" exactly when the distance it obtained *is the number 0*.
    networkx returns None when every edit path exceeds the upper bound (and the optimiser's generator may yield nothing), so a
    truthiness test (`not sim`) reports the most distant circuits as equal."""
    repo = ctx.repo
    m = repo.module(CMP)
    fn = repo.anchor(CMP, "ged")
    ctx.touch(m, fn)
    dist = {a.targets[0].id for a in ast.walk(fn) if isinstance(a, ast.Assign) and len(a.targets) == 1 and isinstance(a.targets[0], ast.Name)
            and isinstance(a.value, ast.Call) and ((call_attr(a.value) or "").endswith("graph_edit_distance") or call_name(a.value) == "next")}
    rets = [r for r in fn.body if isinstance(r, ast.Return) and r.value is not None] or \
           [r for r in ast.walk(fn) if isinstance(r, ast.Return) and r.value is not None and any(isinstance(x, ast.Name) and x.id in dist for x in ast.walk(r.value))]
    if not dist or not rets:
        raise AnalysisError("ged: distance variable / final return not found")
    for r in rets:
        v = r.value
        parts = v.values if isinstance(v, ast.BoolOp) and isinstance(v.op, ast.And) else [v]
        eq0 = any(isinstance(p_, ast.Compare) and len(p_.ops) == 1 and isinstance(p_.ops[0], ast.Eq)
                  and {norm(p_.left), norm(p_.comparators[0])} & {"0", "0.0"} and ({norm(p_.left), norm(p_.comparators[0])} & dist) for p_ in parts)
        truthy = any((isinstance(x, ast.UnaryOp) and isinstance(x.op, ast.Not) and isinstance(x.operand, ast.Name) and x.operand.id in dist) for x in ast.walk(v))
        if eq0 and not truthy:
            ctx.ok("ged.zero", m, r, what="equal iff the edit distance is 0")
        else:
            ctx.fail("ged.zero", m, r,
                     f"ged returns `{short(v)}`: the distance is None when it exceeds the search bound, and `not None` is True, so two circuits "
                     f"more than 30 edits apart are reported equal (and a circuit storage refuses the distinct circuit); compare with `== 0`",
                     func="ged", construct="ged: result is a truthiness test of the distance")


def run(ctx: Ctx) -> None:
    from .c13 import rule_rewrite_order
    from .c13 import rule_remove_identity_scope
    rule_remove_identity_scope(ctx)   # every comparison works on copies with the identities removed: only identities may go
    rule_rewrite_order(ctx)   # the normalisation this property relies on (unwrap_nodes expands every wrapper, in order)
    rule_ged_zero(ctx)
    from ..rules import memo as _memo
    _memo.rule_memo_sound(ctx, ['graphiq/utils/circuit_comparison.py'])
    _memo.rule_falsy_zero(ctx, ['graphiq/utils/circuit_comparison.py'])
    _memo.rule_arg_names(ctx, ['graphiq/utils/circuit_comparison.py'])
    _memo.rule_fixed_width(ctx, ['graphiq/utils/circuit_comparison.py'])
    _memo.rule_paste_incomplete(ctx, ['graphiq/utils/circuit_comparison.py'])
    _memo.rule_negative_start(ctx, ['graphiq/utils/circuit_comparison.py'])
    _memo.rule_elim_no_pivot(ctx, ['graphiq/utils/circuit_comparison.py'])
    _memo.rule_subject_drift(ctx, ['graphiq/utils/circuit_comparison.py'])
    _memo.rule_isinstance_on_class(ctx, ['graphiq/utils/circuit_comparison.py'])
    _memo.rule_zip_truncation(ctx, ['graphiq/utils/circuit_comparison.py'])
    _memo.rule_search_fallthrough(ctx, ['graphiq/utils/circuit_comparison.py'])
    _memo.rule_zip_pairing(ctx, ['graphiq/utils/circuit_comparison.py'])
    from .c12 import rule_nodekeys
    rule_nodekeys(ctx)  # the label index these functions query (wrapper / identity / gate labels) is maintained by add/remove/replace
    rule_cmp_fields(ctx)
    rule_cmp_roles(ctx)
    rule_cmp_multiedge(ctx)
    rule_cmp_every_step(ctx)
    rule_cmp_decision(ctx)
    rule_cmp_walk_edge(ctx)
    rule_cmp_normalise(ctx)
    rule_dedup_model(ctx)
    ctx.floor("cmp.fields", 10)
    ctx.floor("cmp.normalise", 5)


def _edit_direct_zip(src: str) -> str:
    """direct()'s indexed walk replaced by a zip over two per-wire generators that leave out the Output node"""
    a = src.index("            node1 = in_node\n            node2 = in_node\n")
    b = src.index("                control_match = (\n", a)
    new_head = ("            for op1, op2 in zip(_wire_ops(circuit1, in_node), _wire_ops(circuit2, in_node)):\n")
    out = src[:a] + new_head + src[b:]
    out += ("\n\ndef _wire_ops(circuit, in_node):\n    op = circuit.dag.nodes[in_node][\"op\"]\n    reg = f\"{op.reg_type}{op.register}\"\n    node = in_node\n"
            "    while True:\n        node = circuit.edge_from_reg(circuit.dag.out_edges(node, keys=True), reg)[1]\n        if node == f\"{reg}_out\":\n            return\n"
            "        yield circuit.dag.nodes[node][\"op\"]\n")
    return out


KNOCKOUTS = [
    Knockout("isomorphism-normalises-identities-before-unwrapping", CMP, sub_nth("    circuit1.unwrap_nodes()\n    circuit1.remove_identity()\n", "    circuit1.remove_identity()\n    circuit1.unwrap_nodes()\n", 0), "cmp.normalise", "before its wrappers are expanded"),
    Knockout("remove-identity-strips-theta-zero-rotations", "graphiq/circuit/circuit_dag.py", sub_once('                if isinstance(self.dag.nodes[node]["op"].noise, NoNoise):\n                    self.remove_op(node)\n', '                if isinstance(self.dag.nodes[node]["op"].noise, NoNoise):\n                    self.remove_op(node)\n        for node in self.get_node_by_labels(["one-qubit"]):\n            op = self.dag.nodes[node]["op"]\n            if isinstance(op, ops.ParameterizedOneQubitRotation) and op.params[0] == 0 and isinstance(op.noise, NoNoise):\n                self.remove_op(node)\n'), "identity.scope", "phase gate"),
    Knockout("registers-compared-sorted-for-every-gate", CMP, sub_once("                    op1.q_registers_type == op2.q_registers_type\n                    and op1.q_registers == op2.q_registers\n", "                    sorted(zip(op1.q_registers_type, op1.q_registers)) == sorted(zip(op2.q_registers_type, op2.q_registers))\n"), "cmp.fields", "without order"),
    Knockout("redundant-filter-keeps-only-duplicates", CMP, sub_once("            if not check_isomorphic:\n                new_circuit_list.append(new_circuit)", "            if check_isomorphic:\n                new_circuit_list.append(new_circuit)"), "dedup.model", "drops circuit"),
    Knockout("redundant-filter-drops-on-any-difference", CMP, sub_once("                if circuit_is_isomorphic(current_circuit, to_add_circuit):\n                    check_isomorphic = True", "                if not circuit_is_isomorphic(current_circuit, to_add_circuit):\n                    check_isomorphic = True"), "dedup.model", "drops circuit"),
    Knockout("storage-refuses-on-any-difference", CMP, sub_once("                if f(circuit, new_circuit):\n                    return True", "                if not f(circuit, new_circuit):\n                    return True"), "dedup.model", "refuses circuit"),
    Knockout("storage-redundancy-answer-inverted", CMP, sub_once("        if self.is_redundant(new_circuit):\n            return False", "        if not self.is_redundant(new_circuit):\n            return False"), "dedup.model", "refuses circuit"),
    Knockout("isomorphism-replaced-by-subgraph-match", CMP, sub_once("    return is_isomorphic(\n        circuit1.dag, circuit2.dag, node_match=node_match, edge_match=edge_match\n    )", "    from networkx.algorithms.isomorphism import MultiDiGraphMatcher\n    return MultiDiGraphMatcher(circuit1.dag, circuit2.dag, node_match=node_match, edge_match=edge_match).subgraph_is_isomorphic()"), "cmp.multiedge", "not a full isomorphism"),
    Knockout("direct-walk-over-zip", CMP, _edit_direct_zip, "zip.truncation", "direct"),
    Knockout("direct-params-compared-with-or", CMP, sub_once("                    and tuple(op1.params) == tuple(op2.params)\n", "                    or tuple(op1.params) == tuple(op2.params)\n"), "cmp.decision", "direct() step"),
    Knockout("node-match-type-polarity", CMP, sub_once("        if type(op1) != type(op2) or op1.q_registers_type != op2.q_registers_type:", "        if type(op1) == type(op2) or op1.q_registers_type != op2.q_registers_type:"), "cmp.decision", "node_match"),
    Knockout("node-match-control-and-target", CMP, sub_once("                op1.control_type != op2.control_type\n                or op1.target_type != op2.target_type", "                op1.control_type != op2.control_type\n                and op1.target_type != op2.target_type"), "cmp.decision", "node_match"),
    Knockout("edge-match-inverted", CMP, sub_once("        return roles1 == roles2", "        return roles1 != roles2"), "cmp.decision", "edge_match"),
    Knockout("direct-advances-to-edge-tail", CMP, sub_once("                node2 = out_edge_compare[0][1]", "                node2 = out_edge_compare[0][0]"), "cmp.walk-edge", "node advance"),
    Knockout("direct-skips-pair-gates-on-target-wire", CMP, sub_once("                control_match = (\n                    op1.q_registers_type == op2.q_registers_type", "                if type(op1) is type(op2) and len(op1.q_registers) == 2 and reg == f\"{op1.q_registers_type[1]}{op1.q_registers[1]}\":\n                    continue\n                control_match = (\n                    op1.q_registers_type == op2.q_registers_type"), "cmp.every-step", "skips the comparison"),
    Knockout("edge-match-flattens-role-pairs", CMP, sub_once('        roles1 = sorted(str(attr["control_target"]) for attr in e1.values())', '        roles1 = sorted(str(role) for attr in e1.values() for role in attr["control_target"])'), "cmp.multiedge", "flattened"),
    Knockout("ged-truthiness", CMP, sub_once("    return sim == 0\n", "    return not sim\n"), "ged.zero", "truthiness"),
    Knockout("multiedge-first-only", CMP,
             sub_once("        roles1 = sorted(str(attr[\"control_target\"]) for attr in e1.values())\n        roles2 = sorted(str(attr[\"control_target\"]) for attr in e2.values())\n        return roles1 == roles2",
                      "        return e1[next(iter(e1))][\"control_target\"] == e2[next(iter(e2))][\"control_target\"]"),
             "cmp.multiedge", "first parallel edge"),
    Knockout("edge-role-target-only", CMP,
             sub_once("            control_target = (\n                source_role,\n                _create_edge_control_target_attr(op, reg_type, register),\n            )", "            control_target = _create_edge_control_target_attr(op, reg_type, register)"),
             "cmp.multiedge", "attribute"),
    Knockout("G9-drop-qregisters", CMP,
             sub_once("                control_match = (\n                    op1.q_registers_type == op2.q_registers_type\n                    and op1.q_registers == op2.q_registers\n",
                      "                control_match = (\n                    op1.q_registers_type == op2.q_registers_type\n"),
             "cmp.fields", "direct: field q_registers"),
    Knockout("G9-isinstance", CMP, sub_nth("type(op1) is type(op2)", "isinstance(op1, type(op2))", 0), "cmp.fields", "asymmetric", on_fixed_only=True),
    Knockout("G9-drop-params-iso", CMP, sub_once("        if tuple(op1.params) != tuple(op2.params):\n            return False\n", ""), "cmp.fields", "params", on_fixed_only=True),
    Knockout("roles-classical", CMP,
             sub_once("isinstance(\n        operation, (ControlledPairOperationBase, ClassicalControlledPairOperationBase)\n    )", "isinstance(operation, ControlledPairOperationBase)"),
             "cmp.roles", "ClassicalControlledPairOperationBase", on_fixed_only=True),
    Knockout("normalise-direct", CMP, sub_once("    circuit1.remove_identity()\n    circuit2.remove_identity()\n\n    n_reg_match", "    circuit1.remove_identity()\n\n    n_reg_match"),
             "cmp.normalise", "direct"),
    Knockout("normalise-inplace", CMP, sub_once("    circuit1_copy = circuit1.copy()\n    circuit2_copy = circuit2.copy()", "    circuit1_copy = circuit1\n    circuit2_copy = circuit2.copy()"),
             "cmp.normalise", "check_redundant_circuit"),
]
