"""C14 — export / import round trip (structural clauses, DESIGN §5.14)."""
from __future__ import annotations

import ast
import re
from typing import Dict, List, Optional, Set, Tuple

from ..core import (AnalysisError, ClassInfo, Repo, call_attr, call_name, calls_in, dotted, func_params, get_kw, norm, parent,
                    qualname, short)
from ..driver import Knockout, sub_nth, sub_once
from ..report import Ctx
from ..rules import hooks, order

OPS = "graphiq/circuit/ops.py"
OQ = "graphiq/utils/openqasm_lib.py"
DAG = "graphiq/circuit/circuit_dag.py"
BASE = "graphiq/circuit/circuit_base.py"

EXPLANATION = (
    "Static rules over the exporters' and importers' tables: the JSON writer table (class_to_name_mapping) and reader "
    "table (name_to_class_map) are mutually inverse and name every operation class the compilers accept (table.json); "
    "every openQASM gate name an exporting class writes (first argument of OpenQASMInfo in the *_info function bound to "
    "its _openqasm_info) is known to name_to_class_map and maps back to that class, the multi-line idioms' keys "
    "('classical <g>', 'classical reset <g>') exist for the gate letters in the usage templates, and names that can be "
    "concatenated into a wrapper name are single letters, because the importer splits wrapper names by letter "
    "(table.qasm); the composite gate definition of a one-qubit wrapper lists its sub-gates in application order (last "
    "listed first) while the gate *name* keeps list order (order.wrapper); every register-derived attribute an operation "
    "class computes in __init__ (register, control, target, reg_type, control_type, target_type, c_register) is kept in "
    "sync by the property setter that from_json uses (setter.derived-fields); the export path iterates no set "
    "(order.sethash). Does not decide full parser correctness on arbitrary text nor equality of compiled states.")


def _dict_of(fn: ast.FunctionDef) -> ast.Dict:
    """the one dict display assigned at the top level of the function (the table), whatever the local is called"""
    ds = [n.value for n in fn.body if isinstance(n, ast.Assign) and isinstance(n.value, ast.Dict) and len(n.value.keys) > 3]
    if len(ds) != 1:
        raise AnalysisError(f"{fn.name}: table dict display not found")
    return ds[0]


def json_tables(repo: Repo):
    m = repo.module(OPS)
    w = _dict_of(repo.anchor(OPS, "class_to_name_mapping"))
    r = _dict_of(repo.anchor(OPS, "name_to_class_map"))
    writer = {dotted(k): v.value for k, v in zip(w.keys, w.values) if isinstance(v, ast.Constant)}
    reader = {k.value: dotted(v) for k, v in zip(r.keys, r.values) if isinstance(k, ast.Constant)}
    return m, w, r, writer, reader


def exportable_classes(repo: Repo) -> List[ClassInfo]:
    acc: Dict[str, ClassInfo] = {}
    for rel, cn in hooks.COMPILERS:
        for c in hooks.accepted_classes(repo, rel, cn):
            acc[c.key] = c
    io = repo.cls("InputOutputOperationBase", OPS)
    return sorted((c for c in acc.values() if not repo.is_subclass(c, io)), key=lambda c: c.name)


def rule_table_json(ctx: Ctx) -> None:
    repo = ctx.repo
    m, w, r, writer, reader = json_tables(repo)
    ctx.touch(m, repo.anchor(OPS, "class_to_name_mapping"))
    for cls, name in sorted(writer.items()):
        back = reader.get(name)
        if back == cls:
            ctx.ok_abstract("table.json", f"{cls} -> '{name}' -> {back}")
        else:
            ctx.fail("table.json", m, w,
                     f"to_json writes {cls} as '{name}' but from_json reads '{name}' as {back or 'nothing (None() is called)'}",
                     func="class_to_name_mapping", construct=f"json: {cls} -> '{name}' -> {back}")
    for c in exportable_classes(repo):
        if c.name in writer:
            continue
        ctx.fail("table.json", m, w,
                 f"operation class {c.name} is accepted by the compilers but has no JSON name: to_json emits \"type\": None "
                 f"(or silently drops it from a wrapper) and from_json cannot rebuild it",
                 func="class_to_name_mapping", construct=f"json: {c.name} has no written name")
    # wrapper members: classes that can sit inside a OneQubitGateWrapper (the composition lists) also need names
    comp = repo.anchor(OPS, "local_clifford_composition")
    members = {n.id for n in ast.walk(comp) if isinstance(n, ast.Name) and n.id in {c.name for c in exportable_classes(repo)}}
    for name in sorted(members - set(writer)):
        pass  # already reported above through exportable_classes


def qasm_names(repo: Repo) -> Dict[str, Tuple[str, bool, ast.FunctionDef]]:
    """class name -> (gate name written, multi_comp, info function) from `_openqasm_info = oq_lib.<f>()`."""
    out = {}
    oq = repo.module(OQ)
    for ci in [c for lst in repo.classes.values() for c in lst if c.module.rel == OPS]:
        v = ci.class_attrs().get("_openqasm_info")
        if not isinstance(v, ast.Call):
            continue
        f = oq.find(call_attr(v) or "")
        if not isinstance(f, ast.FunctionDef):
            raise AnalysisError(f"{ci.name}._openqasm_info: info function not found: {short(v)}")
        ret = [c for c in calls_in(f) if call_attr(c) == "OpenQASMInfo" or (isinstance(c.func, ast.Name) and c.func.id == "OpenQASMInfo")]
        if not ret:
            # the info is built by a shared helper: `return helper(<literals>, ...)` — judge the helper as it runs for this call
            body = [b for b in f.body if not (isinstance(b, ast.Expr) and isinstance(b.value, ast.Constant))]
            if len(body) == 1 and isinstance(body[0], ast.Return) and isinstance(body[0].value, ast.Call) and isinstance(body[0].value.func, ast.Name):
                hf = oq.find(body[0].value.func.id)
                if isinstance(hf, ast.FunctionDef):
                    from ..core import specialise_call
                    spec = specialise_call(hf, body[0].value)
                    spec.name = f.name
                    f = spec
                    ret = [c for c in calls_in(f) if call_attr(c) == "OpenQASMInfo" or (isinstance(c.func, ast.Name) and c.func.id == "OpenQASMInfo")]
        if len(ret) != 1 or not ret[0].args or not isinstance(ret[0].args[0], ast.Constant):
            raise AnalysisError(f"{OQ}::{f.name}: OpenQASMInfo(<name literal>, ...) not found")
        mc = ret[0].args[4] if len(ret[0].args) > 4 else get_kw(ret[0], "multi_comp")
        out[ci.name] = (ret[0].args[0].value, bool(isinstance(mc, ast.Constant) and mc.value), f)
    return out


def rule_table_qasm(ctx: Ctx) -> None:
    repo = ctx.repo
    m, w, r, writer, reader = json_tables(repo)
    oq = repo.module(OQ)
    names = qasm_names(repo)
    exp = {c.name for c in exportable_classes(repo)}
    one = repo.cls("OneQubitOperationBase", OPS)
    for cname, (gname, multi, f) in sorted(names.items()):
        ctx.touch(oq, f)
        if cname not in exp and not any(cname == s.name for s in repo.subclasses(repo.cls("ParameterizedOneQubitRotation", OPS))):
            continue
        if gname == "" or cname == "MeasurementZ":
            ctx.ok_abstract("table.qasm", f"{cname}: no gate statement / parsed by the measure idiom")
            continue
        if multi:
            # letters used after the `if (c==1)` in the usage template
            letters = set()
            doc = {id(b.value) for x in ast.walk(f) if isinstance(x, (ast.FunctionDef, ast.Module)) for b in x.body[:1]
                   if isinstance(b, ast.Expr) and isinstance(b.value, ast.Constant) and isinstance(b.value.value, str)}
            for s in [n for n in ast.walk(f) if isinstance(n, ast.Constant) and isinstance(n.value, str) and id(n) not in doc]:
                for mt in re.finditer(r"\)\s*([a-z])\s*$|\)\s*([a-z])\s+\{?", s.value):
                    letters.add(mt.group(1) or mt.group(2))
            if not letters:
                raise AnalysisError(f"{OQ}::{f.name}: conditional gate letter not found in the usage template")
            has_reset = any(isinstance(n, ast.Constant) and isinstance(n.value, str) and "reset" in n.value and id(n) not in doc for n in ast.walk(f))
            for g in sorted(letters):
                key = f"classical reset {g}" if has_reset else f"classical {g}"
                if reader.get(key) == cname:
                    ctx.ok_abstract("table.qasm", f"{cname}: idiom key '{key}'")
                else:
                    ctx.fail("table.qasm", m, r, f"{cname} is exported as a multi-line idiom the parser rebuilds under key '{key}', "
                                                 f"which maps to {reader.get(key)}", func="name_to_class_map",
                             construct=f"qasm: idiom '{key}' -> {reader.get(key)}")
            continue
        back = reader.get(gname)
        if back == cname:
            ctx.ok_abstract("table.qasm", f"{cname} -> '{gname}' -> {back}")
        else:
            ctx.fail("table.qasm", m, r,
                     f"{cname} is exported to openQASM as gate '{gname}', which name_to_class_map "
                     f"{'maps to ' + back if back else 'does not know'}: the exported text cannot be imported back",
                     func="name_to_class_map", construct=f"qasm: {cname} -> '{gname}' -> {back}")
        ci = repo.cls(cname, OPS)
        if repo.is_subclass(ci, one) and len(gname) != 1 and cname in exp:
            ctx.fail("table.qasm", oq, f,
                     f"{cname}'s gate name '{gname}' has {len(gname)} letters, but from_openqasm splits a wrapper's concatenated "
                     f"name letter by letter: a OneQubitGateWrapper containing {cname} cannot be imported back",
                     func=f.name, construct=f"qasm: wrapper member name '{gname}' is not a single letter")


def rule_instance_info(ctx: Ctx) -> None:
    """state.class-store: what a constructor computes from its arguments belongs to the instance.  An `__init__` that stores such a value on
    the class (`type(self).x = ...`, `self.__class__.x = ...`, `<ClassName>.x = ...`) makes every instance share the value of whichever
    instance was built last: every OneQubitGateWrapper would export with the openQASM body of the most recent wrapper, and the export of an
    unchanged circuit would change when an unrelated wrapper is created (export is no longer deterministic)."""
    repo = ctx.repo
    m = repo.module(OPS)
    n = 0
    for ci in [c for lst in repo.classes.values() for c in lst if c.module.rel == OPS]:
        init = ci.methods().get("__init__")
        if init is None:
            continue
        n += 1
        params = set(func_params(init)[1:])
        for a in [x for x in ast.walk(init) if isinstance(x, ast.Assign)]:
            for t in a.targets:
                if isinstance(t, ast.Attribute):
                    recv = norm(t.value)
                    if recv in ("type(self)", "self.__class__", ci.name) and any(isinstance(x, ast.Name) and x.id in params for x in ast.walk(a.value)):
                        ctx.touch(m, init)
                        ctx.fail("state.class-store", m, a,
                                 f"{ci.name}.__init__ stores `{short(a.value, 60)}` (computed from its arguments) on the class (`{short(t)}`): all instances then share the "
                                 f"value of the instance built last", func=f"{ci.name}.__init__", construct=f"{ci.name}.__init__: per-instance value stored on the class")
    if n == 0:
        raise AnalysisError("state.class-store: no constructor found in ops.py")
    ctx.ok_abstract("state.class-store", f"{n} constructors of operation classes scanned")
    # the wrapper's composite gate: the table return is taken exactly when the composed name is already a defined gate
    oq = repo.module(OQ)
    fn = repo.anchor(OQ, "single_qubit_wrapper_info")
    ctx.touch(oq, fn)
    rets = [i for i in ast.walk(fn) if isinstance(i, ast.If) and any(isinstance(r, ast.Return) and isinstance(r.value, ast.Subscript) for r in i.body)]
    if len(rets) != 1:
        raise AnalysisError("single_qubit_wrapper_info: the early return of an already defined gate was not found")
    r = next(x for x in rets[0].body if isinstance(x, ast.Return))
    tbl, key = norm(r.value.value), norm(r.value.slice)
    t = rets[0].test
    if isinstance(t, ast.Compare) and len(t.ops) == 1 and isinstance(t.ops[0], ast.In) and norm(t.left) == key and norm(t.comparators[0]) in (tbl, f"{tbl}.keys()"):
        ctx.ok("state.class-store", oq, t, what="composite name looked up in the table of defined gates by membership")
    else:
        ctx.fail("table.qasm", oq, t,
                 f"single_qubit_wrapper_info returns `{short(r.value)}` under `{short(t)}` instead of `{key} in {tbl}`: a composed name that is a defined gate but fails this "
                 f"test ('sdg' has three letters) is declared a second time, as a gate calling itself, which a standard openQASM reader rejects",
                 func="single_qubit_wrapper_info", construct="single_qubit_wrapper_info: defined-gate test is not a membership test")


def rule_declares_used(ctx: Ctx) -> None:
    """qasm.declares-used: a multi-line idiom (`measure ...; if (c==1) <g> <target>;`) uses a one-qubit gate <g> that openQASM 2.0 only knows
    when it was declared: the declaration the info function records (third argument of OpenQASMInfo) is borrowed from the info function of
    exactly that gate — `<f>_info().definitions[k]` with f's own gate name == <g>.  Declaring x for an idiom that applies z leaves `z`
    undeclared for a standard reader whenever the circuit has no Z gate of its own."""
    repo = ctx.repo
    oq = repo.module(OQ)
    n = 0
    for cname, (gname, multi, f) in sorted(qasm_names(repo).items()):
        if not multi:
            continue
        doc = {id(b.value) for x in ast.walk(f) if isinstance(x, (ast.FunctionDef, ast.Module)) for b in x.body[:1]
               if isinstance(b, ast.Expr) and isinstance(b.value, ast.Constant) and isinstance(b.value.value, str)}
        letters = set()
        for s_ in [x for x in ast.walk(f) if isinstance(x, ast.Constant) and isinstance(x.value, str) and id(x) not in doc]:
            for mt in re.finditer(r"\)\s*([a-z])\s*$|\)\s*([a-z])\s+\{?", s_.value):
                letters.add(mt.group(1) or mt.group(2))
        ret = [c for c in calls_in(f) if call_attr(c) == "OpenQASMInfo" or (isinstance(c.func, ast.Name) and c.func.id == "OpenQASMInfo")]
        if len(ret) != 1 or len(ret[0].args) < 3 or not letters:
            continue
        d = ret[0].args[2]
        defs = {a.targets[0].id: a.value for a in ast.walk(f) if isinstance(a, ast.Assign) and len(a.targets) == 1 and isinstance(a.targets[0], ast.Name)}
        for _ in range(3):
            if isinstance(d, ast.Name) and d.id in defs:
                d = defs[d.id]
        src_calls = [c for c in ast.walk(d) if isinstance(c, ast.Call) and isinstance(c.func, ast.Name) and c.func.id.endswith("_info")]
        if not src_calls:
            continue   # a literal declaration of its own: judged by the header rules
        declared = set()
        for c in src_calls:
            sf = oq.find(c.func.id)
            if not isinstance(sf, ast.FunctionDef):
                raise AnalysisError(f"{OQ}::{f.name}: declaration source `{c.func.id}` not found")
            r2 = [x for x in calls_in(sf) if (call_attr(x) == "OpenQASMInfo" or (isinstance(x.func, ast.Name) and x.func.id == "OpenQASMInfo")) and x.args
                  and isinstance(x.args[0], ast.Constant)]
            if len(r2) != 1:
                raise AnalysisError(f"{OQ}::{sf.name}: OpenQASMInfo(<name literal>, ...) not found")
            declared.add(r2[0].args[0].value)
        n += 1
        ctx.touch(oq, f)
        miss = sorted(letters - declared)
        if miss:
            ctx.fail("qasm.declares-used", oq, ret[0],
                     f"{cname} is exported as an idiom that applies `{miss[0]}` to the target, but the declaration it records is that of {sorted(declared)} "
                     f"(`{short(ret[0].args[2], 60)}`): a circuit with this operation and no {miss[0].upper()} gate of its own exports text in which `{miss[0]}` is "
                     f"used without being declared, which a standard openQASM 2.0 reader rejects", func=f.name,
                     construct=f"qasm: {cname} idiom uses {miss[0]}, declares {sorted(declared)}")
        else:
            ctx.ok("qasm.declares-used", oq, ret[0], what=f"{cname}: idiom gate {sorted(letters)} declared")
    if n == 0:
        raise AnalysisError("qasm.declares-used: no multi-line idiom with a borrowed declaration found")


def rule_wrapper_per_operation(ctx: Ctx) -> None:
    """qasm.per-operation: single_qubit_wrapper_info contributes one body statement (and one letter of the composite name) for *every*
    element of the wrapper's operation list that has a gate name; the only elements it may skip are those whose gate name is empty
    (Identity).  Skipping an element because its gate was seen before turns [H, P, H, P, X] into the body of H P X."""
    repo = ctx.repo
    m = repo.module(OQ)
    fn = repo.anchor(OQ, "single_qubit_wrapper_info")
    ctx.touch(m, fn)
    lst = func_params(fn)[0]
    loops_ = [l for l in fn.body if isinstance(l, ast.For) and norm(l.iter).replace("reversed(", "").rstrip(")").split("[")[0] == lst]
    if len(loops_) != 1:
        raise AnalysisError("single_qubit_wrapper_info: the loop over the operation list was not found")
    lp = loops_[0]
    info_names = {norm(a.targets[0]) for a in ast.walk(lp) if isinstance(a, ast.Assign) and isinstance(a.value, ast.Call) and call_attr(a.value) == "openqasm_info"}
    bad = None
    for sk in [x for x in ast.walk(lp) if isinstance(x, (ast.Continue, ast.Break))]:
        g = next((a for a in _ancs14(sk) if isinstance(a, ast.If)), None)
        ok = False
        if g is not None:
            t = g.test
            if isinstance(t, ast.Compare) and len(t.ops) == 1 and isinstance(t.ops[0], ast.Eq):
                sides = [t.left, t.comparators[0]]
                ok = any(isinstance(x, ast.Constant) and x.value == "" for x in sides) and any(
                    isinstance(x, ast.Attribute) and x.attr == "gate_name" and norm(x.value) in info_names for x in sides)
            elif isinstance(t, ast.UnaryOp) and isinstance(t.op, ast.Not) and isinstance(t.operand, ast.Attribute) and t.operand.attr == "gate_name":
                ok = True
        if not ok:
            bad = (sk, g)
            break
    if bad is None:
        ctx.ok("qasm.per-operation", m, lp, what="only elements without a gate name are skipped")
    else:
        sk, g = bad
        ctx.fail("qasm.per-operation", m, g.test if g is not None else sk,
                 f"single_qubit_wrapper_info skips wrapper elements under `{short(g.test) if g is not None else 'no condition'}`: only an element without a gate "
                 f"name (Identity) contributes nothing — a gate that occurs twice in the list acts twice, so [H, P, H, P, X] must not export the body of "
                 f"[H, P, X]", func="single_qubit_wrapper_info", construct="single_qubit_wrapper_info: elements skipped for another reason than an empty name")


def _ancs14(n):
    p_ = parent(n)
    while p_ is not None:
        yield p_
        p_ = parent(p_)


def rule_wrapper_export_order(ctx: Ctx) -> None:
    repo = ctx.repo
    m = repo.module(OQ)
    fn = repo.anchor(OQ, "single_qubit_wrapper_info")
    ctx.touch(m, fn)
    lst = func_params(fn)[0]
    # names are read off the result constructor: OpenQASMInfo(<gate name>, <imports>, <definitions>, ...)
    info = [c for r in ast.walk(fn) if isinstance(r, ast.Return) and isinstance(r.value, ast.Call) and call_name(r.value) == "OpenQASMInfo"
            for c in [r.value] if len(c.args) >= 3 and isinstance(c.args[0], ast.Name) and isinstance(c.args[2], ast.Name)]
    if not info:
        raise AnalysisError("single_qubit_wrapper_info: `return OpenQASMInfo(<name>, <imports>, <definitions>, ...)` not found")
    GN, DEFS = info[-1].args[0].id, info[-1].args[2].id
    body_var = None
    for n in ast.walk(fn):
        # the variable spliced into the "gate <name> a { ... }" definition
        if isinstance(n, ast.Call) and call_attr(n) == "append" and norm(n.func.value) == DEFS:
            names = [x.id for x in ast.walk(n.args[0]) if isinstance(x, ast.Name)]
            for cand in names:
                if order.loop_accumulations(fn, cand) and cand != GN:
                    body_var = cand
    if body_var is None:
        # the body may be assembled by a join over some collection instead of a loop accumulation: find what that collection is
        for n in ast.walk(fn):
            if isinstance(n, ast.Call) and call_attr(n) == "append" and norm(n.func.value) == DEFS:
                for cand in [x.id for x in ast.walk(n.args[0]) if isinstance(x, ast.Name) and x.id != GN]:
                    srcs = [a.value for a in ast.walk(fn) if isinstance(a, ast.Assign) and len(a.targets) == 1 and norm(a.targets[0]) == cand]
                    for v in srcs:
                        if isinstance(v, ast.Call) and call_attr(v) == "join" and v.args and isinstance(v.args[0], (ast.GeneratorExp, ast.ListComp)):
                            it = v.args[0].generators[0].iter
                            base, d = order.iter_direction(it)
                            hops = 0
                            while base is not None and base != lst and hops < 4:
                                nxt = [a.value for a in ast.walk(fn) if isinstance(a, ast.Assign) and len(a.targets) == 1 and norm(a.targets[0]) == base]
                                if not nxt:
                                    break
                                v2 = nxt[-1]
                                if isinstance(v2, (ast.ListComp, ast.GeneratorExp)):
                                    b2, d2 = order.iter_direction(v2.generators[0].iter)
                                    base, d = b2, d * d2
                                elif isinstance(v2, (ast.Dict, ast.Set)) or (isinstance(v2, ast.Call) and call_name(v2) in ("dict", "set")):
                                    break
                                else:
                                    break
                                hops += 1
                            keyed = any(isinstance(a, ast.Assign) and len(a.targets) == 1 and norm(a.targets[0]) == base
                                        and (isinstance(a.value, (ast.Dict, ast.Set)) or (isinstance(a.value, ast.Call) and call_name(a.value) in ("dict", "set")))
                                        for a in ast.walk(fn)) if base else False
                            if keyed:
                                ctx.fail("order.wrapper", m, v,
                                         f"single_qubit_wrapper_info assembles the composite gate body from `{base}`, a dict/set keyed by gate name, so a "
                                         f"gate that occurs twice in the wrapper ([H, P, H, P]) is written once: the openQASM definition denotes a "
                                         f"different unitary than the wrapper", func="single_qubit_wrapper_info",
                                         construct="single_qubit_wrapper_info: body lists each distinct gate once")
                                return
                            if base == lst:
                                if d == -1:
                                    ctx.ok("order.wrapper", m, v, what="body joined over the reversed operation list")
                                    body_var = "<joined>"
                                else:
                                    ctx.fail("order.wrapper", m, v, "single_qubit_wrapper_info writes the composite gate body in list order; openQASM applies a body "
                                                                    "first to last while a wrapper's list means 'last listed acts first'", func="single_qubit_wrapper_info",
                                             construct="single_qubit_wrapper_info: body direction +1")
                                    return
    if body_var is None:
        raise AnalysisError("single_qubit_wrapper_info: composite body accumulator not found")
    for var, want, why in ([] if body_var == "<joined>" else [(body_var, -1, "openQASM applies the statements of a gate body first to last, while a wrapper's list "
                                          "means 'last listed acts first' (unwrap() reverses it)"),
                           ]) + [(GN, 1, "from_openqasm rebuilds the wrapper's list from the letters of the name in order")]:
        acc = order.loop_accumulations(fn, var)
        if not acc:
            raise AnalysisError(f"single_qubit_wrapper_info: accumulation of `{var}` not found")
        for loop, st, d, s in acc:
            base, _ = order.iter_direction(loop.iter)
            if base != lst:
                raise AnalysisError(f"single_qubit_wrapper_info: loop over `{short(loop.iter)}` is not over the operation list")
            if d * s == want:
                ctx.ok("order.wrapper", m, st, what=f"{var}: {'application' if want < 0 else 'list'} order")
            else:
                ctx.fail("order.wrapper", m, st,
                         f"`{short(st)}` builds `{var}` in {'list' if d * s > 0 else 'reversed list'} order; {why}",
                         func="single_qubit_wrapper_info", construct=f"single_qubit_wrapper_info: {var} direction {d * s:+d}")


# ---------------------------------------------------------------------------------------------- derived fields

SETTERS = {"q_registers": "q_registers", "q_registers_type": "q_registers_type", "c_registers": "c_registers"}


def _setter_for(repo: Repo, ci: ClassInfo, prop: str) -> Optional[ast.FunctionDef]:
    """The setter function for property ``prop`` as resolved through the MRO (last definition per class wins)."""
    for k in repo.mro(ci):
        found = None
        for st in k.node.body:
            if isinstance(st, ast.FunctionDef) and st.name == prop:
                for d in st.decorator_list:
                    if isinstance(d, ast.Attribute) and d.attr == "setter":
                        found = st
        if found is not None:
            return found
    return None


def _self_stores(fn: ast.FunctionDef, ci: ClassInfo, repo: Repo, depth: int = 1) -> Set[str]:
    out = set()
    for n in ast.walk(fn):
        if isinstance(n, ast.Attribute) and isinstance(n.ctx, ast.Store) and isinstance(n.value, ast.Name) and n.value.id == "self":
            out.add(n.attr)
        if depth and isinstance(n, ast.Call) and (call_name(n) or "").startswith("self."):
            r = repo.lookup_method(ci, call_attr(n))
            if r:
                out |= _self_stores(r[1], ci, repo, depth - 1)
    return out


def rule_derived_fields(ctx: Ctx) -> None:
    repo = ctx.repo
    m = repo.module(OPS)
    base = repo.cls("OperationBase", OPS)
    n = 0
    for ci in repo.subclasses(base, strict=True):
        if ci.module.rel != OPS:
            continue
        init = ci.methods().get("__init__")
        if init is None:
            continue
        sup = [c for c in calls_in(init) if norm(c.func) == "super().__init__"]
        if not sup:
            continue
        for kw in sup[0].keywords:
            if kw.arg not in SETTERS or not isinstance(kw.value, ast.Tuple):
                continue
            srcs = [norm(e) for e in kw.value.elts]
            derived = []
            for st in ast.walk(init):
                if isinstance(st, ast.Assign) and len(st.targets) == 1 and isinstance(st.targets[0], ast.Attribute) \
                        and norm(st.targets[0].value) == "self" and norm(st.value) in srcs:
                    derived.append(st.targets[0].attr)
            if not derived:
                continue
            for sub in repo.subclasses(ci):
                if sub.module.rel != OPS or (sub.key != ci.key and sub.methods().get("__init__") is not None
                                             and any(norm(c.func) == "super().__init__" and any(k.arg == kw.arg for k in c.keywords)
                                                     for c in calls_in(sub.methods()["__init__"]))):
                    continue
                if sub.key != ci.key:
                    continue  # concrete subclasses inherit the setter of the class that defines the fields
                setter = _setter_for(repo, sub, kw.arg)
                if setter is None:
                    raise AnalysisError(f"{sub.name}: no setter for {kw.arg}")
                stores = _self_stores(setter, sub, repo)
                for d in derived:
                    n += 1
                    if d in stores:
                        ctx.ok_abstract("setter.derived-fields", f"{sub.name}.{kw.arg} setter updates self.{d}")
                    else:
                        ctx.fail("setter.derived-fields", m, setter,
                                 f"{sub.name}.__init__ derives `self.{d}` from `{kw.arg}`, and the compilers read `op.{d}`, but the "
                                 f"`{kw.arg}` setter used by CircuitDAG.from_json does not update it: an imported operation keeps "
                                 f"the default `{d}` (sibling setter `q_registers` does update its derived fields)",
                                 func=f"{sub.name}.{kw.arg}.setter", construct=f"{sub.name}: {kw.arg} setter leaves self.{d} stale")
    if n == 0:
        raise AnalysisError("setter.derived-fields: no derived field found")
    # from_json really goes through those setters
    fj = repo.anchor(DAG, "CircuitDAG.from_json")
    dm = repo.module(DAG)
    used = {n_.targets[0].attr for n_ in ast.walk(fj) if isinstance(n_, ast.Assign) and isinstance(n_.targets[0], ast.Attribute)
            and n_.targets[0].attr in SETTERS}
    ctx.note(f"from_json assigns through setters: {sorted(used)}")


def rule_export_determinism(ctx: Ctx) -> None:
    repo = ctx.repo
    for rel, q in ((BASE, "CircuitBase.to_openqasm"), (DAG, "CircuitDAG.to_json"), (BASE, "CircuitBase._openqasm_update"),
                   (OQ, "single_qubit_wrapper_info"), (OQ, "register_initialization_string")):
        m = repo.module(rel)
        fn = repo.anchor(rel, q)
        ctx.touch(m, fn)
        bad = [n for n in ast.walk(fn) if (isinstance(n, ast.Call) and isinstance(n.func, ast.Name) and n.func.id in ("set", "frozenset"))
               or isinstance(n, (ast.Set, ast.SetComp))]
        if bad:
            ctx.fail("order.sethash", m, bad[0], f"{q} builds a set on the export path; iterating it makes the exported text depend "
                                                 f"on hash order", func=q)
        else:
            ctx.ok("order.sethash", m, fn, what=f"{q}: no set on the export path")


# ---------------------------------------------------------------------------------------------- regex groups


def _repeated_groups(pattern: str) -> Set[int]:
    """numbers of capturing groups that sit inside a repetition that can match more than once
    (`(\\d)+`): such a group only keeps its LAST repetition."""
    import re._parser as sre  # stdlib regex parser: syntax tree of the pattern, nothing is matched
    out: Set[int] = set()

    def walk(items, repeated: bool):
        for op, av in items:
            name = str(op)
            if name in ("MAX_REPEAT", "MIN_REPEAT", "POSSESSIVE_REPEAT"):
                lo, hi, sub = av
                walk(sub, repeated or hi > 1)
            elif name == "SUBPATTERN":
                gid, _, _, sub = av
                if gid is not None and repeated:
                    out.add(gid)
                walk(sub, repeated)
            elif name == "BRANCH":
                for alt in av[1]:
                    walk(alt, repeated)
            elif name in ("ASSERT", "ASSERT_NOT"):
                walk(av[1], repeated)
            elif name == "ATOMIC_GROUP":
                walk(av, repeated)

    walk(sre.parse(pattern), False)
    return out


def rule_regex_groups(ctx: Ctx) -> None:
    repo = ctx.repo
    m = repo.module(DAG)
    fn = repo.anchor(DAG, "CircuitDAG.from_openqasm")
    ctx.touch(m, fn)
    pats: Dict[str, str] = {}
    n = 0
    for node in ast.walk(fn):
        if isinstance(node, ast.Assign) and isinstance(node.value, ast.Call) and (call_name(node.value) or "") in ("re.search", "re.match", "re.fullmatch") \
                and node.value.args and isinstance(node.value.args[0], ast.Constant) and isinstance(node.targets[0], ast.Name):
            pats[node.targets[0].id] = node.value.args[0].value
    for node in ast.walk(fn):
        pat = None
        idx = None
        if isinstance(node, ast.Call) and call_attr(node) in ("group", "groups", "groupdict") and isinstance(node.func, ast.Attribute):
            recv = node.func.value
            if isinstance(recv, ast.Call) and (call_name(recv) or "") in ("re.search", "re.match", "re.fullmatch") and recv.args \
                    and isinstance(recv.args[0], ast.Constant):
                pat = recv.args[0].value
            elif isinstance(recv, ast.Name) and recv.id in pats:
                pat = pats[recv.id]
            if call_attr(node) == "group":
                idx = [a.value for a in node.args if isinstance(a, ast.Constant)] or [0]
            else:
                idx = ["*"]
        elif isinstance(node, ast.Subscript) and isinstance(node.value, ast.Name) and node.value.id in pats and isinstance(node.slice, ast.Constant):
            pat, idx = pats[node.value.id], [node.slice.value]
        if pat is None:
            continue
        n += 1
        rep = _repeated_groups(pat)
        bad = sorted(rep) if "*" in idx else sorted(i for i in idx if isinstance(i, int) and i in rep)
        if bad:
            ctx.fail("regex.repeated-group", m, node,
                     f"`{short(node, 90)}` reads capture group {bad} of the pattern {pat!r}; that group is inside a repetition, so it holds "
                     f"only the LAST repetition (for a register index >= 10 only its last digit): the imported operation lands on another register",
                     func="CircuitDAG.from_openqasm", construct=f"from_openqasm: group {bad} of {pat}")
        else:
            ctx.ok("regex.repeated-group", m, node, what=f"reads group {idx} of {pat!r}")
    if n == 0:
        raise AnalysisError("regex.repeated-group: no match-group read found in from_openqasm")


# ---------------------------------------------------------------------------------------------- header cover


def rule_header_cover(ctx: Ctx) -> None:
    """Every CircuitDAG edit that places an operation in the circuit records its openQASM imports/definitions
    (`_openqasm_update(<that operation>)` on every path, directly or through a same-class helper that receives it)."""
    from .. import flow
    repo = ctx.repo
    m = repo.module(DAG)
    ci = repo.cls("CircuitDAG", DAG)
    ms = {}
    for k in repo.mro(ci):
        for name, f in k.methods().items():
            ms.setdefault(name, f)
    ensures: Dict[str, Set[int]] = {name: set() for name in ms}
    changed = True
    while changed:
        changed = False
        for name, f in ms.items():
            ps = func_params(f)
            for i, p_ in enumerate(ps):
                if i == 0 or i in ensures[name]:
                    continue

                def hit(node, p_=p_):
                    if isinstance(node, (ast.If, ast.For, ast.While, ast.Try, ast.With)):
                        return False
                    for c in ast.walk(node):
                        if isinstance(c, ast.Call) and (call_name(c) or "").startswith("self."):
                            callee = call_attr(c)
                            if callee == "_openqasm_update" and c.args and norm(c.args[0]) == p_:
                                return True
                            for j, a in enumerate(c.args):
                                if norm(a) == p_ and (j + 1) in ensures.get(callee, set()):
                                    return True
                    return False

                if flow.must_pass(f.body, hit):
                    ensures[name].add(i)
                    changed = True
    for api, pos in (("add", 1), ("insert_at", 1), ("replace_op", 2)):
        f = ms.get(api)
        if f is None:
            raise AnalysisError(f"CircuitDAG.{api} missing")
        ctx.touch(m, f)
        if pos in ensures[api]:
            ctx.ok("header.cover", m, f, what=f"CircuitDAG.{api} records the operation's openQASM header material on every path")
        else:
            ctx.fail("header.cover", m, f,
                     f"CircuitDAG.{api} can place `{func_params(f)[pos]}` in the circuit without `_openqasm_update({func_params(f)[pos]})`: the gate "
                     f"definitions of that operation are missing from the exported openQASM header, so the text uses an undefined gate",
                     func=f"CircuitDAG.{api}", construct=f"CircuitDAG.{api}: operation enters without _openqasm_update")


def _fstring_slots(js: ast.JoinedStr):
    """[(literal text before the slot, slot expression)] of an f-string"""
    out, before = [], ""
    for v in js.values:
        if isinstance(v, ast.Constant):
            before += str(v.value)
        elif isinstance(v, ast.FormattedValue):
            out.append((before, v.value))
            before = ""
    return out


def rule_qasm_classical_register(ctx: Ctx) -> None:
    """qasm.creg: in the openQASM usage strings a measurement is written into the operation's *classical* register: the slot after
    `-> c` is an element of the classical-register argument, and an `if (c<k>==1)` that follows tests the same element."""
    repo = ctx.repo
    m = repo.module(OQ)
    n = 0
    for fn in [f for f in ast.walk(m.tree) if isinstance(f, ast.FunctionDef)]:
        ps = func_params(fn)
        cregs = {p_ for p_ in ps if p_.startswith("c_reg") or p_ in ("c_registers", "creg")}
        targets, tests = [], []
        def _owner(n_):
            p2 = parent(n_)
            while p2 is not None and not isinstance(p2, ast.FunctionDef):
                p2 = parent(p2)
            return p2
        for js in [x for x in ast.walk(fn) if isinstance(x, ast.JoinedStr) and _owner(x) is fn]:
            for before, e in _fstring_slots(js):
                if before.rstrip().endswith("-> c") or before.endswith("->c"):
                    targets.append((js, e))
                if before.rstrip().endswith("if (c") or before.rstrip().endswith("if(c"):
                    tests.append((js, e))
        if not targets:
            continue
        if not cregs:
            raise AnalysisError(f"{fn.name}: writes `measure ... -> c<k>` but has no classical-register parameter")
        for js, e in targets:
            n += 1
            ctx.touch(m, fn)
            names = {x.id for x in ast.walk(e) if isinstance(x, ast.Name)}
            if names & cregs and not (names - cregs):
                ctx.ok("qasm.creg", m, js, what=f"{fn.name}: measurement stored in c{{{norm(e)}}}")
            else:
                ctx.fail("qasm.creg", m, js,
                         f"{fn.name} writes `measure ... -> c{{{norm(e)}}}`: the classical register is numbered by `{norm(e)}`, not by the operation's "
                         f"classical register {sorted(cregs)}; for an operation whose quantum and classical register indices differ, the text stores "
                         f"the outcome in one creg and conditions on another", func=fn.name, construct=f"{fn.name}: measure target c{{{norm(e)}}}")
        for js, e in tests:
            n += 1
            if any(norm(e) == norm(t) for _, t in targets):
                ctx.ok("qasm.creg", m, js, what=f"{fn.name}: condition tests the register just written")
            else:
                ctx.fail("qasm.creg", m, js, f"{fn.name} conditions on `c{{{norm(e)}}}` but measures into {[norm(t) for _, t in targets]}",
                         func=fn.name, construct=f"{fn.name}: condition register c{{{norm(e)}}}")
    if n < 3:
        raise AnalysisError("qasm.creg: measurement usage strings not found")


def rule_json_fields(ctx: Ctx) -> None:
    """json.fields: every per-operation key that to_json writes is read back by from_json for every operation that carries it.  A key
    read only under a class test must cover every operation class that has the field (c_register: the classically controlled pair
    operations *and* MeasurementZ)."""
    repo = ctx.repo
    DAGF = "graphiq/circuit/circuit_dag.py"
    m = repo.module(DAGF)
    tj = repo.anchor(DAGF, "CircuitDAG.to_json")
    fj = repo.anchor(DAGF, "CircuitDAG.from_json")
    ctx.touch(m, tj)
    ctx.touch(m, fj)
    written = set()
    for d in [x for x in ast.walk(tj) if isinstance(x, ast.Dict)]:
        ks = {k.value for k in d.keys if isinstance(k, ast.Constant) and isinstance(k.value, str)}
        if "type" in ks:
            written |= ks
    written -= {"type", "ops"}
    if not written:
        raise AnalysisError("to_json: per-operation dict not found")
    opm = repo.module(OPS)
    loops_ = [l for l in ast.walk(fj) if isinstance(l, ast.For)]
    for key in sorted(written):
        reads = [x for x in ast.walk(fj) if isinstance(x, ast.Subscript) and isinstance(x.slice, ast.Constant) and x.slice.value == key]
        if not reads:
            ctx.fail("json.fields", m, fj, f"from_json never reads the key '{key}' that to_json writes for every operation", func="CircuitDAG.from_json",
                     construct=f"from_json: key {key} not read")
            continue
        for r in reads:
            conds = []
            p_ = parent(r)
            while p_ is not None and p_ is not fj:
                if isinstance(p_, ast.If) and not any(isinstance(x, ast.Constant) and x.value == "type" for x in ast.walk(p_.test)):
                    conds.append(p_)
                p_ = parent(p_)
            cls_guards = [c for c in conds if any(isinstance(x, ast.Call) and call_name(x) in ("issubclass", "isinstance") for x in ast.walk(c.test))]
            if not cls_guards:
                ctx.ok("json.fields", m, r, what=f"from_json reads '{key}' for every operation")
                continue
            field = {"c_registers": "c_register", "q_registers": "register", "q_registers_type": "reg_type"}.get(key, key)
            g = cls_guards[0]
            gnames = [dotted(x.args[1]).split(".")[-1] for x in ast.walk(g.test) if isinstance(x, ast.Call) and call_name(x) in ("issubclass", "isinstance")
                      and len(x.args) == 2 and dotted(x.args[1])]
            holders = []
            for lst in repo.classes.values():
                for ci in lst:
                    if ci.module.rel != OPS:
                        continue
                    init = ci.methods().get("__init__")
                    if init is not None and field in func_params(init):
                        holders.append(ci)
            missed = [ci.name for ci in holders if not any(any(k.name == gn for k in repo.mro(ci)) for gn in gnames)]
            if missed:
                ctx.fail("json.fields", m, r,
                         f"from_json reads '{key}' only for {gnames}; {sorted(missed)} also take a `{field}` and are rebuilt with the default one: a "
                         f"{sorted(missed)[0]} exported with {field} != 0 is loaded onto classical register 0", func="CircuitDAG.from_json",
                         construct=f"from_json: key {key} read only for {gnames}")
            else:
                ctx.ok("json.fields", m, r, what=f"from_json reads '{key}' for every class that has it")


def rule_json_wrapper_complete(ctx: Ctx) -> None:
    """json.wrapper-complete: the exported op_list of a OneQubitGateWrapper names every operation of the wrapper, in order: the loop over
    op.operations appends the name of each element and skips one only when it has no JSON name at all.  Any further filter (dropping
    identities, say) changes the list the importer rebuilds the wrapper from — down to an empty list, which OneQubitGateWrapper rejects."""
    repo = ctx.repo
    DAGF = "graphiq/circuit/circuit_dag.py"
    m = repo.module(DAGF)
    tj = repo.anchor(DAGF, "CircuitDAG.to_json")
    ctx.touch(m, tj)
    loops_ = [l for l in ast.walk(tj) if isinstance(l, ast.For) and norm(l.iter).endswith(".operations")]
    comps = [c for c in ast.walk(tj) if isinstance(c, (ast.ListComp,)) and norm(c.generators[0].iter).endswith(".operations")]
    if not loops_ and not comps:
        raise AnalysisError("to_json: the loop over a wrapper's operations was not found")
    for lp in loops_:
        gv = norm(lp.target)
        names = {norm(a.targets[0]) for a in ast.walk(lp) if isinstance(a, ast.Assign) and isinstance(a.value, ast.Call)
                 and call_attr(a.value) == "class_to_name_mapping" and [norm(x) for x in a.value.args] == [gv]}
        apps = [c for c in calls_in(lp) if call_attr(c) == "append"]
        if len(apps) != 1:
            raise AnalysisError("to_json: expected one append per wrapper element")
        conds = []
        p_ = parent(apps[0])
        while p_ is not None and p_ is not lp:
            if isinstance(p_, ast.If):
                conds.append(p_.test)
            p_ = parent(p_)
        extra = []
        for t in conds:
            parts = t.values if isinstance(t, ast.BoolOp) and isinstance(t.op, ast.And) else [t]
            for part in parts:
                if isinstance(part, ast.Name) and part.id in names:
                    continue
                if isinstance(part, ast.Compare) and len(part.ops) == 1 and isinstance(part.ops[0], (ast.IsNot, ast.NotEq)) and norm(part.left) in names \
                        and isinstance(part.comparators[0], ast.Constant) and part.comparators[0].value in (None, ""):
                    continue
                extra.append(part)
        skips = [x for x in ast.walk(lp) if isinstance(x, (ast.Continue, ast.Break))]
        if extra or skips:
            what = f"`{short(extra[0])}`" if extra else f"`{short(skips[0])}`"
            ctx.fail("json.wrapper-complete", m, extra[0] if extra else skips[0],
                     f"to_json leaves wrapper elements out of `op_list` under {what}: the importer rebuilds the wrapper from that list, so the "
                     f"operations differ after a round trip, and a wrapper made only of the skipped kind exports `op_list: []`, which from_json "
                     f"cannot construct", func="CircuitDAG.to_json", construct="to_json: wrapper op_list filtered")
        else:
            ctx.ok("json.wrapper-complete", m, lp, what="every named element of the wrapper is exported")
    for c in comps:
        if any(g.ifs for g in c.generators) and not all(isinstance(i, ast.Name) or "class_to_name_mapping" in norm(i) for g in c.generators for i in g.ifs):
            ctx.fail("json.wrapper-complete", m, c, f"to_json filters the wrapper's operations in `{short(c, 80)}`", func="CircuitDAG.to_json",
                     construct="to_json: wrapper op_list filtered")
        else:
            ctx.ok("json.wrapper-complete", m, c, what="every named element of the wrapper is exported")


def rule_json_ctor(ctx: Ctx) -> None:
    """json.ctor: from_json creates each operation with `<class>()` and then sets its registers through the property setters, so every
    class the reader's name table can return must be constructible without arguments (all parameters of the __init__ it inherits have
    defaults); otherwise loading a circuit that contains such an operation raises TypeError."""
    repo = ctx.repo
    DAGF = "graphiq/circuit/circuit_dag.py"
    m = repo.module(DAGF)
    fj = repo.anchor(DAGF, "CircuitDAG.from_json")
    ctx.touch(m, fj)
    bare = [c for c in calls_in(fj) if isinstance(c.func, ast.Name) and not c.args and not c.keywords
            and any(isinstance(a, ast.Assign) and norm(a.targets[0]) == c.func.id and isinstance(a.value, ast.Call) and call_attr(a.value) == "name_to_class_map"
                    for a in ast.walk(fj))]
    if not bare:
        ctx.ok_abstract("json.ctor", "from_json does not instantiate operation classes without arguments")
        return
    opm = repo.module(OPS)
    r = _dict_of(repo.anchor(OPS, "name_to_class_map"))
    n = 0
    for v in r.values:
        cname = (dotted(v) or "").split(".")[-1]
        ci = repo.resolve_class(opm, cname) if cname else None
        if ci is None:
            continue
        init = None
        for k in repo.mro(ci):
            if "__init__" in k.methods():
                init = k.methods()["__init__"]
                break
        if init is None:
            continue
        n += 1
        a = init.args
        pos = a.posonlyargs + a.args
        required = [x.arg for x in pos[1: len(pos) - len(a.defaults)]] + [x.arg for x, d in zip(a.kwonlyargs, a.kw_defaults) if d is None]
        if required:
            ctx.fail("json.ctor", opm, init,
                     f"from_json builds every operation as `{bare[0].func.id}()`, but {ci.name} cannot be created without arguments (its __init__ "
                     f"requires {required}): a circuit containing a {ci.name} is written by to_json and cannot be loaded back (TypeError)",
                     func=f"{ci.name}.__init__", construct=f"{ci.name}: not default-constructible but reachable from name_to_class_map")
        else:
            ctx.ok("json.ctor", opm, init, what=f"{ci.name}() is constructible")
    if n == 0:
        raise AnalysisError("json.ctor: no class resolved from name_to_class_map")


def rule_export_every_statement(ctx: Ctx) -> None:
    """export.every-statement: to_openqasm emits one statement per operation of the sequence.  Whether a statement is written may depend on the
    operation (an empty string for operations without a counterpart), never on what was written before: a test that reads the list of
    emitted lines (`line != out[-1]`, `line not in out`) drops the second of two identical consecutive gates (H H, S S, CX CX), and the
    text stays valid openQASM, so every reader silently gets a different circuit."""
    repo = ctx.repo
    m = repo.module(BASE)
    fn = repo.anchor(BASE, "CircuitBase.to_openqasm")
    ctx.touch(m, fn)
    joined = [c for c in ast.walk(fn) if isinstance(c, ast.Call) and call_attr(c) == "join" and c.args and isinstance(c.args[0], ast.Name)]
    if not joined:
        raise AnalysisError("to_openqasm: the joined statement list was not found")
    L = joined[-1].args[0].id
    apps = [c for c in ast.walk(fn) if isinstance(c, ast.Call) and call_attr(c) in ("append", "extend", "insert") and norm(c.func.value) == L]
    if not apps:
        raise AnalysisError("to_openqasm: no statement is appended to the joined list")
    n = 0
    for c in apps:
        g = parent(c)
        tests = []
        while g is not None and g is not fn:
            if isinstance(g, (ast.If, ast.While, ast.IfExp)):
                tests.append(g.test)
            g = parent(g)
        # a test on the *content* of the lines already written: an element of the list (`out[-1]`) or membership in it; emptiness / length
        # tests (a header written once) are not about the statement being emitted
        hist = [t for t in tests if any((isinstance(x, ast.Subscript) and norm(x.value) == L) or
                                        (isinstance(x, ast.Compare) and any(isinstance(o, (ast.In, ast.NotIn)) for o in x.ops) and any(norm(c_) == L for c_ in x.comparators))
                                        for x in ast.walk(t))]
        n += 1
        if hist:
            ctx.fail("export.every-statement", m, c,
                     f"to_openqasm writes `{short(c)}` only when `{short(hist[0], 70)}`, a test on the lines already written: two identical consecutive statements "
                     f"(the same gate twice on the same register) are exported once", func="CircuitBase.to_openqasm",
                     construct="to_openqasm: emission depends on the lines already written")
        else:
            ctx.ok("export.every-statement", m, c)


def rule_lookahead_guard(ctx: Ctx) -> None:
    """parse.lookahead-guard: from_openqasm recognises multi-statement blocks by looking ahead in the statement list under a guard
    `i + K < len(cmds)`.  The guard has to admit exactly the offsets the block reads: with K smaller than the largest offset read the parser
    indexes past the end, with K larger a block that ends at the last statement of the script (a circuit whose last operation is a
    measure-and-reset) is not recognised and the import fails or yields another operation."""
    repo = ctx.repo
    m = repo.module(DAG)
    fn = repo.anchor(DAG, "CircuitDAG.from_openqasm")
    ctx.touch(m, fn)
    n = 0
    for i in [x for x in ast.walk(fn) if isinstance(x, ast.If)]:
        t = i.test
        if isinstance(t, ast.Compare) and len(t.ops) == 1 and isinstance(t.ops[0], (ast.Gt, ast.GtE)) and isinstance(t.comparators[0], ast.BinOp):
            # `len(cmds) > i + K` is the same guard written the other way round
            t = ast.Compare(left=t.comparators[0], ops=[ast.Lt() if isinstance(t.ops[0], ast.Gt) else ast.LtE()], comparators=[t.left])
        if not (isinstance(t, ast.Compare) and len(t.ops) == 1 and isinstance(t.ops[0], (ast.Lt, ast.LtE)) and isinstance(t.left, ast.BinOp) and isinstance(t.left.op, ast.Add)
                and isinstance(t.left.left, ast.Name) and isinstance(t.left.right, ast.Constant) and isinstance(t.comparators[0], ast.Call)
                and call_name(t.comparators[0]) == "len" and t.comparators[0].args):
            continue
        iv, K, X = t.left.left.id, t.left.right.value, norm(t.comparators[0].args[0])
        if isinstance(t.ops[0], ast.LtE):
            K -= 1
        offs = []
        for sub in [x for st in i.body for x in ast.walk(st) if isinstance(x, ast.Subscript) and norm(x.value) == X]:
            sl = sub.slice
            if isinstance(sl, ast.Name) and sl.id == iv:
                offs.append(0)
            elif isinstance(sl, ast.BinOp) and isinstance(sl.op, ast.Add) and isinstance(sl.left, ast.Name) and sl.left.id == iv and isinstance(sl.right, ast.Constant):
                offs.append(sl.right.value)
        if not offs:
            continue
        n += 1
        mx = max(offs)
        # splitting the script at ';' leaves one trailing blank element; unless blank statements are filtered out of the list, a guard that asks
        # for one statement more than it reads is still satisfied by a block at the very end
        Xn = X.split(".")[-1]
        filtered = any(isinstance(a, ast.Assign) and norm(a.targets[0]) == Xn and isinstance(a.value, (ast.ListComp, ast.Call)) and
                       (any(g_.ifs for c_ in ast.walk(a.value) if isinstance(c_, ast.ListComp) for g_ in c_.generators) or "filter" in norm(a.value))
                       for a in ast.walk(fn))
        slack = 0 if filtered else 1
        if mx <= K <= mx + slack:
            ctx.ok("parse.lookahead-guard", m, i, what=f"look-ahead of {mx} statements under `{short(t)}`")
        elif K > mx:
            ctx.fail("parse.lookahead-guard", m, i,
                     f"from_openqasm reads `{X}[{iv} + {mx}]` at most under the guard `{short(t)}`, which also demands statement {iv} + {K}: a block that ends at the "
                     f"last statement of the script is not recognised (a circuit whose last operation is a measure-and-reset imports as a different operation or fails)",
                     func="CircuitDAG.from_openqasm", construct=f"from_openqasm: guard i + {K} for a look-ahead of {mx}")
        else:
            ctx.fail("parse.lookahead-guard", m, i, f"from_openqasm reads `{X}[{iv} + {mx}]` under the guard `{short(t)}`, which only ensures statement {iv} + {K} exists",
                     func="CircuitDAG.from_openqasm", construct=f"from_openqasm: guard i + {K} for a look-ahead of {mx}")
    if n == 0:
        raise AnalysisError("from_openqasm: no look-ahead guard found")


def run(ctx: Ctx) -> None:
    rule_export_every_statement(ctx)
    rule_lookahead_guard(ctx)
    rule_json_ctor(ctx)
    rule_json_wrapper_complete(ctx)
    rule_wrapper_per_operation(ctx)
    rule_qasm_classical_register(ctx)
    rule_json_fields(ctx)
    from ..rules import order as _order
    _order.rule_sequence_source(ctx, [("graphiq/circuit/circuit_dag.py", "CircuitDAG.to_json"), ("graphiq/circuit/circuit_dag.py", "CircuitDAG._slim_seq"), ("graphiq/circuit/circuit_base.py", "CircuitBase.to_openqasm")])
    from ..rules import memo as _memo
    _memo.rule_memo_sound(ctx, ['graphiq/circuit/circuit_dag.py', 'graphiq/utils/openqasm_lib.py', 'graphiq/circuit/ops.py'])
    _memo.rule_falsy_zero(ctx, ['graphiq/circuit/circuit_dag.py', 'graphiq/utils/openqasm_lib.py', 'graphiq/circuit/ops.py'])
    _memo.rule_arg_names(ctx, ['graphiq/circuit/circuit_dag.py', 'graphiq/utils/openqasm_lib.py', 'graphiq/circuit/ops.py'])
    _memo.rule_fixed_width(ctx, ['graphiq/circuit/circuit_dag.py', 'graphiq/utils/openqasm_lib.py', 'graphiq/circuit/ops.py'])
    _memo.rule_paste_incomplete(ctx, ['graphiq/circuit/circuit_dag.py', 'graphiq/utils/openqasm_lib.py', 'graphiq/circuit/ops.py'])
    _memo.rule_negative_start(ctx, ['graphiq/circuit/circuit_dag.py', 'graphiq/utils/openqasm_lib.py', 'graphiq/circuit/ops.py'])
    _memo.rule_elim_no_pivot(ctx, ['graphiq/circuit/circuit_dag.py', 'graphiq/utils/openqasm_lib.py', 'graphiq/circuit/ops.py'])
    _memo.rule_subject_drift(ctx, ['graphiq/circuit/circuit_dag.py', 'graphiq/utils/openqasm_lib.py', 'graphiq/circuit/ops.py'])
    _memo.rule_isinstance_on_class(ctx, ['graphiq/circuit/circuit_dag.py', 'graphiq/utils/openqasm_lib.py', 'graphiq/circuit/ops.py'])
    _memo.rule_zip_truncation(ctx, ['graphiq/circuit/circuit_dag.py', 'graphiq/utils/openqasm_lib.py', 'graphiq/circuit/ops.py'])
    _memo.rule_search_fallthrough(ctx, ['graphiq/circuit/circuit_dag.py', 'graphiq/utils/openqasm_lib.py', 'graphiq/circuit/ops.py'])
    _memo.rule_zip_pairing(ctx, ['graphiq/circuit/circuit_dag.py', 'graphiq/utils/openqasm_lib.py', 'graphiq/circuit/ops.py'])
    rule_regex_groups(ctx)
    rule_header_cover(ctx)
    rule_table_json(ctx)
    rule_table_qasm(ctx)
    rule_declares_used(ctx)
    rule_instance_info(ctx)
    rule_wrapper_export_order(ctx)
    rule_derived_fields(ctx)
    rule_export_determinism(ctx)
    ctx.floor("table.json", 10)
    ctx.floor("table.qasm", 10)
    ctx.floor("setter.derived-fields", 8)


KNOCKOUTS = [
    Knockout("export-drops-repeated-statement", BASE, sub_once('            if gate_application != "":\n                openqasm_str.append(gate_application)', '            if gate_application != "" and gate_application != openqasm_str[-1]:\n                openqasm_str.append(gate_application)'), "export.every-statement", "already written"),
    Knockout("import-lookahead-guard-too-strong", DAG, sub_once("                if i + 3 < len(qasm_commands):", "                if i + 5 < len(qasm_commands):"), "parse.lookahead-guard", "last statement"),
    Knockout("wrapper-info-stored-on-the-class", OPS, sub_once("        self._openqasm_info = oq_lib.single_qubit_wrapper_info(operations)\n", "        type(self)._openqasm_info = oq_lib.single_qubit_wrapper_info(operations)\n"), "state.class-store", "stored on the class"),
    Knockout("defined-gate-test-by-name-length", OQ, sub_once("    if gate_name in gate_name_dict:", "    if len(gate_name) <= 1:"), "table.qasm", "membership test"),
    Knockout("classical-cz-declares-x", OQ, sub_once("    definition = sigma_z_info().definitions[0]\n\n    def usage(q_reg, q_reg_type, c_reg):\n        return (\n            f\"measure {q_reg_type[0]}{q_reg[0]}[0] -> c{c_reg[0]}[0]; \\n\"\n            f\"if (c{c_reg[0]}==1) z", "    definition = sigma_x_info().definitions[0]\n\n    def usage(q_reg, q_reg_type, c_reg):\n        return (\n            f\"measure {q_reg_type[0]}{q_reg[0]}[0] -> c{c_reg[0]}[0]; \\n\"\n            f\"if (c{c_reg[0]}==1) z"), "qasm.declares-used", "ClassicalCZ"),
    Knockout("wrapper-info-skips-repeated-gates", OQ, sub_once("        gate_name_dict[oq_info.gate_name] = oq_info\n        if (\n            oq_info.gate_name == \"\"\n        ):  # this is a gate we don't actually need (effectively identity)\n            continue\n", "        if oq_info.gate_name in gate_name_dict:\n            continue\n        gate_name_dict[oq_info.gate_name] = oq_info\n"), "qasm.per-operation", "skipped for another reason"),
    Knockout("json-wrapper-drops-identities", "graphiq/circuit/circuit_dag.py", sub_once("                    if name:\n                        op_list.append(name)", "                    if name and g is not ops.Identity:\n                        op_list.append(name)"), "json.wrapper-complete", "op_list filtered"),
    Knockout("classical-op-no-default-ctor", OPS, sub_once('        control=0,\n        control_type="e",\n        target=0,\n        target_type="p",\n        c_register=0,\n        noise=nm.NoNoise(),\n    ):\n', '        control,\n        control_type,\n        target,\n        target_type,\n        c_register=0,\n        noise=nm.NoNoise(),\n    ):\n'), "json.ctor", "not default-constructible", on_fixed_only=True),
    Knockout("measure-into-quantum-index", OQ, sub_nth('-> c{c_reg[0]}[0]; \\n"', '-> c{q_reg[0]}[0]; \\n"', 0), "qasm.creg", "measure target"),
    Knockout("export-node-order", "graphiq/circuit/circuit_dag.py", sub_once("        for op in self.sequence():\n            if isinstance(op, ops.InputOutputOperationBase):", "        for op in [self.dag.nodes[k]['op'] for k in self.dag.nodes]:\n            if isinstance(op, ops.InputOutputOperationBase):"), "order.topological", "node-creation order"),

    Knockout("regex-repeated-group", DAG,
             sub_once('                q_reg = int(re.split(r"\\[", q_str[1:])[0])', '                q_reg = int(re.search(r"(e|p)(\\d)+\\[0\\]", command).group(2))'),
             "regex.repeated-group", "group [2]"),
    Knockout("header-replace-op", DAG, sub_once("        self._openqasm_update(new_operation)\n        self.dag.nodes[node][\"op\"] = new_operation", "        self.dag.nodes[node][\"op\"] = new_operation"),
             "header.cover", "replace_op"),
    Knockout("E1-writer-value", OPS, sub_once('        CZ: "cz",\n', '        CZ: "cx",\n'), "table.json", "CZ"),
    Knockout("E2-reader-key", OPS, sub_once('        "h": Hadamard,\n', '        "hd": Hadamard,\n'), "table.qasm", "Hadamard"),
    Knockout("E2-idiom-key", OPS, sub_once('"classical z": ClassicalCZ,', '"classical z": ClassicalCNOT,'), "table.qasm", "classical z"),
    Knockout("F1-wrapper-body-order", OQ, sub_once('def_usage = f"{oq_info.gate_name} a;\\n" + def_usage', 'def_usage += f"{oq_info.gate_name} a;\\n"'),
             "order.wrapper", "def_usage", on_fixed_only=True),
    Knockout("F1-wrapper-name-order", OQ, sub_once("        gate_name += oq_info.gate_name", "        gate_name = oq_info.gate_name + gate_name"),
             "order.wrapper", "gate_name"),
    Knockout("setter-derived-register", OPS,
             sub_nth("        self._update_q_reg(q_reg)\n        self.register = q_reg[0]\n", "        self._update_q_reg(q_reg)\n", 0),
             "setter.derived-fields", "register"),
    Knockout("F6-set-on-export", BASE, sub_once('+ "\\n".join(self.openqasm_defs.keys())', '+ "\\n".join(set(self.openqasm_defs.keys()))'),
             "order.sethash", "to_openqasm"),
]
