"""C06 — noisy simulation is physical, backend-independent and switchable (structural clauses, DESIGN §5.6)."""
from __future__ import annotations

from ..driver import Knockout, sub_nth, sub_once
from ..report import Ctx
from ..rules import effects, gatesum, hooks, tables
from ..rules.effects import CBASE, DAG, MC, NM

EXPLANATION = (
    "Static rules over noise_models.py, compiler_base.py and the noise-assignment code: each supported model "
    "(DepolarizingNoise, PauliError, PhotonLoss) has a non-raising branch for every representation the compile loop can "
    "hand it — DensityMatrix, MixedStabilizer (noise on the stabilizer backend), Stabilizer (Monte-Carlo) — decided over "
    "the class hierarchy (dispatch.backend-cover); in CompilerBase.compile the flag no_noise starts as `not "
    "self._noise_simulation`, is only updated monotonically (`... or no_noise`), its arm applies exactly the ideal gate, "
    "unmapped gates default to NoNoise() and NoNoise feeds the flag, so with the switch off or an empty map no noise code "
    "is reachable (order.noise-off); the per-backend branches of one model scale by the same factor — (1 - loss_rate) for "
    "PhotonLoss, one shared `factors` array with the identity first for DepolarizingNoise (sibling.noise-factor); per-gate "
    "noise lists of a wrapper follow `operations` order (order.wrapper); Pauli tags PauliError hands to the stabilizer "
    "backend are handled by run_circuit (vocab.gates); the temporary noise swap in compile is restored on every path "
    "(effect.shared-op-store). Does not decide positivity, trace = product of survival probabilities, or equality of "
    "fidelities across backends numerically.")


def run(ctx: Ctx) -> None:
    from ..rules import order as _order_seq
    _order_seq.rule_sequence_source(ctx, [("graphiq/circuit/circuit_dag.py", "CircuitDAG._slim_seq")])  # the noisy copy (assign_noise) replays the operations in application order
    from ..rules import placement as _placement
    _placement.rule_noise_placement(ctx)
    from ..rules import effects as _eff
    _eff.rule_weighted_fidelity(ctx)
    _eff.rule_pauli_tags(ctx)
    _eff.rule_saturating_strength(ctx)
    from ..rules import shapes as _shp
    _shp.rule_trace_distance_shape(ctx)   # 'same fidelity with any pure target' goes through dmf.fidelity's pure-state shortcut
    from .c17 import rule_metric_value
    rule_metric_value(ctx)  # Infidelity.evaluate: 1 - F, and the representation literals of its dispatch
    from .c07 import rule_wrappers
    from ..rules import tableau as _tb_sz
    _tb_sz.rule_size_stale_per_branch(ctx)
    rule_wrappers(ctx)  # the mixed-stabilizer gate methods are what a noisy simulation runs; they must agree with the pure ones
    from ..rules import memo as _memo
    _memo.rule_memo_sound(ctx, ['graphiq/noise/noise_models.py', 'graphiq/backends/compiler_base.py'])
    _memo.rule_falsy_zero(ctx, ['graphiq/noise/noise_models.py', 'graphiq/backends/compiler_base.py'])
    _memo.rule_arg_names(ctx, ['graphiq/noise/noise_models.py', 'graphiq/backends/compiler_base.py'])
    _memo.rule_fixed_width(ctx, ['graphiq/noise/noise_models.py', 'graphiq/backends/compiler_base.py'])
    _memo.rule_paste_incomplete(ctx, ['graphiq/noise/noise_models.py', 'graphiq/backends/compiler_base.py'])
    _memo.rule_negative_start(ctx, ['graphiq/noise/noise_models.py', 'graphiq/backends/compiler_base.py'])
    _memo.rule_elim_no_pivot(ctx, ['graphiq/noise/noise_models.py', 'graphiq/backends/compiler_base.py'])
    _memo.rule_subject_drift(ctx, ['graphiq/noise/noise_models.py', 'graphiq/backends/compiler_base.py'])
    _memo.rule_isinstance_on_class(ctx, ['graphiq/noise/noise_models.py', 'graphiq/backends/compiler_base.py'])
    _memo.rule_zip_truncation(ctx, ['graphiq/noise/noise_models.py', 'graphiq/backends/compiler_base.py'])
    _memo.rule_search_fallthrough(ctx, ['graphiq/noise/noise_models.py', 'graphiq/backends/compiler_base.py'])
    _memo.rule_zip_pairing(ctx, ['graphiq/noise/noise_models.py', 'graphiq/backends/compiler_base.py'])
    repo = ctx.repo
    effects.rule_backend_cover(ctx)
    effects.rule_noise_off(ctx)
    effects.rule_noise_factor(ctx)
    effects.rule_noise_order(ctx)
    from .c13 import rule_unwrap_order
    rule_unwrap_order(ctx)   # where the wrapper-level noise lands relative to the composite gate (before / after)
    hooks.rule_pair_noise_applied(ctx)
    hooks.rule_single_noise_applied(ctx)
    effects.rule_shared_op_store(ctx)
    effects.rule_stale_swap_read(ctx)
    effects.rule_weight_preserve(ctx)
    effects.rule_getter_alias(ctx, [NM], [("graphiq/backends/stabilizer/state.py", "MixedStabilizer"), ("graphiq/backends/stabilizer/state.py", "Stabilizer"),
                                          ("graphiq/backends/density_matrix/state.py", "DensityMatrix")])
    tm = repo.module(gatesum.TRANSFORM)
    handled = tables.handled_tags_chain(repo, tm, repo.anchor(gatesum.TRANSFORM, "run_circuit"))
    tables.rule_vocab(ctx, "vocab.gates", [(NM, "PauliError.apply")], "run_circuit", handled)
    ctx.floor("dispatch.backend-cover", 9)
    ctx.floor("effect.getter-alias", 1)
    ctx.floor("order.noise-off", 6)
    ctx.floor("sibling.noise-factor", 5)


KNOCKOUTS = [
    Knockout("dm-additional-noise-skips-identity", "graphiq/backends/density_matrix/compiler.py", sub_nth("        if isinstance(op, ops.OneQubitOperationBase):\n            op.noise.apply(state, n_quantum, [q_index(op.register, op.reg_type)])\n", "        if isinstance(op, ops.InputOutputOperationBase) or isinstance(op, ops.Identity):\n            pass\n        elif isinstance(op, ops.OneQubitOperationBase):\n            op.noise.apply(state, n_quantum, [q_index(op.register, op.reg_type)])\n", 0), "noise.single-applied", "Identity"),
    Knockout("unwrap-wrapper-noise-on-the-wrong-side", "graphiq/circuit/ops.py", sub_once("                gates.insert(0, noise)\n", "                gates.append(noise)\n"), "unwrap.order", "applied after the gate"),
    Knockout("unwrap-built-in-application-order-carrier-not-moved", "graphiq/circuit/ops.py", sub_once("        return gates[::-1]", "        return gates"), "unwrap.order", "application sequence"),
    Knockout("depolarizing-strength-clamped", NM, sub_once('        depolarizing_prob = self.noise_parameters["Depolarizing probability"]\n', '        depolarizing_prob = self.noise_parameters["Depolarizing probability"]\n        mixing_prob = np.clip(4 * depolarizing_prob / 3, 0.0, 1.0)\n'), "num.saturating-strength", "clamp active"),
    Knockout("compile-tests-the-class-for-instance", "graphiq/backends/compiler_base.py",
             sub_once("            is_controlled_op = isinstance(\n                op, ops.ControlledPairOperationBase\n            ) or isinstance(op, ops.ClassicalControlledPairOperationBase)",
                      "            kind = type(op)\n            is_controlled_op = isinstance(\n                kind, ops.ControlledPairOperationBase\n            ) or isinstance(kind, ops.ClassicalControlledPairOperationBase)"),
             "type.isinstance-on-class", "CompilerBase.compile"),
    Knockout("pauli-error-y-applies-z-on-dm", NM, sub_once('                error_op = dmf.get_one_qubit_gate(n_quantum, reg_list[0], dmf.sigmay())', '                error_op = dmf.get_one_qubit_gate(n_quantum, reg_list[0], dmf.sigmaz())'), "noise.pauli-tags", "tag Y applies"),
    Knockout("pauli-error-tag-test-inverted", NM, sub_once('            if pauli_error == "X":\n                state_rep.apply_sigmax(reg_list[0])', '            if pauli_error != "X":\n                state_rep.apply_sigmax(reg_list[0])'), "noise.pauli-tags", "tag"),
    Knockout("placement-both-after-or", CBASE, sub_once("                        if after_control and after_target:", "                        if after_control or after_target:"), "noise.placement", "noise must be applied once"),
    Knockout("placement-one-qubit-before-branch-order", CBASE, sub_once("                        else:\n                            self._apply_additional_noise(\n                                state, op, circuit.n_quantum, q_index\n                            )\n                            self.compile_one_gate(\n                                state,\n                                op,\n                                circuit.n_quantum,\n                                q_index,\n                                classical_registers,\n                            )\n                    elif isinstance(op.noise, nm.ReplacementNoiseBase):", "                        else:\n                            self.compile_one_gate(\n                                state,\n                                op,\n                                circuit.n_quantum,\n                                q_index,\n                                classical_registers,\n                            )\n                            self._apply_additional_noise(\n                                state, op, circuit.n_quantum, q_index\n                            )\n                    elif isinstance(op.noise, nm.ReplacementNoiseBase):"), "noise.placement", "before the gate"),
    Knockout("placement-no-noise-requires-both-conditions", CBASE, sub_once("                no_noise = no_noise or isinstance(op.noise, nm.NoNoise)", "                no_noise = no_noise and isinstance(op.noise, nm.NoNoise)"), "noise.placement", "compile:"),
    Knockout("placement-controlled-mixed-drops-control-noise", CBASE, sub_once("                            tmp_noise = [noise_copy[0], nm.NoNoise]\n", "                            tmp_noise = [nm.NoNoise, nm.NoNoise]\n"), "noise.placement", "control noise"),
    Knockout("noisy-gates-target-falls-back-to-control", "graphiq/circuit/circuit_dag.py", sub_once("                        op.noise = [noise_object, noise_object]\n", "                        control_noise = noise_object\n                        target_noise = noise_object\n                        control_noise = mapping.get(name + \"_control\", control_noise)\n                        target_noise = mapping.get(name + \"_target\", control_noise)\n                        op.noise = [control_noise, target_noise]\n"), "paste.incomplete", "_noisy_gates"),
    Knockout("depolarizing-y-replaced-by-phase", NM, sub_once("                transform.y_gate,\n", "                transform.phase_gate,\n"), "noise.pauli-set", "Pauli set"),
    Knockout("depolarizing-dm-two-x", NM, sub_once("                dmf.sigmay(),\n                dmf.sigmaz(),\n            ]\n            kraus_ops_iter = itertools.product(single_qubit_kraus", "                dmf.sigmax(),\n                dmf.sigmaz(),\n            ]\n            kraus_ops_iter = itertools.product(single_qubit_kraus"), "noise.pauli-set", "Pauli set"),
    Knockout("branch-fidelity-unweighted", "graphiq/metrics.py", sub_once("[p_i * sfm.fidelity(tableau, t_i) for p_i, t_i in rep_data.mixture]", "[sfm.fidelity(tableau, t_i) for p_i, t_i in rep_data.mixture]"), "weight.fidelity", "not weighted"),
    Knockout("measurement-renormalises", "graphiq/backends/density_matrix/state.py", sub_once("probs[outcome] / np.sum(probs)", "probs[outcome]"), "weight.preserve", "renormalises a sub-normalised state", on_fixed_only=True),
    Knockout("noise-not-restored", CBASE, sub_nth("                            op.noise = noise_copy\n", "", 0), "effect.stale-swap-read", "not restored"),
    Knockout("mixture-getter-copies", "graphiq/backends/stabilizer/state.py", sub_once("        return self._mixture\n\n    @mixture.setter", "        return self._mixture.copy()\n\n    @mixture.setter"), "effect.getter-alias", "getter returns a copy"),
    Knockout("weight-renormalise-channel", "graphiq/backends/density_matrix/state.py", sub_once("            self._data = dmf.hermitianize(tmp_state)", "            self._data = dmf.hermitianize(tmp_state)\n            self._data = self._data / np.trace(self._data)"), "weight.preserve", "apply_channel"),
    Knockout("weight-mixed-prob", "graphiq/backends/stabilizer/state.py", sub_once("            (p_i, transform.hadamard_gate(t_i, qubit_position))\n            for (p_i, t_i) in self._mixture", "            (1.0, transform.hadamard_gate(t_i, qubit_position))\n            for (p_i, t_i) in self._mixture"), "weight.preserve", "apply_hadamard"),
    Knockout("stale-swap-read", CBASE, sub_once("                            tmp_noise = [noise_copy[0], nm.NoNoise]", "                            tmp_noise = [op.noise[0], nm.NoNoise]"), "effect.stale-swap-read", "swap of op.noise", on_fixed_only=True),
    Knockout("pair-noise-early-return", hooks.DM, sub_once("            control_noise.apply(\n                state, n_quantum, [q_index(op.control, op.control_type)]\n            )\n            target_noise.apply", "            control_noise.apply(\n                state, n_quantum, [q_index(op.control, op.control_type)]\n            )\n            if isinstance(target_noise, nm.NoNoise):\n                return\n            control_noise.apply"), "noise.both-applied", "pair noise"),
    Knockout("A3-photonloss-mixed", NM,
             sub_once("        elif isinstance(state_rep, MixedStabilizer):\n            mixture = state_rep.mixture\n            for i in range(len(mixture)):\n                mixture[i] = ((1 - loss_rate) * mixture[i][0], mixture[i][1])\n", ""),
             "dispatch.backend-cover", "PhotonLoss.apply: no branch for MixedStabilizer"),
    Knockout("F5-flag-inverted", CBASE, sub_once("            no_noise = not self._noise_simulation", "            no_noise = self._noise_simulation"), "order.noise-off", "no_noise"),
    Knockout("F5-non-monotone", CBASE, sub_once("                no_noise = no_noise or isinstance(op.noise, nm.NoNoise)", "                no_noise = isinstance(op.noise, nm.NoNoise)"),
             "order.noise-off", "no_noise"),
    Knockout("F5-noise-in-ideal-arm", CBASE,
             sub_once("            if no_noise:\n                self.compile_one_gate(\n                    state, op, circuit.n_quantum, q_index, classical_registers\n                )\n",
                      "            if no_noise:\n                self.compile_one_gate(\n                    state, op, circuit.n_quantum, q_index, classical_registers\n                )\n                self._apply_additional_noise(state, op, circuit.n_quantum, q_index)\n"),
             "order.noise-off", "noise-free arm"),
    Knockout("B6-loss-factor", NM, sub_once("            state_rep.data = (1 - loss_rate) * state_rep.data", "            state_rep.data = loss_rate * state_rep.data"),
             "sibling.noise-factor", "PhotonLoss"),
    Knockout("B6-depol-identity-not-first", NM,
             sub_once("            single_qubit_trans = [\n                transform.identity,\n                transform.x_gate,", "            single_qubit_trans = [\n                transform.x_gate,\n                transform.identity,"),
             "noise.pauli-set", "DepolarizingNoise"),
    Knockout("E6-pauli-tag", NM, sub_once('                gate_list.append(("Y", reg_list[0]))', '                gate_list.append(("iY", reg_list[0]))'), "vocab.gates", "iY", on_fixed_only=False),
    Knockout("D2-compile-no-restore", CBASE, sub_nth("                            op.noise = noise_copy\n", "", 1), "effect.shared-op-store", "compile"),
]
