"""C19 — random-search solvers: reproducible, honest, ordered (structural clauses, DESIGN §5.19)."""
from __future__ import annotations

from ..driver import Knockout, sub_nth, sub_once
from ..report import Ctx
from ..rules import shapes, solvers
from ..rules.solvers import EVO, HYB, SB

EXPLANATION = (
    "Static rules over solver_base.py, evolutionary_solver.py, hybrid_solvers.py: every source of randomness is one of "
    "the two global generators that SolverBase.seed seeds with its argument (own.rng); no set is iterated into an ordered "
    "result in the solver modules — edge triples and node ids contain strings, so set order depends on PYTHONHASHSEED "
    "and the list is then indexed by a seeded random integer (order.sethash); whatever enters the hall of fame, the next "
    "population, a population seeded from the user's circuit, or the hybrid solver's perturbed circuits is a copy, and "
    "each insertion is followed by pop and break (effect.hof-copy); the score stored with a circuit is metric.evaluate of "
    "compile(that same circuit) with validate() before and no mutation in between, and the reported result is hof[0] "
    "(effect.result-provenance). Does not decide non-decreasing order / monotone best score (they hold only up to the "
    "np.isclose tolerance used by update_hof).")


def run(ctx: Ctx) -> None:
    from ..rules import solvers as _slv
    _slv.rule_shared_default(ctx)
    solvers.rule_own_hof(ctx)
    from ..rules import memo as _memo
    _memo.rule_memo_sound(ctx, ['graphiq/solvers/solver_base.py', 'graphiq/solvers/evolutionary_solver.py'])
    _memo.rule_falsy_zero(ctx, ['graphiq/solvers/solver_base.py', 'graphiq/solvers/evolutionary_solver.py'])
    _memo.rule_arg_names(ctx, ['graphiq/solvers/solver_base.py', 'graphiq/solvers/evolutionary_solver.py'])
    _memo.rule_fixed_width(ctx, ['graphiq/solvers/solver_base.py', 'graphiq/solvers/evolutionary_solver.py'])
    _memo.rule_paste_incomplete(ctx, ['graphiq/solvers/solver_base.py', 'graphiq/solvers/evolutionary_solver.py'])
    _memo.rule_negative_start(ctx, ['graphiq/solvers/solver_base.py', 'graphiq/solvers/evolutionary_solver.py'])
    _memo.rule_elim_no_pivot(ctx, ['graphiq/solvers/solver_base.py', 'graphiq/solvers/evolutionary_solver.py'])
    _memo.rule_subject_drift(ctx, ['graphiq/solvers/solver_base.py', 'graphiq/solvers/evolutionary_solver.py'])
    _memo.rule_isinstance_on_class(ctx, ['graphiq/solvers/solver_base.py', 'graphiq/solvers/evolutionary_solver.py'])
    _memo.rule_zip_truncation(ctx, ['graphiq/solvers/solver_base.py', 'graphiq/solvers/evolutionary_solver.py'])
    _memo.rule_search_fallthrough(ctx, ['graphiq/solvers/solver_base.py', 'graphiq/solvers/evolutionary_solver.py'])
    _memo.rule_zip_pairing(ctx, ['graphiq/solvers/solver_base.py', 'graphiq/solvers/evolutionary_solver.py'])
    solvers.rule_rng(ctx)
    solvers.rule_sethash(ctx, [EVO, HYB, SB])
    solvers.rule_score_fresh(ctx)
    solvers.rule_noise_keys_cover(ctx)
    solvers.rule_hof_copy(ctx)
    shapes.rule_hof_order(ctx)
    solvers.rule_result_provenance(ctx, EVO, "EvolutionarySolver.solve", True)
    ctx.floor("own.rng", 12)
    ctx.floor("effect.hof-copy", 6)
    ctx.floor("order.sethash", 10)


KNOCKOUTS = [
    Knockout("hof-tie-break-stores-old-score", SB, sub_nth("self.hof.insert(i, (score, circuit.copy()))", "self.hof.insert(i, (self.hof[i][0], circuit.copy()))", 0), "hof.order", "displaced entry's score"),
    Knockout("setting-keywords-written-into-default-instance", SB, sub_once("        self.setting = solver_setting\n        self.hof = [(np.inf, None)", "        self.setting = solver_setting\n        for key, value in kwargs.items():\n            setattr(self.setting, key, value)\n        self.hof = [(np.inf, None)"), "effect.shared-default", "shared default"),
    Knockout("tournament-one-deepcopy-of-the-list", SB, sub_once("            population_new.append(copy.deepcopy(best))\n        return population_new", "            population_new.append(best)\n        return copy.deepcopy(population_new)"), "effect.hof-copy", "one deepcopy"),
    Knockout("member-rescoring-skipped-when-node-count-unchanged", EVO, sub_once("                transformation(circuit)\n                circuit.validate()\n", "                n_nodes = circuit.dag.number_of_nodes()\n                transformation(circuit)\n                circuit.validate()\n                if i > 0 and circuit.dag.number_of_nodes() == n_nodes:\n                    continue\n"), "score.fresh", "skipped on some path"),
    Knockout("noise-flag-from-one-qubit-sections-only", EVO, sub_once("            self.noise_simulation = True\n", "            self.noise_simulation = any(len(noise_model_mapping.get(k, {})) > 0 for k in (\"e\", \"p\"))\n"), "keys.cover", "summarised over"),
    Knockout("hof-seeded-directly", "graphiq/solvers/hybrid_solvers.py", sub_once("        _, ideal_circuit = deterministic_solver.result\n", "        s0, ideal_circuit = deterministic_solver.result\n        self.hof[0] = (s0, ideal_circuit)\n"), "own.hof", "outside update_hof"),
    Knockout("hof-order-gt", SB, sub_once("                elif score < self.hof[i][0]:", "                elif score > self.hof[i][0]:"), "hof.order", "update_hof"),
    Knockout("hof-order-wrong-position", SB, sub_nth("self.hof.insert(i, (score, circuit.copy()))", "self.hof.insert(0, (score, circuit.copy()))", 1), "hof.order", "update_hof"),
    Knockout("C6-default-rng", EVO, sub_nth("        ind = np.random.randint(len(possible_edge_pairs))", "        ind = np.random.default_rng().integers(len(possible_edge_pairs))", 0),
             "own.rng", "default_rng"),
    Knockout("C6-seed-drops-random", SB, sub_once("        np.random.seed(seed)\n        random.seed(seed)", "        np.random.seed(seed)"), "own.rng", "random.seed"),
    Knockout("F6-set-iteration", EVO,
             sub_once("            possible_edges = [e for e in p_edges if e not in incompatible]", "            possible_edges = set(p_edges) - incompatible"),
             "order.sethash", "_select_possible_measurement_position", on_fixed_only=True),
    Knockout("D3-hof-no-copy", SB, sub_nth("self.hof.insert(i, (score, circuit.copy()))", "self.hof.insert(i, (score, circuit))", 1), "effect.hof-copy", "hof.insert"),
    Knockout("D3-tournament-no-copy", SB, sub_once("population_new.append(copy.deepcopy(best))", "population_new.append(best)"), "effect.hof-copy", "population_new"),
    Knockout("D3-user-circuit", EVO, sub_once("population.append((np.inf, self.circuit.copy()))", "population.append((np.inf, self.circuit))"), "effect.hof-copy", "self.circuit"),
    Knockout("D3-no-pop", SB, sub_nth("                    self.hof.insert(i, (score, circuit.copy()))\n                    self.hof.pop()\n                    break",
                                      "                    self.hof.insert(i, (score, circuit.copy()))\n                    break", 0), "effect.hof-copy", "pop; break"),
    Knockout("result-on-improvement-only", EVO, sub_once("        self.result = (self.hof[0][0], self.hof[0][1])", "        if self.result is None or self.hof[0][0] < self.result[0]:\n            self.result = (self.hof[0][0], self.hof[0][1])"), "effect.result-provenance", "conditionally"),
    Knockout("tournament-over-set", SB, sub_once("tourn_pop = random.choices(population, k=k)", "tourn_pop = set(random.choices(population, k=k))"), "order.sethash", "tournament_selection"),
    Knockout("D4-result-last", EVO, sub_once("self.result = (self.hof[0][0], self.hof[0][1])", "self.result = (self.hof[-1][0], self.hof[-1][1])"), "effect.result-provenance", "result"),
    Knockout("D4-mutate-after-compile", EVO,
             sub_once("                score = self.metric.evaluate(compiled_state, circuit)\n", "                score = self.metric.evaluate(compiled_state, circuit)\n                circuit.remove_identity()\n"),
             "effect.result-provenance", "remove_identity"),
    Knockout("D4-no-validate", EVO, sub_once("                transformation(circuit)\n                circuit.validate()\n", "                transformation(circuit)\n"),
             "effect.result-provenance", "validate"),
]
