"""C16 — relabelling, isomorph search and LC-orbit walks stay in the equivalence class (DESIGN §5.16)."""
from __future__ import annotations

from ..driver import Knockout, sub_nth, sub_once
from ..report import Ctx
from ..rules import orbits, shapes, tables
from ..rules.orbits import RELABEL

EXPLANATION = (
    "Static rules over graphiq/utils/relabel_module.py: every element an orbit explorer places in its result list is the "
    "input graph (or a copy) or local_comp_graph(<orbit element>, node) — a provenance closure over lc_orbit_finder, "
    "rgs_orbit_finder, linear_partial_orbit, depth_first_orbit — and each returns that list; every adjacency matrix "
    "automorph_check records is relabel(input, permutation), de-duplicated through a set of flattened tuples with the "
    "input first and not repeated; every return of iso_finder is sliced [:n_iso] or dominated by the loop condition "
    "len(..) < n_iso; every numpy attribute the module uses exists in the installed numpy stub (api.numpy). "
    "Does not decide that relabel() realises (p(u),p(v)), that get_relabel_map is an isomorphism, nor distinctness for "
    "explorers that do not de-duplicate by construction.")


def run(ctx: Ctx) -> None:
    from .c09 import rule_lc_position
    rule_lc_position(ctx)  # every orbit explorer steps with local_comp_graph
    from .c09 import rule_lc_matrix_form
    rule_lc_matrix_form(ctx)
    from ..rules import shapes as _shapes
    _shapes.rule_relabel_map_self(ctx)
    _shapes.rule_relabel_map_direction(ctx)
    from ..rules import memo as _memo
    _memo.rule_memo_sound(ctx, ['graphiq/utils/relabel_module.py'])
    _memo.rule_falsy_zero(ctx, ['graphiq/utils/relabel_module.py'])
    _memo.rule_arg_names(ctx, ['graphiq/utils/relabel_module.py'])
    _memo.rule_fixed_width(ctx, ['graphiq/utils/relabel_module.py'])
    _memo.rule_paste_incomplete(ctx, ['graphiq/utils/relabel_module.py'])
    _memo.rule_negative_start(ctx, ['graphiq/utils/relabel_module.py'])
    _memo.rule_elim_no_pivot(ctx, ['graphiq/utils/relabel_module.py'])
    _memo.rule_subject_drift(ctx, ['graphiq/utils/relabel_module.py'])
    _memo.rule_isinstance_on_class(ctx, ['graphiq/utils/relabel_module.py'])
    _memo.rule_zip_truncation(ctx, ['graphiq/utils/relabel_module.py'])
    _memo.rule_search_fallthrough(ctx, ['graphiq/utils/relabel_module.py'])
    _memo.rule_zip_pairing(ctx, ['graphiq/utils/relabel_module.py'])
    orbits.rule_orbit_provenance(ctx, ["lc_orbit_finder", "rgs_orbit_finder", "linear_partial_orbit", "depth_first_orbit"])
    orbits.rule_automorph(ctx)
    orbits.rule_iso_finder_bounds(ctx)
    orbits.rule_distinct_sources(ctx)
    orbits.rule_member_search(ctx)
    orbits.rule_iso_bounded(ctx)
    orbits.rule_prefix_set(ctx)
    orbits.rule_iso_input_first(ctx)
    orbits.rule_labelled_equality(ctx)
    shapes.rule_relabel_form(ctx)
    tables.rule_api_numpy(ctx, [RELABEL], advisory_rels=(["graphiq/noise/time_depend_noise.py", "graphiq/io.py",
                                                         "graphiq/data_collection/correlation_module.py"]
                                                        if ctx.tier == "thorough" else []))
    ctx.floor("flow.provenance-closure", 20)
    ctx.floor("api.numpy", 4)


KNOCKOUTS = [
    Knockout("member-search-first-candidate-decides", RELABEL, sub_once("        if check(graph, g):\n            iso = True\n            break\n", "        if g.number_of_edges() == graph.number_of_edges():\n            return check(graph, g)\n"), "distinct.member-search", "first member"),
    Knockout("depth-first-orbit-appends-along-paths", RELABEL, sub_once("    for lc_ops in path_set:\n        new_g = g\n        for x in lc_ops:\n            new_g = local_comp_graph(new_g, x)\n        orbit_list.append(new_g)\n", "    for lc_ops in path_list:\n        new_g = g\n        for x in lc_ops:\n            new_g = local_comp_graph(new_g, x)\n            orbit_list.append(new_g)\n"), "distinct.prefix-set", "along every path"),
    Knockout("iso-finder-plain-return-uncut", RELABEL, sub_once("            return adj_arr[:n_iso], mapping\n        return adj_arr[:n_iso]\n", "            return adj_arr[:n_iso], mapping\n        return adj_arr\n"), "iso.bounded", "unbounded return"),
    Knockout("orbit-finder-keeps-input-beside-scrambled-start", RELABEL, sub_once("        orbit_list = [new_g]\n", "        orbit_list.append(new_g)\n"), "distinct.source", "untested append"),
    Knockout("equal-graphs-compares-attributes", RELABEL, sub_once("    return np.array_equal(adj1, adj2)\n\n\ndef _compare_graphs_visual", "    return nx.utils.graphs_equal(g1, g2)\n\n\ndef _compare_graphs_visual"), "cmp.labelled-graphs", "graphs_equal"),
    Knockout("equal-graphs-own-node-orders", RELABEL, sub_once("    adj2 = (nx.to_numpy_array(g2, nodelist=node_list)).astype(bool)", "    adj2 = (nx.to_numpy_array(g2)).astype(bool)"), "cmp.labelled-graphs", "no common node order"),
    Knockout("relabel-map-swapped", "graphiq/utils/relabel_module.py", sub_once("    GM = isomorphism.GraphMatcher(g1, g2)", "    GM = isomorphism.GraphMatcher(g2, g1)"), "relabel.map-direction", "swapped"),
    Knockout("relabel-map-identity", "graphiq/utils/relabel_module.py", sub_once('return {**{-1: "self"}, **dict(zip(g1.nodes(), g2.nodes()))}', 'return {**{-1: "self"}, **dict(zip(g1.nodes(), g1.nodes()))}'), "relabel.map-self", "not the position pairing"),
    Knockout("dedup-against-tail", RELABEL, sub_once("check_isomorphism(g_lc, orbit_list, _only_auto=with_iso)", "check_isomorphism(g_lc, orbit_list[-new_graphs:], _only_auto=with_iso)"), "distinct.source", "duplicate test against part"),
    Knockout("iso-batches-glued", RELABEL, sub_once("            adj_arr = automorph_check(adj_matrix, labels_arr)\n            n2", "            adj_arr = np.concatenate((adj_arr, automorph_check(adj_matrix, labels_arr)[1:]))\n            n2"), "distinct.source", "glued"),
    Knockout("relabel-inverse", RELABEL, sub_once("    permuted_adj_matrix = p_matrix.T @ adj_matrix @ p_matrix", "    permuted_adj_matrix = p_matrix @ adj_matrix @ p_matrix.T"), "relabel.form", "relabel"),
    Knockout("perm2matrix-transposed", RELABEL, sub_once("        permute_matrix[i, label] = 1", "        permute_matrix[label, i] = 1"), "relabel.form", "_perm2matrix"),
    Knockout("G10-foreign-graph", RELABEL, sub_once("        orbit_list.append(g_lc_2)", "        orbit_list.append(nx.complement(g_lc))"),
             "flow.provenance-closure", "rgs_orbit_finder"),
    Knockout("G10-linear-wrong-step", RELABEL,
             sub_nth("        for x in lc_ops:\n            new_g = local_comp_graph(new_g, x)\n        orbit_list.append(new_g)",
                     "        for x in lc_ops:\n            new_g = nx.relabel_nodes(new_g, {x: 0, 0: x})\n        orbit_list.append(new_g)", 0),
             "flow.provenance-closure", "linear_partial_orbit"),
    Knockout("G10-automorph-unrelabelled", RELABEL,
             sub_once("        adj_set.add(tuple(new_adj.flatten()))", "        adj_set.add(tuple(np.roll(adj1, 1).flatten()))"),
             "flow.provenance-closure", "automorph_check"),
    Knockout("G10-automorph-keep-input", RELABEL, sub_once("    adj_set.remove(tuple(adj1.astype(int).flatten()))\n", ""),
             "flow.provenance-closure", "input tuple not removed"),
    Knockout("G10-iso-unsliced", RELABEL, sub_once("        return adj_arr[:n_iso]\n\n\ndef emitter_sorted", "        return adj_arr\n\n\ndef emitter_sorted"),
             "flow.provenance-closure", "iso_finder"),
    Knockout("E9-np-product", RELABEL, sub_once("    permute_matrix = np.zeros([n, n])", "    permute_matrix = np.zeros([n, np.product([n])])"),
             "api.numpy", "product"),
]
