"""C13 — circuit rewrites preserve the state; library calls do not mutate their inputs (DESIGN §5.13)."""
from __future__ import annotations

import ast

from ..core import AnalysisError, call_attr, call_name, calls_in, func_params, norm, parent, short
from ..driver import Knockout, sub_nth, sub_once
from ..report import Ctx
from ..rules import effects, order
from ..rules.effects import CBASE, DAG, MC

EXPLANATION = (
    "Static effect/alias rules: at every read-only entry point (metric evaluate overrides, compare functions, redundancy "
    "filters, photon_survival_rate, CompilerBase.compile, assign_noise, MonteCarloNoise, solver __init__/solve) no in-place "
    "circuit/state mutator is applied to a parameter, to self.circuit/self.target, or reaches one through a callee that "
    "mutates its argument (summaries to a fixpoint over exact call edges) without an intervening copy "
    "(effect.inplace-on-input); inside the exact call-graph closure of those entry points no attribute of an operation "
    "object drawn from a circuit's sequence is assigned, unless on a fresh copy or as a temporary swap closed by a restore "
    "on every path (effect.shared-op-store); data taken from the caller's initial_state is copied before it reaches a "
    "representation constructor that keeps the reference (effect.alias-into-state); the rewrites keep the wrapper order "
    "convention: unwrap_nodes inserts unwrap()'s sequence in order before the wrapper node, group_one_qubit_gates walks "
    "backwards and appends, per-gate noise lists follow `operations` order, which unwrap() pairs by index (order.wrapper). "
    "Does not decide numerically that unwrap / group / remove-identity preserve the compiled state.")


def rule_rewrite_order(ctx: Ctx) -> None:
    repo = ctx.repo
    m = repo.module(DAG)
    # unwrap_nodes: for op in <wrapper>.unwrap(): insert_at(op, in_edges(node)) ; then remove_op(node)
    fn = repo.anchor(DAG, "CircuitDAG.unwrap_nodes")
    ctx.touch(m, fn)
    loops = [l for l in ast.walk(fn) if isinstance(l, ast.For) and any(call_attr(c) == "insert_at" for c in calls_in(l))
             and not any(isinstance(x, ast.For) and x is not l and any(call_attr(c) == "insert_at" for c in calls_in(x)) for x in ast.walk(l))]
    if len(loops) != 1:
        raise AnalysisError("unwrap_nodes: insertion loop not found")
    l = loops[0]
    src = None
    for n in ast.walk(fn):
        if isinstance(n, ast.Assign) and norm(n.targets[0]) == norm(l.iter):
            src = n.value
    base, d = order.iter_direction(src if src is not None else l.iter)
    ins = [c for c in calls_in(l) if call_attr(c) == "insert_at"][0]
    edge_src = None
    for n in ast.walk(l):
        if isinstance(n, ast.Assign) and norm(n.targets[0]) == norm(ins.args[1]):
            from ..core import expand as _expand
            edge_src = norm(_expand(fn, n.value))
    if base is not None and base.endswith(".unwrap()") and d == 1 and edge_src is not None and "in_edges(" in edge_src:
        ctx.ok("order.wrapper", m, l, what="unwrap_nodes inserts unwrap()'s application sequence in order, each before the wrapper node")
    else:
        ctx.fail("order.wrapper", m, l,
                 f"unwrap_nodes iterates `{short(l.iter)}` and inserts at `{edge_src}`; to preserve the state it must insert the "
                 f"application sequence returned by unwrap() in order on the wrapper node's in-edge", func="CircuitDAG.unwrap_nodes",
                 construct=f"unwrap_nodes: {short(src if src is not None else l.iter, 50)} / {edge_src}")
    # the wrapper node (the variable of the loop that encloses the insertion loop) is removed after its expansion
    outer = [o for o in ast.walk(fn) if isinstance(o, ast.For) and o is not l and any(x is l for x in ast.walk(o))]
    wnode = norm(outer[-1].target) if outer else None
    removed = any(isinstance(s_, ast.Expr) and isinstance(s_.value, ast.Call) and call_name(s_.value) == "self.remove_op"
                  and s_.value.args and norm(s_.value.args[0]) == wnode for o in outer for s_ in o.body)
    skips = [x for o in outer[-1:] for x in ast.walk(o) if isinstance(x, (ast.Continue, ast.Break)) and not any(
        isinstance(a_, (ast.For, ast.While)) and a_ is not o and any(y is x for y in ast.walk(a_)) for a_ in ast.walk(o))]
    cond_steps = [s_ for o in outer[-1:] for s_ in o.body if isinstance(s_, ast.If) and any(
        (isinstance(c_, ast.Call) and call_attr(c_) in ("insert_at", "remove_op")) for c_ in ast.walk(s_))]
    if skips or cond_steps:
        node_ = (skips or cond_steps)[0]
        ctx.fail("order.wrapper", m, node_,
                 f"unwrap_nodes does not expand every wrapper: `{short(node_, 60)}` (line {node_.lineno}) lets some wrapper nodes through unexpanded; everything that "
                 f"normalises with unwrap_nodes (circuit comparison, the emitter-depth metrics) then treats a one-gate wrapper as an opaque node, so W[H] and W[X] "
                 f"compare equal", func="CircuitDAG.unwrap_nodes", construct="unwrap_nodes: some wrappers are skipped")
    elif removed:
        ctx.ok("order.wrapper", m, fn, what="every wrapper node expanded and removed")
    else:
        ctx.fail("order.wrapper", m, fn, "unwrap_nodes no longer removes the wrapper node after inserting its expansion",
                 func="CircuitDAG.unwrap_nodes", construct="unwrap_nodes: wrapper not removed")
    # group_one_qubit_gates: walks from Output backwards (in_edges) and *appends*: first visited = last applied = leftmost
    fn = repo.anchor(DAG, "CircuitDAG.group_one_qubit_gates")
    ctx.touch(m, fn)
    backward = any("in_edges(" in norm(n.value) for n in ast.walk(fn) if isinstance(n, ast.Assign))
    sides = []
    wr = [c for c in calls_in(fn) if call_attr(c) == "OneQubitGateWrapper" and c.args and isinstance(c.args[0], ast.Name)]
    if not wr:
        raise AnalysisError("group_one_qubit_gates: OneQubitGateWrapper(<gate list>, ...) construction not found")
    GL = wr[0].args[0].id
    for st in ast.walk(fn):
        if isinstance(st, ast.stmt):
            s = order.accumulation_side(st, GL)
            if s is not None:
                sides.append((st, s))
    if not sides:
        raise AnalysisError("group_one_qubit_gates: gate_list accumulation not found")
    def _added(st):
        """the expression joined onto the gate list by this statement (None for a single-element append)"""
        if isinstance(st, ast.AugAssign):
            return st.value
        if isinstance(st, ast.Assign) and isinstance(st.value, ast.BinOp):
            return st.value.right if norm(st.value.left) == GL else st.value.left
        if isinstance(st, ast.Expr) and isinstance(st.value, ast.Call) and call_attr(st.value) == "extend" and st.value.args:
            return st.value.args[0]
        return None
    for st, s in sides:
        chunk = _added(st)
        cdir = order.iter_direction(chunk)[1] if chunk is not None and not isinstance(chunk, ast.List) else 1
        if backward and s == 1 and cdir == -1:
            ctx.fail("order.wrapper", m, st,
                     f"group_one_qubit_gates joins `{short(chunk)}` onto the gate list: an existing wrapper's `operations` is already stored as a "
                     f"matrix product (last applied gate first), exactly the order the backward walk collects, so reversing it swaps the gates of "
                     f"a wrapper that is grouped a second time", func="CircuitDAG.group_one_qubit_gates",
                     construct="group_one_qubit_gates: existing wrapper's gate list reversed when merged")
        elif backward and s == 1:
            ctx.ok("order.wrapper", m, st, what="backward walk + append = matrix-product order")
        else:
            ctx.fail("order.wrapper", m, st,
                     f"group_one_qubit_gates walks the wire from the output backwards, so the gate visited first acts last and must be the "
                     f"leftmost list element; `{short(st)}` puts later-visited gates on the left", func="CircuitDAG.group_one_qubit_gates")
    ins = [c for c in calls_in(fn) if call_attr(c) == "insert_at"]
    if ins and "out_edges(" in " ".join(norm(n.value) for n in ast.walk(fn) if isinstance(n, ast.Assign)):
        ctx.ok("order.wrapper", m, ins[0], what="grouped wrapper inserted right after the preceding non-one-qubit node")


def rule_remove_identity_scope(ctx: Ctx) -> None:
    """identity.scope: remove_identity deletes the nodes indexed under the label "Identity".  If it also deletes other nodes (wrappers that
    "act as the identity"), the test that decides so must be equality of the wrapper's matrix with the identity up to a *global* phase
    (dmf.check_equivalent_unitaries); a comparison of magnitudes (`np.abs(matrix)` against the identity) accepts every diagonal unitary,
    so Z, S and S-dagger wrappers are deleted and the compiled state changes."""
    repo = ctx.repo
    m = repo.module(DAG)
    fn = repo.anchor(DAG, "CircuitDAG.remove_identity")
    ctx.touch(m, fn)
    ci = repo.cls("CircuitDAG", DAG)
    labels = {c_.value for x in ast.walk(fn) if isinstance(x, ast.Subscript) and norm(x.value) == "self.node_dict" for c_ in [x.slice] if isinstance(c_, ast.Constant)}
    labels |= {c.args[0].value for c in calls_in(fn) if call_name(c) == "self.node_dict.get" and c.args and isinstance(c.args[0], ast.Constant)}
    # every node of the label list is looked at: an identity that must stay (it carries noise) is skipped, it does not end the walk
    for lp in [x for x in ast.walk(fn) if isinstance(x, ast.For) and any(call_name(c) == "self.remove_op" for c in calls_in(x))]:
        stops = [b for b in ast.walk(lp) if isinstance(b, (ast.Break, ast.Return))]
        if stops:
            g = parent(stops[0])
            ctx.fail("identity.scope", m, stops[0],
                     f"remove_identity leaves its loop over the identity nodes ({'break' if isinstance(stops[0], ast.Break) else 'return'}"
                     + (f" under `{short(g.test, 60)}`" if isinstance(g, ast.If) else "") + "): every noise-free Identity indexed after that node stays in the circuit "
                     "and in node_dict['Identity'], so the wire still visits operations the edit was meant to remove", func="CircuitDAG.remove_identity",
                     construct="remove_identity: walk ends at the first identity that is kept")
            return
    for c in calls_in(fn):
        if call_attr(c) in ("get_node_by_labels",) and c.args and isinstance(c.args[0], (ast.List, ast.Tuple)):
            labels |= {e.value for e in c.args[0].elts if isinstance(e, ast.Constant)}
    extra = sorted(l for l in labels if l != "Identity")
    if not extra:
        ctx.ok("identity.scope", m, fn, what='remove_identity only removes nodes labelled "Identity"')
        return
    # find the predicate(s) guarding the removal of the other nodes
    preds = []
    for i in [x for x in ast.walk(fn) if isinstance(x, ast.If) and any(call_name(c) == "self.remove_op" for b in x.body for c in calls_in(b))]:
        for c in [x for x in ast.walk(i.test) if isinstance(x, ast.Call)]:
            f = c.func
            if isinstance(f, ast.Attribute) and norm(f.value) in ("self", "CircuitDAG") and f.attr in ci.methods():
                preds.append(ci.methods()[f.attr])
    # an inline predicate on a parameterised rotation: the gate is the identity only if *every* angle of its class is zero (the general
    # rotation with theta = 0 is diag(1, e^{i(phi + lambda)}), a phase gate)
    inline = 0
    om = repo.module("graphiq/circuit/ops.py")
    for i in [x for x in ast.walk(fn) if isinstance(x, ast.If) and any(call_name(c) == "self.remove_op" for b in x.body for c in calls_in(b))]:
        classes = [norm(c.args[1]).split(".")[-1] for c in ast.walk(i.test) if isinstance(c, ast.Call) and call_name(c) == "isinstance" and len(c.args) == 2]
        pcls = [c_ for c_ in classes if c_.startswith("Parameterized") or c_ in ("RX", "RY", "RZ")]
        if not pcls:
            continue
        inline += 1
        arity = 0
        for cname in pcls:
            cd = next((x for x in om.tree.body if isinstance(x, ast.ClassDef) and x.name == cname), None)
            if cd is None:
                raise AnalysisError(f"remove_identity: class {cname} not found in ops.py")
            for a_ in ast.walk(cd):
                if isinstance(a_, ast.Assign) and norm(a_.targets[0]) == "params" and isinstance(a_.value, ast.Tuple):
                    arity = max(arity, len(a_.value.elts))
        tested = set()
        whole = False
        for cmp_ in [x for x in ast.walk(i.test) if isinstance(x, ast.Compare) and len(x.ops) == 1 and isinstance(x.ops[0], ast.Eq)]:
            for side, other in ((cmp_.left, cmp_.comparators[0]), (cmp_.comparators[0], cmp_.left)):
                if isinstance(side, ast.Subscript) and norm(side.value).endswith(".params") and isinstance(side.slice, ast.Constant) \
                        and isinstance(other, ast.Constant) and other.value == 0:
                    tested.add(side.slice.value)
        for c in [x for x in ast.walk(i.test) if isinstance(x, ast.Call)]:
            if call_name(c) in ("all", "any", "np.allclose", "np.any", "np.all", "np.count_nonzero") and ".params" in norm(c) and ".params[" not in norm(c):
                whole = True
        if whole:
            ctx.ok("identity.scope", m, i, what="rotation removed only when all of its angles are zero")
        elif arity and tested and not set(range(arity)) <= tested:
            ctx.fail("identity.scope", m, i,
                     f"remove_identity deletes a {'/'.join(pcls)} node when `{short(i.test, 90)}`: only angle(s) {sorted(tested)} of {arity} are tested; the general "
                     f"rotation with theta = 0 is diag(1, e^(i(phi+lambda))) — S for (0, pi/2, 0), Z for (0, 0, pi) — so a phase gate is stripped from the circuit "
                     f"(and from the copies every circuit comparison works on)", func="CircuitDAG.remove_identity",
                     construct=f"remove_identity: rotation removed on angles {sorted(tested)} of {arity}")
        elif arity and tested:
            ctx.ok("identity.scope", m, i, what="rotation removed only when all of its angles are zero")
        else:
            raise AnalysisError(f"remove_identity: the test `{short(i.test, 80)}` that removes a parameterised rotation was not classified")
    if not preds and inline:
        return
    if not preds:
        raise AnalysisError(f"remove_identity also walks {extra} but the predicate deciding the removal was not found")
    for pf in preds:
        magnitudes = [x for x in ast.walk(pf) if isinstance(x, ast.Call) and call_name(x) in ("np.abs", "np.absolute", "abs") and
                      any(isinstance(p_, ast.Call) and call_name(p_) in ("np.allclose", "np.array_equal", "np.isclose") for p_ in _anc13(x))]
        exact = [x for x in ast.walk(pf) if isinstance(x, ast.Call) and call_attr(x) == "check_equivalent_unitaries"]
        if magnitudes:
            ctx.fail("identity.scope", m, magnitudes[0],
                     f"remove_identity deletes {extra} nodes for which {pf.name} holds, and {pf.name} compares only the magnitudes of the wrapper's "
                     f"matrix entries with the identity (`{short(magnitudes[0])}`): every diagonal unitary passes, so wrappers equal to Z, S or "
                     f"S-dagger are removed and the compiled state changes", func=f"CircuitDAG.{pf.name}",
                     construct=f"remove_identity: {pf.name} accepts any diagonal unitary")
        elif exact:
            ctx.ok("identity.scope", m, exact[0], what=f"{pf.name}: identity up to a global phase")
        else:
            raise AnalysisError(f"remove_identity: predicate {pf.name} for removing {extra} nodes not classified")


def _anc13(n):
    p = parent(n)
    while p is not None:
        yield p
        p = parent(p)


def rule_group_run_closed(ctx: Ctx) -> None:
    """group.run-closed: group_one_qubit_gates collects a run of one-qubit gates in a list while it walks a wire backwards and writes the
    run back as one wrapper at the bottom of the loop body.  A `continue` skips that step, so at every `continue` the list must be
    provably empty: flushed just before (`if <list>: insert_at(wrapper(<list>...)); <list> = []`) or reset unconditionally after an
    insertion.  Otherwise the gates collected so far are written back at the wrong place, or never."""
    repo = ctx.repo
    m = repo.module(DAG)
    fn = repo.anchor(DAG, "CircuitDAG.group_one_qubit_gates")
    ctx.touch(m, fn)
    wr = [c for c in calls_in(fn) if (call_name(c) or "").split(".")[-1] == "OneQubitGateWrapper" and c.args and isinstance(c.args[0], ast.Name)]
    if not wr:
        raise AnalysisError("group_one_qubit_gates: OneQubitGateWrapper(<gate list>, ...) construction not found")
    L = wr[0].args[0].id
    # every wrapper that writes a run back sits on the wire being walked: it names both the register and its type (the constructor's default
    # type is 'e': a wrapper built without it moves a photon's gates onto the emitter with the same number)
    regs = {norm(a.targets[0]): norm(a.value) for a in ast.walk(fn) if isinstance(a, ast.Assign) and len(a.targets) == 1 and isinstance(a.targets[0], ast.Name)
            and norm(a.value).endswith((".register", ".reg_type"))}
    rname = next((k for k, v in regs.items() if v.endswith(".register")), None)
    tname = next((k for k, v in regs.items() if v.endswith(".reg_type")), None)
    if rname is None or tname is None:
        raise AnalysisError("group_one_qubit_gates: the register / reg_type of the walked wire were not found")
    for w_ in wr:
        kws = {k.arg: norm(k.value) for k in w_.keywords}
        pos = [norm(a) for a in w_.args]
        r_ok = kws.get("register") == rname or pos[1:2] == [rname]
        t_ok = kws.get("reg_type") == tname or pos[2:3] == [tname]
        if r_ok and t_ok:
            ctx.ok("group.run-closed", m, w_, what="wrapper placed on the walked register and type")
        else:
            ctx.fail("group.run-closed", m, w_,
                     f"group_one_qubit_gates writes a run back as `{short(w_, 70)}` without " + ("the register type" if r_ok else "the register") + f" of the wire it walks "
                     f"(`{rname}`, `{tname}`): the constructor's default type is 'e', so the grouped gates of a photon are re-attached to the emitter with the same number",
                     func="CircuitDAG.group_one_qubit_gates", construct="group_one_qubit_gates: wrapper without the walked register / type")
    loops = [w for w in ast.walk(fn) if isinstance(w, (ast.While, ast.For)) and any(x in list(ast.walk(w)) for x in wr)]
    if not loops:
        raise AnalysisError("group_one_qubit_gates: the loop that writes the wrapper back was not found")
    inner = min(loops, key=lambda w: len(list(ast.walk(w))))
    conts = [c for c in ast.walk(inner) if isinstance(c, ast.Continue)]
    n = 0
    for c in conts:
        blk = parent(c)
        body = None
        for name in ("body", "orelse"):
            if any(c is s_ for s_ in getattr(blk, name, [])):
                body = getattr(blk, name)
        if body is None:
            raise AnalysisError("group_one_qubit_gates: position of a `continue` not recognised")
        before = body[:body.index(c)]
        empty = False
        for st in before:
            # unconditional reset after an insertion, or a guarded flush
            if isinstance(st, ast.Assign) and norm(st.targets[0]) == L and isinstance(st.value, ast.List) and not st.value.elts:
                empty = True
            elif isinstance(st, ast.If) and any(isinstance(x, ast.Name) and x.id == L for x in ast.walk(st.test)) and not st.orelse:
                flushed = any(call_attr(x) in ("insert_at", "add") for x in calls_in(st))
                reset = any(isinstance(a, ast.Assign) and norm(a.targets[0]) == L and isinstance(a.value, ast.List) and not a.value.elts for a in st.body)
                if flushed and reset:
                    empty = True
            elif any(isinstance(x, ast.Call) and call_attr(x) in ("append", "extend") and norm(x.func.value) == L for x in ast.walk(st)) or \
                    (isinstance(st, ast.AugAssign) and norm(st.target) == L):
                empty = False
        n += 1
        if empty:
            ctx.ok("group.run-closed", m, c, what=f"`{L}` flushed before this continue")
        else:
            # is the list provably empty for another reason: the continue is the first thing after the run was written (not supported)
            ctx.fail("group.run-closed", m, c,
                     f"group_one_qubit_gates reaches `continue` (line {c.lineno}) with the collected run `{L}` possibly non-empty and skips the step that writes "
                     f"the run back as a wrapper: the gates collected so far are re-inserted in front of a later operation of the wire, or lost at the "
                     f"register's input", func="CircuitDAG.group_one_qubit_gates", construct="group_one_qubit_gates: continue with an open run")
    if n == 0:
        ctx.ok("group.run-closed", m, inner, what="no continue in the grouping loop")


OP_STATE_FIELDS = {"params", "register", "reg_type", "noise", "q_registers", "q_registers_type", "c_registers", "control", "target", "control_type",
                   "target_type", "c_register", "operations", "param_info"}
CIRCUIT_MUTATORS_ = {"add", "insert_at", "remove_op", "replace_op", "unwrap_nodes", "remove_identity", "group_one_qubit_gates", "_add", "_insert_at", "initialize_parameters"}


def rule_copy_faithful(ctx: Ctx) -> None:
    """copy.faithful: a circuit's copy() is a deep copy of the whole object, which compiles to the same state by construction.  Anything the
    method does to the copy afterwards has to leave its operations alone: a store into a state-defining field of one of the copy's
    operations (its parameters, registers, noise ...) makes the copy a different circuit (parameterised gates whose params are
    re-derived from a lookup lose their angles).  Re-building caches of the copy (`_map`) is not a store into an operation."""
    repo = ctx.repo
    n = 0
    for rel, q in (("graphiq/circuit/circuit_base.py", "CircuitBase.copy"),):
        m = repo.module(rel)
        fn = repo.anchor(rel, q)
        ctx.touch(m, fn)
        n += 1
        deep = [c for c in calls_in(fn) if call_name(c) in ("copy.deepcopy", "deepcopy") and c.args and norm(c.args[0]) == "self"]
        if not deep:
            ctx.fail("copy.faithful", m, fn, f"{q} no longer deep-copies the circuit (copy.deepcopy(self)): operations shared with the original are changed with it",
                     func=q, construct=f"{q}: no deep copy")
            continue
        copies = {norm(a.targets[0]) for a in ast.walk(fn) if isinstance(a, ast.Assign) and any(d is a.value for d in deep)}
        # names that range over operations of the copy
        opvars = set()
        for l in ast.walk(fn):
            it = l.iter if isinstance(l, ast.For) else None
            if it is not None and isinstance(l.target, ast.Name) and any(isinstance(x, ast.Name) and x.id in copies for x in ast.walk(it)):
                opvars.add(l.target.id)
        bad = []
        for a in ast.walk(fn):
            tg = a.targets if isinstance(a, ast.Assign) else [a.target] if isinstance(a, (ast.AugAssign, ast.AnnAssign)) else []
            for t in tg:
                if isinstance(t, ast.Attribute) and t.attr in OP_STATE_FIELDS and isinstance(t.value, ast.Name) and t.value.id in opvars:
                    bad.append((a, f"stores `{short(a, 80)}` into the operations of the copy"))
                if isinstance(t, ast.Attribute) and isinstance(t.value, ast.Name) and t.value.id in copies and t.attr in ("parameters", "_parameters", "dag"):
                    raise AnalysisError(f"{q}: the copy's `{t.attr}` is reassigned after the deep copy; not decided")
        for c in calls_in(fn):
            if call_attr(c) in CIRCUIT_MUTATORS_ and isinstance(c.func, ast.Attribute) and norm(c.func.value) in copies:
                raise AnalysisError(f"{q}: the copy is edited with `{short(c)}` after the deep copy; not decided")
            if call_name(c) == "setattr" and c.args and isinstance(c.args[0], ast.Name) and c.args[0].id in opvars:
                bad.append((c, f"`{short(c)}` stores into the operations of the copy"))
        if bad:
            for node, why in bad:
                ctx.fail("copy.faithful", m, node, f"{q} {why}: the deep copy already carries every operation's own state, and a value re-derived here (a lookup that "
                                                    f"misses gives the default) replaces it, so the copy of a circuit with parameterised gates no longer compiles to the same state",
                         func=q, construct=f"{q}: store into the copy's operations")
        else:
            ctx.ok("copy.faithful", m, fn, what="deep copy returned without touching its operations")
    if n == 0:
        raise AnalysisError("copy.faithful: no copy method found")


def rule_group_label_classes(ctx: Ctx) -> None:
    """group.label-classes: group_one_qubit_gates folds every node indexed under the label "one-qubit" into a OneQubitGateWrapper (the
    node is removed, its class appended to the wrapper's gate list), and the wrapper's constructor accepts only subclasses of
    OneQubitOperationBase.  So every operation class that gives itself the label "one-qubit" has to be such a subclass — or the grouping
    loop has to test the class before it removes the node.  Otherwise grouping a circuit that contains the operation removes it and then
    fails in the wrapper's constructor, leaving the circuit without that operation."""
    repo = ctx.repo
    OPSF = "graphiq/circuit/ops.py"
    om = repo.module(OPSF)
    classes = {c.name: c for c in om.tree.body if isinstance(c, ast.ClassDef)}

    def is_one_qubit(name, seen=()):
        if name == "OneQubitOperationBase":
            return True
        c = classes.get(name)
        if c is None or name in seen:
            return False
        return any(is_one_qubit(norm(b).split(".")[-1], seen + (name,)) for b in c.bases)
    g = repo.anchor(DAG, "CircuitDAG.group_one_qubit_gates")
    guarded = any(isinstance(c, ast.Call) and call_name(c) in ("isinstance", "issubclass") and len(c.args) == 2 and "OneQubitOperationBase" in norm(c.args[1])
                  for c in ast.walk(g))
    n = 0
    for cname, c in classes.items():
        init = next((f for f in c.body if isinstance(f, ast.FunctionDef) and f.name == "__init__"), None)
        if init is None:
            continue
        adds = [x for x in calls_in(init) if call_attr(x) == "add_labels" and x.args and any(isinstance(k, ast.Constant) and k.value == "one-qubit" for k in ast.walk(x.args[0]))]
        for a in adds:
            n += 1
            ctx.touch(om, init)
            if is_one_qubit(cname) or guarded:
                ctx.ok("group.label-classes", om, a, what=f"{cname}: labelled one-qubit and accepted by the wrapper")
            else:
                ctx.fail("group.label-classes", om, a,
                         f"{cname} labels itself \"one-qubit\" but is not a OneQubitOperationBase: group_one_qubit_gates removes every node under that label and "
                         f"puts its class into a OneQubitGateWrapper, whose constructor asserts issubclass(op_class, OneQubitOperationBase) — grouping a circuit "
                         f"that contains a {cname} removes the node and then raises, so the circuit has lost the operation",
                         func=f"{cname}.__init__", construct=f"{cname}: label one-qubit on a class the grouping wrapper rejects")
    if n == 0:
        raise AnalysisError("group.label-classes: no class adds the label one-qubit")


def rule_noisy_copy_registers(ctx: Ctx) -> None:
    """noisy-copy.registers: assign_noise rebuilds the circuit gate by gate in a fresh CircuitDAG.  The fresh circuit owns the same registers as
    the original — all three counts are handed to the constructor — because `add()` only creates the registers a gate touches: an emitter
    no gate acts on would be missing from the noisy copy (fewer qubits in the compiled state), and an idle register in the middle makes
    add() raise "Register numbering must be continuous"."""
    repo = ctx.repo
    m = repo.module(DAG)
    n = 0
    for q in ("CircuitDAG.assign_noise",):
        fn = repo.anchor(DAG, q)
        ctx.touch(m, fn)
        ctors = [c for c in calls_in(fn) if (call_name(c) or "").split(".")[-1] == "CircuitDAG"]
        if not ctors:
            raise AnalysisError(f"{q}: the construction of the new circuit was not found")
        for c in ctors:
            n += 1
            want = {"n_emitter": "self.n_emitters", "n_photon": "self.n_photons", "n_classical": "self.n_classical"}
            got = {k.arg: norm(k.value) for k in c.keywords}
            for name_, a in zip(("n_emitter", "n_photon", "n_classical"), c.args):
                got[name_] = norm(a)
            missing = [k for k, v in want.items() if got.get(k) != v]
            if missing:
                ctx.fail("noisy-copy.registers", m, c,
                         f"{q} builds the noisy copy as `{short(c, 90)}`: {missing} not taken from the original ({', '.join(want[k] for k in missing)}); add() only "
                         f"creates the registers a gate touches, so a register no gate acts on is missing from the copy and the compiled state has fewer qubits",
                         func=q, construct=f"{q}: new circuit without {missing}")
            else:
                ctx.ok("noisy-copy.registers", m, c, what="the noisy copy owns the registers of the original")
    if n == 0:
        raise AnalysisError("noisy-copy.registers: no site")


def run(ctx: Ctx) -> None:
    rule_noisy_copy_registers(ctx)
    rule_group_run_closed(ctx)
    rule_group_label_classes(ctx)
    rule_copy_faithful(ctx)
    from ..rules import placement as _placement
    _placement.rule_noise_placement(ctx)
    rule_unwrap_source(ctx)
    rule_unwrap_order(ctx)
    rule_noise_preserved(ctx)
    from .c12 import rule_nodekeys
    rule_nodekeys(ctx)  # remove_identity / unwrap_nodes select nodes through node_dict: the index must follow add / remove / replace
    rule_remove_identity_scope(ctx)
    from ..rules import order as _order
    _order.rule_sequence_source(ctx, [("graphiq/circuit/circuit_dag.py", "CircuitDAG.to_json"), ("graphiq/circuit/circuit_dag.py", "CircuitDAG._slim_seq"), ("graphiq/circuit/circuit_base.py", "CircuitBase.to_openqasm")])
    from ..rules import memo as _memo
    _memo.rule_memo_sound(ctx, ['graphiq/circuit/circuit_dag.py', 'graphiq/backends/compiler_base.py', 'graphiq/metrics.py'])
    _memo.rule_falsy_zero(ctx, ['graphiq/circuit/circuit_dag.py', 'graphiq/backends/compiler_base.py', 'graphiq/metrics.py'])
    _memo.rule_arg_names(ctx, ['graphiq/circuit/circuit_dag.py', 'graphiq/backends/compiler_base.py', 'graphiq/metrics.py'])
    _memo.rule_fixed_width(ctx, ['graphiq/circuit/circuit_dag.py', 'graphiq/backends/compiler_base.py', 'graphiq/metrics.py'])
    _memo.rule_paste_incomplete(ctx, ['graphiq/circuit/circuit_dag.py', 'graphiq/backends/compiler_base.py', 'graphiq/metrics.py'])
    _memo.rule_negative_start(ctx, ['graphiq/circuit/circuit_dag.py', 'graphiq/backends/compiler_base.py', 'graphiq/metrics.py'])
    _memo.rule_elim_no_pivot(ctx, ['graphiq/circuit/circuit_dag.py', 'graphiq/backends/compiler_base.py', 'graphiq/metrics.py'])
    _memo.rule_subject_drift(ctx, ['graphiq/circuit/circuit_dag.py', 'graphiq/backends/compiler_base.py', 'graphiq/metrics.py'])
    _memo.rule_isinstance_on_class(ctx, ['graphiq/circuit/circuit_dag.py', 'graphiq/backends/compiler_base.py', 'graphiq/metrics.py'])
    _memo.rule_zip_truncation(ctx, ['graphiq/circuit/circuit_dag.py', 'graphiq/backends/compiler_base.py', 'graphiq/metrics.py'])
    _memo.rule_search_fallthrough(ctx, ['graphiq/circuit/circuit_dag.py', 'graphiq/backends/compiler_base.py', 'graphiq/metrics.py'])
    _memo.rule_zip_pairing(ctx, ['graphiq/circuit/circuit_dag.py', 'graphiq/backends/compiler_base.py', 'graphiq/metrics.py'])
    effects.rule_inplace_on_input(ctx)
    effects.rule_shared_op_store(ctx)
    effects.rule_alias_into_state(ctx)
    effects.rule_noise_order(ctx)
    effects.rule_stale_swap_read(ctx)
    rule_rewrite_order(ctx)
    ctx.floor("effect.inplace-on-input", 30)
    ctx.floor("effect.shared-op-store", 8)
    ctx.floor("order.wrapper", 8)


def _identity_wrappers(src: str) -> str:
    a = "    def _max_depth(self, root_node):\n"
    if src.count(a) != 1:
        raise LookupError("knock-out anchor text missing")
    extra = ("        for node in list(self.node_dict.get(\"OneQubitGateWrapper\", [])):\n"
             "            if self._looks_identity(self.dag.nodes[node][\"op\"]):\n"
             "                self.remove_op(node)\n\n"
             "    @staticmethod\n"
             "    def _looks_identity(wrapper):\n"
             "        return np.allclose(np.abs(ops.local_clifford_to_matrix_map(wrapper.operations)), np.eye(2))\n\n")
    return src.replace(a, extra + a)


def _edit_replace_after_store(src: str) -> str:
    """replace_op stores the new operation first and then removes 'the node's' keys read back from the graph (i.e. the new operation's)"""
    a = src.index("        # remove entries related to old_operation\n")
    b = src.index("        # add entries related to new_operation\n")
    c = src.index('        self.dag.nodes[node]["op"] = new_operation\n', b)
    removal = ('        current = self.dag.nodes[node]["op"]\n        for label in current.labels:\n            self._node_dict_remove(label, node)\n'
               '        self._node_dict_remove(type(current).__name__, node)\n        self._node_dict_remove(current.parse_q_reg_types(), node)\n')
    end = c + len('        self.dag.nodes[node]["op"] = new_operation\n')
    return src[:a] + src[b:end] + removal + src[end:]


def rule_noise_preserved(ctx: Ctx) -> None:
    """effect.noise-preserved: the circuit rewrites that delete operations (group_one_qubit_gates, remove_identity) must not delete the
    noise attached to them: either the deleted operation's `.noise` flows into the `noise=` argument of what replaces it, or the deletion
    is limited to operations whose noise is NoNoise.  An Identity with a noise model is how a bare noise channel is placed in a circuit
    (OneQubitGateWrapper.unwrap creates exactly that), and a one-qubit gate's noise is part of what the circuit compiles to."""
    import ast as _ast
    from ..core import call_attr as _ca, calls_in as _calls, norm as _norm, short as _short, parent as _parent, get_kw as _kw
    repo = ctx.repo
    DAGF = "graphiq/circuit/circuit_dag.py"
    m = repo.module(DAGF)
    for q in ("CircuitDAG.group_one_qubit_gates", "CircuitDAG.remove_identity"):
        fn = repo.anchor(DAGF, q)
        ctx.touch(m, fn)
        removes = [c for c in _calls(fn) if _ca(c) == "remove_op"]
        if not removes:
            raise AnalysisError(f"{q}: no remove_op call")
        reads_noise = [x for x in _ast.walk(fn) if isinstance(x, _ast.Attribute) and x.attr == "noise" and isinstance(x.ctx, _ast.Load)]
        # (a) noise handed to a constructed replacement
        carried = any(isinstance(c, _ast.Call) and _kw(c, "noise") is not None and any(
            isinstance(y, _ast.Name) for y in _ast.walk(_kw(c, "noise"))) for c in _ast.walk(fn)) and bool(reads_noise)
        # (b) every removal guarded by a NoNoise test on the operation's noise
        def guarded(c):
            p_ = _parent(c)
            while p_ is not None and p_ is not fn:
                if isinstance(p_, _ast.If) and "noise" in _norm(p_.test) and "NoNoise" in _norm(p_.test):
                    return True
                p_ = _parent(p_)
            # guard-clause form: an earlier statement of the same block leaves the iteration when the noise is not NoNoise
            st_ = c
            while _parent(st_) is not None and not isinstance(st_, _ast.stmt):
                st_ = _parent(st_)
            blk_ = _parent(st_)
            for field in ("body", "orelse"):
                seq = getattr(blk_, field, None)
                if isinstance(seq, list) and st_ in seq:
                    for prev in seq[:seq.index(st_)]:
                        if isinstance(prev, _ast.If) and "noise" in _norm(prev.test) and "NoNoise" in _norm(prev.test) and not prev.orelse \
                                and prev.body and isinstance(prev.body[-1], (_ast.Continue, _ast.Break, _ast.Return)) \
                                and isinstance(prev.test, _ast.UnaryOp) and isinstance(prev.test.op, _ast.Not):
                            return True
            return False
        if carried or all(guarded(c) for c in removes):
            ctx.ok("effect.noise-preserved", m, removes[0], what=f"{q}: noise of the deleted operations is " + ("carried into the replacement" if carried else "known to be NoNoise"))
        else:
            ctx.fail("effect.noise-preserved", m, removes[0],
                     f"{q} deletes operations with `{_short(removes[0])}` and never looks at their `.noise`: a gate's (or an Identity's) noise model is "
                     f"dropped, so the rewritten circuit compiles to a different state when noise is simulated", func=q,
                     construct=f"{q}: noise of removed operations dropped")


def unwrap_model(repo):
    """Decide OneQubitGateWrapper.unwrap on a finite model: the method body is interpreted (gqsa.minterp, nothing of graphiq runs) for
    wrappers of 1..3 symbolic gate classes with (a) a per-gate noise list, (b) one wrapper-level noise whose "After gate" flag is set,
    (c) one whose flag is clear.  `operations` is a matrix product (first element acts last), so the expected *application* sequence is
    gate k-1 .. gate 0, each on the wrapper's own register with its own noise (a), or noise-free with an Identity carrying the wrapper's
    noise after all of them (b) / before all of them (c).  Returns the list of discrepancies; Unmodelled constructs raise AnalysisError."""
    import ast as _ast
    from ..minterp import Interp, Unmodelled, ModelError, Return
    from ..core import norm as _norm
    OPSF = "graphiq/circuit/ops.py"
    fn = repo.anchor(OPSF, "OneQubitGateWrapper.unwrap")
    bad = []

    def oracle(c, it):
        f = c.func
        fname = _norm(f)
        if fname == "isinstance" and len(c.args) == 2:
            v = it.ev(c.args[0])
            t = _norm(c.args[1])
            if t == "list":
                return isinstance(v, list)
            raise Unmodelled(f"isinstance against `{t}`")
        if fname.endswith("NoNoise") and not c.args and not c.keywords:
            return "NoNoise"
        head = None
        if fname == "Identity" or fname.endswith(".Identity"):
            head = "Identity"
        elif isinstance(f, (_ast.Subscript, _ast.Name)):
            try:
                hv = it.ev(f)
            except Unmodelled:
                return NotImplemented
            if isinstance(hv, str) and hv.startswith("G"):
                head = hv
        if head is None:
            return NotImplemented
        slots = {"register": None, "reg_type": "e", "noise": "NoNoise"}     # constructor defaults of OneQubitOperationBase
        for name, a in zip(("register", "reg_type", "noise"), c.args):
            slots[name] = it.ev(a)
        for k in c.keywords:
            if k.arg not in slots:
                raise Unmodelled(f"constructor keyword `{k.arg}`")
            slots[k.arg] = it.ev(k.value)
        return (head, slots["register"], slots["reg_type"], slots["noise"])

    cases = 0
    for k in (1, 2, 3):
        gates = [f"G{i}" for i in range(k)]
        for kind in ("list", "after", "before"):
            noise = [f"n{i}" for i in range(k)] if kind == "list" else "N"
            env = {"self.operations": list(gates), "self.noise": noise, "self.register": "R", "self.reg_type": "T",
                   "self.noise.noise_parameters": {"After gate": kind == "after"}}
            if kind == "list":
                want = [(gates[i], "R", "T", f"n{i}") for i in reversed(range(k))]
            else:
                seq = [(gates[i], "R", "T", "NoNoise") for i in reversed(range(k))]
                carrier = ("Identity", "R", "T", "N")
                want = seq + [carrier] if kind == "after" else [carrier] + seq
            try:
                Interp(env, oracle).run(fn.body)
                got = None
            except Return as r:
                got = r.value
            except ModelError as ex:
                bad.append(f"with {k} wrapped gate(s) and {'a per-gate noise list' if kind == 'list' else 'one wrapper-level noise'} the method fails: {ex}")
                cases += 1
                continue
            except Unmodelled as ex:
                raise AnalysisError(f"OneQubitGateWrapper.unwrap: not decidable on the wrapper model ({ex})")
            cases += 1
            got = list(got) if isinstance(got, (list, tuple)) else got
            if got != want:
                def show(seq):
                    return "[" + ", ".join(f"{g[0]}@{g[1]}/{g[2]}:{g[3]}" if isinstance(g, tuple) and len(g) == 4 else str(g) for g in seq) + "]" if isinstance(seq, list) else repr(seq)
                label = {"list": "per-gate noise [n0..]", "after": "one noise N applied after the gate", "before": "one noise N applied before the gate"}[kind]
                bad.append(f"for operations [{', '.join(gates)}] (a matrix product: {gates[-1]} acts first) with {label} the application sequence "
                           f"must be {show(want)}, unwrap returns {show(got)}")
    return fn, bad, cases


def rule_unwrap_order(ctx: Ctx) -> None:
    """unwrap.order: OneQubitGateWrapper.operations is a matrix product (first element acts last); unwrap() returns the gates in the order
    they are applied.  A single wrapper-level noise model becomes an Identity carrying it, applied after all gates when its "After gate"
    flag is set and before them otherwise; with per-gate noise, gate i gets noise[i]; every gate sits on the wrapper's own register.
    Decided by interpreting the method on a finite wrapper model (unwrap_model), so any way of writing the method that yields the right
    sequence is accepted."""
    repo = ctx.repo
    OPSF = "graphiq/circuit/ops.py"
    m = repo.module(OPSF)
    fn, bad, cases = unwrap_model(repo)
    ctx.touch(m, fn)
    if bad:
        why = bad[0]
        ctx.fail("unwrap.order", m, fn, f"OneQubitGateWrapper.unwrap: {why}" + (f" (+{len(bad) - 1} more model cases)" if len(bad) > 1 else ""),
                 func="OneQubitGateWrapper.unwrap", construct="unwrap: application sequence on the wrapper model")
    else:
        ctx.ok("unwrap.order", m, fn, what=f"application order, noise carrier placement, per-gate noise and register decided on {cases} model wrappers")


def rule_unwrap_source(ctx: Ctx) -> None:
    """unwrap.source: unwrap_nodes replaces every wrapper node by the operations its unwrap() returns — that method is where each gate gets
    its register and *its share of the wrapper's noise*.  An operation that unwrap_nodes builds itself (from a class of
    `wrapper.operations`) has default noise, so a noisy wrapper no longer compiles to the same state after unwrapping."""
    import ast as _ast
    from ..core import call_attr as _ca, calls_in as _calls, norm as _norm, short as _short, parent as _parent
    repo = ctx.repo
    DAGF = "graphiq/circuit/circuit_dag.py"
    m = repo.module(DAGF)
    fn = repo.anchor(DAGF, "CircuitDAG.unwrap_nodes")
    ctx.touch(m, fn)
    defs = {}
    for a in _ast.walk(fn):
        if isinstance(a, _ast.Assign) and len(a.targets) == 1 and isinstance(a.targets[0], _ast.Name):
            defs.setdefault(a.targets[0].id, []).append(a.value)
        if isinstance(a, _ast.For) and isinstance(a.target, _ast.Name):
            defs.setdefault(a.target.id, []).append(a.iter)

    def from_unwrap(e, d=0) -> bool:
        if d > 4:
            return False
        if isinstance(e, _ast.Call) and _ca(e) == "unwrap":
            return True
        if isinstance(e, _ast.Subscript):
            return from_unwrap(e.value, d + 1)
        if isinstance(e, _ast.Name) and e.id in defs:
            return all(from_unwrap(v, d + 1) for v in defs[e.id])
        return False
    sites = [c for c in _calls(fn) if _ca(c) in ("insert_at", "replace_op", "add", "_insert_at") and c.args]
    if not sites:
        raise AnalysisError("unwrap_nodes: no insertion of the unwrapped operations found")
    for c in sites:
        arg = c.args[1] if _ca(c) == "replace_op" and len(c.args) > 1 else c.args[0]
        if from_unwrap(arg):
            ctx.ok("unwrap.source", m, c, what="inserted operation comes from the wrapper's unwrap()")
        else:
            ctx.fail("unwrap.source", m, c,
                     f"unwrap_nodes puts `{_short(arg, 50)}` into the circuit, which does not come from the wrapper's unwrap(): an operation built from the "
                     f"gate class alone carries no noise, so a wrapper with noise (one Pauli-Z error, say) loses it when the circuit is unwrapped",
                     func="CircuitDAG.unwrap_nodes", construct=f"unwrap_nodes: {_ca(c)}({_short(arg, 40)}) not from unwrap()")


KNOCKOUTS = [
    Knockout("assign-noise-without-emitter-registers", DAG, sub_once("        empty_circ = CircuitDAG(\n            n_emitter=self.n_emitters,\n", "        empty_circ = CircuitDAG(\n"), "noisy-copy.registers", "n_emitter"),
    Knockout("remove-identity-stops-at-first-noisy-identity", DAG, sub_once('                if isinstance(self.dag.nodes[node]["op"].noise, NoNoise):\n                    self.remove_op(node)\n', '                if not isinstance(self.dag.nodes[node]["op"].noise, NoNoise):\n                    break\n                self.remove_op(node)\n'), "identity.scope", "leaves its loop"),
    Knockout("two-qubit-base-labelled-one-qubit", "graphiq/circuit/ops.py", sub_nth('        self.add_labels("two-qubit")', '        self.add_labels("one-qubit")', 0), "group.label-classes", "is not a OneQubitOperationBase"),
    Knockout("remove-identity-strips-theta-zero-rotations", "graphiq/circuit/circuit_dag.py", sub_once('                if isinstance(self.dag.nodes[node]["op"].noise, NoNoise):\n                    self.remove_op(node)\n', '                if isinstance(self.dag.nodes[node]["op"].noise, NoNoise):\n                    self.remove_op(node)\n        for node in self.get_node_by_labels(["one-qubit"]):\n            op = self.dag.nodes[node]["op"]\n            if isinstance(op, ops.ParameterizedOneQubitRotation) and op.params[0] == 0 and isinstance(op.noise, NoNoise):\n                self.remove_op(node)\n'), "identity.scope", "phase gate"),
    Knockout("copy-rederives-op-params", "graphiq/circuit/circuit_base.py", sub_once("        return copy.deepcopy(self)\n", "        new_circuit = copy.deepcopy(self)\n        for op in new_circuit.sequence():\n            op.params = new_circuit._parameters.get(new_circuit._map.get(id(op)), tuple())\n        return new_circuit\n"), "copy.faithful", "operations of the copy"),
    Knockout("copy-is-shallow", "graphiq/circuit/circuit_base.py", sub_once("        return copy.deepcopy(self)\n", "        return copy.copy(self)\n"), "copy.faithful", "deep-copies"),
    Knockout("grouping-wrapper-without-reg-type", DAG, sub_nth("                                        gate_list, register, reg_type, noise=noise_list\n", "                                        gate_list, register=register, noise=noise_list\n", 0), "group.run-closed", "without the walked register"),
    Knockout("unwrap-noise-carrier-without-reg-type", "graphiq/circuit/ops.py", sub_once("            noise = Identity(\n                register=self.register, reg_type=self.reg_type, noise=self.noise\n            )", "            noise = Identity(self.register, noise=self.noise)"), "unwrap.order", "Identity@R/e"),
    Knockout("unwrap-skips-single-gate-wrappers", DAG, sub_once("                op_list = self.dag.nodes[node][\"op\"].unwrap()\n", "                op_list = self.dag.nodes[node][\"op\"].unwrap()\n                if len(op_list) < 2:\n                    continue\n"), "order.wrapper", "skipped"),
    Knockout("grouping-skips-identity-with-open-run", DAG, sub_once("                    else:\n                        gate_list.append(op.__class__)\n                        noise_list.append(op.noise)\n                    self.remove_op(node)", "                    elif isinstance(op, ops.Identity) and isinstance(op.noise, NoNoise):\n                        self.remove_op(node)\n                        continue\n                    else:\n                        gate_list.append(op.__class__)\n                        noise_list.append(op.noise)\n                    self.remove_op(node)"), "group.run-closed", "open run"),
    Knockout("unwrap-not-reversed", "graphiq/circuit/ops.py", sub_once("        return gates[::-1]\n\n    def openqasm_info(self):", "        return gates\n\n    def openqasm_info(self):"), "unwrap.order", "application sequence"),
    Knockout("unwrap-after-noise-appended", "graphiq/circuit/ops.py", sub_once("                gates.insert(0, noise)\n            else:\n                gates.append(noise)", "                gates.append(noise)\n            else:\n                gates.insert(0, noise)"), "unwrap.order", "application sequence"),
    Knockout("remove-identity-ignores-noise", "graphiq/circuit/circuit_dag.py", sub_once('                if isinstance(self.dag.nodes[node]["op"].noise, NoNoise):\n                    self.remove_op(node)\n', '                self.remove_op(node)\n'), "effect.noise-preserved", "remove_identity"),
    Knockout("grouping-wrapper-without-noise", "graphiq/circuit/circuit_dag.py", lambda src: (src.replace("gate_list, register, reg_type, noise=noise_list", "gate_list, register, reg_type") if src.count("gate_list, register, reg_type, noise=noise_list") == 2 else (_ for _ in ()).throw(LookupError("anchor"))), "effect.noise-preserved", "group_one_qubit_gates"),
    Knockout("unwrap-single-gate-fast-path", "graphiq/circuit/circuit_dag.py", sub_once('                op_list = self.dag.nodes[node]["op"].unwrap()\n', '                wrapper = self.dag.nodes[node]["op"]\n                if len(wrapper.operations) == 1:\n                    self.replace_op(node, wrapper.operations[0](register=wrapper.register, reg_type=wrapper.reg_type))\n                    continue\n                op_list = wrapper.unwrap()\n'), "unwrap.source", "not from unwrap"),
    Knockout("replace-op-unregisters-after-store", "graphiq/circuit/circuit_dag.py", _edit_replace_after_store, "sibling.nodekeys", "replace_op"),
    Knockout("identity-wrapper-magnitudes", DAG, _identity_wrappers, "identity.scope", "any diagonal unitary"),
    Knockout("noise-masked-in-place", CBASE, sub_nth("                            tmp_noise = [op.noise[0], nm.NoNoise]\n                            op.noise = tmp_noise\n", "                            op.noise[1] = nm.NoNoise\n", 0), "effect.stale-swap-read", "in-place store"),
    Knockout("group-merge-reversed", DAG, sub_once("                        gate_list += op.operations\n", "                        gate_list += list(reversed(op.operations))\n"), "order.wrapper", "reversed when merged"),
    Knockout("export-node-order", "graphiq/circuit/circuit_dag.py", sub_once("        for op in self.sequence():\n            if isinstance(op, ops.InputOutputOperationBase):", "        for op in [self.dag.nodes[k]['op'] for k in self.dag.nodes]:\n            if isinstance(op, ops.InputOutputOperationBase):"), "order.topological", "node-creation order"),

    Knockout("D1-metric-no-copy", "graphiq/metrics.py", sub_nth("        c = circuit.copy()\n        c.unwrap_nodes()", "        c = circuit\n        circuit.unwrap_nodes()", 0),
             "effect.inplace-on-input", "unwrap_nodes"),
    Knockout("D1-photon-loss-no-copy", "graphiq/utils/photon_loss.py", sub_once("    circuit = circuit.copy()\n", ""), "effect.inplace-on-input", "photon_survival_rate"),
    Knockout("D1-hybrid-init-inplace", "graphiq/solvers/hybrid_solvers.py",
             sub_once("            tmp_target = target.copy()\n            tmp_target.convert_representation(\"s\")\n            tableau = tmp_target.rep_data.data",
                      "            target.convert_representation(\"s\")\n            tableau = target.rep_data.data"),
             "effect.inplace-on-input", "HybridEvolutionarySolver.__init__"),
    Knockout("D1-through-callee", "graphiq/utils/circuit_comparison.py",
             sub_once("def check_redundant_circuit(circuit1, circuit2):", "def _strip(c):\n    c.remove_identity()\n    return c\n\n\ndef check_redundant_circuit(circuit1, circuit2):\n    _strip(circuit1)"),
             "effect.inplace-on-input", "check_redundant_circuit"),
    Knockout("D2-store-on-shared-op", DAG, sub_once("            op = copy.deepcopy(op)\n", ""),
             "effect.shared-op-store", "CircuitDAG._noisy_gates", on_fixed_only=True),
    Knockout("D2-store-on-shared-op-mc", MC, sub_once("            op = copy.deepcopy(op)\n", ""),
             "effect.shared-op-store", "MonteCarloNoise._noisy_gates", on_fixed_only=True),
    Knockout("D2-compile-no-restore", CBASE, sub_nth("                            op.noise = noise_copy\n", "", 0), "effect.shared-op-store", "compile"),
    Knockout("D5-alias-initial-state", CBASE, sub_once("state_data = copy.deepcopy(initial_state.rep_data.data)", "state_data = initial_state.rep_data.data"),
             "effect.alias-into-state", "compile", on_fixed_only=True),
    Knockout("D5-shallow-copy", CBASE, sub_once("state_data = copy.deepcopy(initial_state.rep_data.data)", "state_data = initial_state.rep_data.data.copy()"),
             "effect.alias-into-state", "shallow", on_fixed_only=True),
    Knockout("F1-noise-order", MC, sub_once("                op_type_seq = op.operations\n", "                op_type_seq = [type(gate) for gate in op.unwrap()]\n"),
             "order.wrapper", "MonteCarloNoise._noisy_gates", on_fixed_only=True),
    Knockout("F1-unwrap-nodes-reversed", DAG, sub_once('                op_list = self.dag.nodes[node]["op"].unwrap()\n', '                op_list = self.dag.nodes[node]["op"].unwrap()[::-1]\n'),
             "order.wrapper", "unwrap_nodes"),
    Knockout("F1-group-prepend", DAG, sub_once("                        gate_list += op.operations", "                        gate_list = op.operations + gate_list"),
             "order.wrapper", "group_one_qubit_gates"),
]
