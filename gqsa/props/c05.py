"""C05 — stabilizer state comparison and fidelity are exact (narrow structural claim, DESIGN §5.5)."""
from __future__ import annotations

import ast

from ..core import AnalysisError, call_attr, call_name, calls_in, func_params, norm, parent, short
from ..driver import Knockout, sub_nth, sub_once
from ..report import Ctx
from ..rules import loops, tableau
from ..rules.tableau import CTABLEAU, METRIC, STABF, TABLEAU

SSTATE = "graphiq/backends/stabilizer/state.py"

EXPLANATION = (
    "Narrow structural claim. StabilizerTableau.__eq__ and CliffordTableau.__eq__ compare both the table and the sign "
    "vector(s); Stabilizer.__eq__ compares the canonical forms of both sides' stabilizer tableaux; "
    "CliffordTableau.to_stabilizer passes the stabilizer half of the phase vector (cmp.fields) — necessary to distinguish "
    "states that differ only in the sign of a generator, which the suite's all-zero sign fixtures cannot show; canonical "
    "form / rref / inverse_circuit / inner_product change generators only through sign-tracking row operations, "
    "tab_row_swap swaps x, z and phase, row_sum receives and returns the sign vector (own.rowops); inner_product's 'return "
    "0' test reads the sign vectors of both states, canonicalises the second state and fidelity is |inner_product|^2 "
    "(fid.shape); the scratch rows in which inner_product multiplies generators are rebuilt in every iteration (acc.fresh, reaching "
    "definitions across the loop's back edge); inverse_circuit takes the bottom-most candidate as pivot in a Z-only column "
    "(pivot.choice). Does not decide that inner_product equals <a|b>, symmetry, or uniqueness of the canonical form.")


def _eq_reads(fn: ast.FunctionDef):
    other = func_params(fn)[1]
    reads = {}
    for n in ast.walk(fn):
        if isinstance(n, ast.Compare) or (isinstance(n, ast.Call) and call_attr(n) in ("array_equal", "all", "allclose")):
            txt = norm(n)
            for attr in ("table", "phase", "iphase", "_table", "_phase", "_iphase"):
                if f"self.{attr}" in txt and f"{other}.{attr}" in txt:
                    reads[attr.lstrip("_")] = n
    return reads


def rule_eq_fields(ctx: Ctx) -> None:
    repo = ctx.repo
    for rel, q, need in ((TABLEAU, "StabilizerTableau.__eq__", ["table", "phase"]), (CTABLEAU, "CliffordTableau.__eq__", ["table", "phase", "iphase"])):
        m = repo.module(rel)
        fn = repo.anchor(rel, q)
        ctx.touch(m, fn)
        got = _eq_reads(fn)
        for f in need:
            if f in got:
                ctx.ok("cmp.fields", m, got[f], what=f"{q} compares {f}")
            else:
                ctx.fail("cmp.fields", m, fn, f"{q} never compares `{f}` of the two tableaux: two states that differ only in "
                                              f"{'the sign of a generator' if 'phase' in f else 'their generators'} compare equal",
                         func=q, construct=f"{q}: field {f} not compared")
    m = repo.module(SSTATE)
    fn = repo.anchor(SSTATE, "Stabilizer.__eq__")
    ctx.touch(m, fn)
    other = func_params(fn)[1]
    can = [n for n in ast.walk(fn) if isinstance(n, ast.Assign) and isinstance(n.value, ast.Call) and call_attr(n.value) == "canonical_form"]
    from ..core import expand as _expand
    canv = {id(n): norm(_expand(fn, n.value)) for n in can}      # the argument may have been given a name first (t = x.data.to_stabilizer())
    sides = {("self" if "self." in canv[id(n)] else other if f"{other}." in canv[id(n)] else "?") for n in can}
    both_stab = all("to_stabilizer()" in canv[id(n)] for n in can)
    cmp = [n for n in ast.walk(fn) if isinstance(n, ast.Compare) and isinstance(n.ops[0], ast.Eq)
           and {norm(n.left), norm(n.comparators[0])} == {norm(x.targets[0]) for x in can}]
    if sides == {"self", other} and both_stab and cmp:
        ctx.ok("cmp.fields", m, cmp[0], what="Stabilizer.__eq__ compares canonical forms of both stabilizer tableaux")
    else:
        ctx.fail("cmp.fields", m, fn, "Stabilizer.__eq__ must compare canonical_form(x.data.to_stabilizer()) of both operands (equality "
                                      "must not depend on the generating set)", func="Stabilizer.__eq__", construct="Stabilizer.__eq__: canonical forms")
    cm = repo.module(CTABLEAU)
    fn = repo.anchor(CTABLEAU, "CliffordTableau.to_stabilizer")
    ctx.touch(cm, fn)
    c = [c for c in calls_in(fn) if call_attr(c) == "StabilizerTableau"]
    def _stab_half(e):
        # self.phase[n:]  /  self._phase[n:]  /  self.phase[-n:]  with n = self.n_qubits
        if not (isinstance(e, ast.Subscript) and isinstance(e.slice, ast.Slice) and e.slice.upper is None and e.slice.step is None
                and e.slice.lower is not None and norm(e.value) in ("self.phase", "self._phase")):
            return False
        return norm(e.slice.lower) in ("self.n_qubits", "-self.n_qubits")

    def _stab_rows(e):
        t = norm(e)
        return t in ("self.stabilizer", "self._table[self.n_qubits:]", "self.table[self.n_qubits:]")

    if len(c) == 1 and len(c[0].args) == 2 and _stab_rows(c[0].args[0]) and _stab_half(c[0].args[1]):
        ctx.ok("cmp.fields", cm, c[0], what="to_stabilizer passes the stabilizer half of the phase")
    else:
        ctx.fail("cmp.fields", cm, fn, f"to_stabilizer builds `{short(c[0]) if c else '?'}`; it must pass self.stabilizer with the stabilizer "
                                       f"half of the sign vector, self.phase[self.n_qubits:]", func="CliffordTableau.to_stabilizer",
                 construct=f"to_stabilizer: {short(c[0], 80) if c else 'no StabilizerTableau'}")


def rule_fid_shape(ctx: Ctx) -> None:
    repo = ctx.repo
    m = repo.module(METRIC)
    f = repo.anchor(METRIC, "fidelity")
    ctx.touch(m, f)
    r = [x for x in ast.walk(f) if isinstance(x, ast.Return)]
    p = func_params(f)
    t = norm(r[-1].value) if r else ""
    defs_ = {}
    for a_ in ast.walk(f):
        if isinstance(a_, ast.Assign) and len(a_.targets) == 1 and isinstance(a_.targets[0], ast.Name):
            defs_[a_.targets[0].id] = a_.value

    def res(e, d=0):
        while isinstance(e, ast.Name) and e.id in defs_ and d < 4:
            e, d = defs_[e.id], d + 1
        return e

    def is_ip(e):
        e = res(e)
        return isinstance(e, ast.Call) and (call_attr(e) or getattr(e.func, "id", "")) == "inner_product" and sorted(norm(x) for x in e.args) == sorted(p[:2])

    def is_abs_ip(e):
        e = res(e)
        return isinstance(e, ast.Call) and (call_name(e) or "") in ("np.abs", "abs", "np.absolute") and len(e.args) == 1 and is_ip(e.args[0])

    def is_sq(e):
        e = res(e)
        if isinstance(e, ast.BinOp) and isinstance(e.op, ast.Pow) and isinstance(e.right, ast.Constant) and e.right.value == 2:
            return is_abs_ip(e.left) or is_ip(e.left) and False
        if isinstance(e, ast.BinOp) and isinstance(e.op, ast.Mult):
            return (is_abs_ip(e.left) and is_abs_ip(e.right)) or (is_ip(e.left) and isinstance(res(e.right), ast.Call) and "conj" in norm(res(e.right)) and is_ip(res(e.right).args[0] if res(e.right).args else res(e.right).func.value))
        if isinstance(e, ast.Call) and (call_name(e) or "") == "np.square" and len(e.args) == 1:
            return is_abs_ip(e.args[0])
        if isinstance(e, ast.Call) and (call_name(e) or "") in ("np.real", "float", "np.abs", "abs") and len(e.args) == 1:
            return is_sq(e.args[0])
        if isinstance(e, ast.Attribute) and e.attr == "real":
            return is_sq(e.value)
        return False
    rets_ = [x for x in r if x.value is not None]
    trunc = [c for c in calls_in(f) if isinstance(c.func, ast.Name) and c.func.id == "int" and c.args
             and any(isinstance(y, ast.Call) and "log" in (call_name(y) or "") for y in ast.walk(c.args[0]))]
    if rets_ and all(is_sq(x.value) or (isinstance(x.value, ast.Constant) and x.value.value in (0, 0.0)) for x in rets_) and any(is_sq(x.value) for x in rets_):
        ctx.ok("fid.shape", m, r[-1], what="fidelity = |<a|b>|^2")
    elif any(is_abs_ip(x.value) or is_ip(x.value) for x in rets_):
        ctx.fail("fid.shape", m, r[-1], f"stabilizer fidelity returns `{t}`: the overlap is not squared (fidelity = |inner_product(a, b)|^2)", func="fidelity",
                 construct=f"fidelity: returns {t[:80]}")
    elif trunc:
        ctx.fail("fid.shape", m, trunc[0], f"stabilizer fidelity rebuilds its value from `{short(trunc[0])}`: int() truncates towards zero, and 2*log2(1/sqrt2) "
                 f"is -0.9999999999999999 in floating point, so fidelity 1/2 is reported as 1", func="fidelity", construct="fidelity: int() of a float logarithm")
    elif not any(is_ip(y) for x in rets_ for y in ast.walk(x.value)) and not any(is_ip(v) for v in defs_.values()):
        ctx.fail("fid.shape", m, f, f"stabilizer fidelity returns `{t}`, which does not derive from inner_product(a, b)", func="fidelity",
                 construct=f"fidelity: returns {t[:80]}")
    else:
        raise AnalysisError(f"fidelity: cannot relate `{t[:80]}` to |inner_product(a, b)|^2")
    ip = repo.anchor(METRIC, "inner_product")
    ctx.touch(m, ip)
    # second state is canonicalised; first goes through inverse_circuit (which canonicalises)
    names = {norm(n.targets[0]): n for n in ast.walk(ip) if isinstance(n, ast.Assign) and len(n.targets) == 1}
    canon2 = any(isinstance(n.value, ast.Call) and call_attr(n.value) == "canonical_form" and "2" in norm(n.value) for n in names.values())
    inv1 = any(isinstance(n.value, ast.Call) and call_attr(n.value) == "inverse_circuit" and "1" in norm(n.value) for n in ast.walk(ip) if isinstance(n, ast.Assign))
    if canon2 and inv1:
        ctx.ok("fid.shape", m, ip, what="state 1 reduced by its inverse circuit, state 2 canonicalised")
    else:
        ctx.fail("fid.shape", m, ip, "inner_product no longer maps state 1 through its inverse circuit and canonicalises state 2", func="inner_product",
                 construct="inner_product: reduction steps")
    zero = [n for n in ast.walk(ip) if isinstance(n, ast.Return) and isinstance(n.value, ast.Constant) and n.value.value == 0]
    if len(zero) != 1:
        raise AnalysisError("inner_product: the `return 0` (orthogonal) exit not found")
    guard = None
    for a in _anc(zero[0]):
        if isinstance(a, ast.If):
            guard = a.test
            break
    gt = norm(guard) if guard is not None else ""
    derived = tableau._phase_derived
    sign_cmp = [n for n in ast.walk(guard) if isinstance(n, ast.Compare) and isinstance(n.ops[0], ast.NotEq)] if guard is not None else []
    good = False
    for n in sign_cmp:
        l, r_ = n.left, n.comparators[0]
        if derived(ip, l) and derived(ip, r_) and (("1" in norm(l)) != ("1" in norm(r_)) or ("2" in norm(l)) != ("2" in norm(r_))):
            good = True
    if good:
        ctx.ok("fid.shape", m, zero[0], what="orthogonality test compares the two states' signs")
    else:
        ctx.fail("fid.shape", m, zero[0],
                 f"inner_product returns 0 under `{gt[:100]}`, which does not compare the sign of the reduced generator with the sign of the "
                 f"second state's generator: states that differ only in a sign are not recognised as orthogonal", func="inner_product",
                 construct="inner_product: orthogonality test ignores signs")


def _anc(n):
    p = parent(n)
    while p is not None:
        yield p
        p = parent(p)


def rule_reduced_reference(ctx: Ctx) -> None:
    """fid.reduced-reference: inner_product maps state 1 to |0...0> with inverse_circuit and applies the same circuit to state 2; the overlap
    is then read off state 2 against the *reduced* state 1 (all +Z).  The matrices and signs of "state 1" used after that point are those of
    the tableau inverse_circuit returned (first element of its result), not of the input generators: against the input, the test for
    orthogonality compares signs of unrelated generators."""
    repo = ctx.repo
    m = repo.module(METRIC)
    fn = repo.anchor(METRIC, "inner_product")
    ctx.touch(m, fn)
    inv = [a for a in ast.walk(fn) if isinstance(a, ast.Assign) and isinstance(a.value, ast.Call) and (call_attr(a.value) or getattr(a.value.func, "id", "")) == "inverse_circuit"]
    if len(inv) != 1 or not isinstance(inv[0].targets[0], ast.Tuple) or len(inv[0].targets[0].elts) != 2:
        raise AnalysisError("inner_product: `<reduced>, <circuit> = inverse_circuit(...)` not found")
    red = inv[0].targets[0].elts[0]
    reads = [a for a in ast.walk(fn) if isinstance(a, ast.Assign) and isinstance(a.value, ast.Attribute) and a.value.attr in ("x_matrix", "z_matrix", "phase")
             and isinstance(a.value.value, ast.Name) and a.lineno > inv[0].lineno]
    arg = inv[0].value.args[0] if inv[0].value.args else None
    argname = arg.id if isinstance(arg, ast.Name) else (arg.func.value.id if isinstance(arg, ast.Call) and isinstance(arg.func, ast.Attribute) and isinstance(arg.func.value, ast.Name) else None)
    # reads of "state 1" = reads from the reduced name or from the name handed to inverse_circuit
    first = [a for a in reads if a.value.value.id in ({norm(red)} | ({argname} if argname else set()))]
    if not first:
        raise AnalysisError("inner_product: the reads of the first state's matrices after inverse_circuit were not found")
    stale = [a for a in first if not isinstance(red, ast.Name) or red.id == "_" or a.value.value.id != red.id]
    copied = isinstance(arg, ast.Call) and call_attr(arg) in ("copy", "deepcopy")
    if stale and (copied or not isinstance(red, ast.Name) or red.id == "_" or (argname and argname != norm(red))):
        ctx.fail("fid.reduced-reference", m, stale[0],
                 f"inner_product reads `{short(stale[0].value)}` after `{short(inv[0], 70)}`: that is the first state as it was given, not the reduced tableau inverse_circuit "
                 f"returned; the sign test for orthogonality is then made against generators that have nothing to do with the transformed second state "
                 f"(fidelity(<-Z>, <-Z>) = 0, fidelity(|1>, |0>) = 1)", func="inner_product", construct="inner_product: state 1 read from the unreduced tableau")
    else:
        ctx.ok("fid.reduced-reference", m, first[0], what="state 1 is read from the tableau inverse_circuit returned")


def rule_canon_reduced(ctx: Ctx) -> None:
    """canon.reduced: canonical_form is the *reduced* echelon form (that is what makes it unique, hence usable for equality): after
    a pivot is chosen in a column, the pivot row is multiplied into every other row that has the pivot's Pauli in that column —
    rows above the pivot and rows of the other block included.  The elimination loops therefore range over all rows
    (`range(n_qubits)` with `row != pivot`), never over the candidate list the finder returned (rows at or below the pivot only)."""
    repo = ctx.repo
    m = repo.module(STABF)
    fn = repo.anchor(STABF, "canonical_form")
    ctx.touch(m, fn)
    nq = {norm(a.targets[0]) for a in ast.walk(fn) if isinstance(a, ast.Assign) and len(a.targets) == 1 and norm(a.value).endswith(".n_qubits")}
    full = {f"range({x})" for x in nq} | {"range(tableau.n_qubits)"}
    elim = [l for l in ast.walk(fn) if isinstance(l, ast.For) and any(call_name(c) in ("tab_row_sum", "row_sum") for c in calls_in(l))
            and not any(isinstance(x, ast.For) and x is not l and any(call_name(c) in ("tab_row_sum", "row_sum") for c in calls_in(x)) for x in ast.walk(l))]
    if len(elim) < 2:
        raise AnalysisError("canonical_form: the two elimination loops (X block, Z block) were not found")
    for l in elim:
        rs = [c for c in calls_in(l) if call_name(c) in ("tab_row_sum", "row_sum")][0]
        guard_ne = any(isinstance(t, ast.Compare) and isinstance(t.ops[0], ast.NotEq) and norm(l.target) in (norm(t.left), norm(t.comparators[0]))
                       for i in ast.walk(l) if isinstance(i, ast.If) for t in ast.walk(i.test))
        if norm(l.iter) in full and guard_ne:
            ctx.ok("canon.reduced", m, l, what="pivot eliminated from every other row")
        else:
            ctx.fail("canon.reduced", m, l,
                     f"canonical_form eliminates the pivot only from the rows `{short(l.iter, 40)}`: rows above the pivot (and rows of the other block) "
                     f"keep their entry in the pivot column, so the result is an echelon form but not the reduced one — two generating sets of "
                     f"the same state get different 'canonical' forms and Stabilizer.__eq__ answers False for equal states",
                     func="canonical_form", construct="canonical_form: elimination does not range over all rows")


def rule_eq_returns(ctx: Ctx) -> None:
    """cmp.fields (all returns): every `return` of Stabilizer.__eq__ is either `False` under a type / size guard or the comparison of the two
    canonical stabilizer tableaux.  A shortcut that compares `x.data.phase` compares the 2n-long Clifford sign vector, whose first
    half holds the *destabilizer* signs — these do not belong to the state, so equal states compare unequal."""
    repo = ctx.repo
    m = repo.module(SSTATE)
    fn = repo.anchor(SSTATE, "Stabilizer.__eq__")
    ctx.touch(m, fn)
    other = func_params(fn)[1]
    canon = {norm(n.targets[0]) for n in ast.walk(fn) if isinstance(n, ast.Assign) and isinstance(n.value, ast.Call) and call_attr(n.value) == "canonical_form"}
    for r in [x for x in ast.walk(fn) if isinstance(x, ast.Return) and x.value is not None]:
        v = r.value
        if isinstance(v, ast.Compare) and len(v.ops) == 1 and isinstance(v.ops[0], ast.Eq) and {norm(v.left), norm(v.comparators[0])} <= canon and len(canon) >= 2:
            ctx.ok("cmp.fields", m, r, what="Stabilizer.__eq__: canonical forms compared")
            continue
        if (isinstance(v, ast.Constant) and v.value is False) or (isinstance(v, ast.Name) and v.id == "NotImplemented"):
            g = next((a for a in _anc(r) if isinstance(a, ast.If)), None)
            t = norm(g.test) if g is not None else ""
            if "isinstance(" in t or "n_qubits" in t or "shape" in t or "type(" in t:
                ctx.ok("cmp.fields", m, r, what="Stabilizer.__eq__: False for another type / size")
                continue
        bad_half = any(isinstance(x, ast.Attribute) and x.attr in ("phase", "_phase") and norm(x.value).endswith((".data", ".tableau", "._tableau")) and
                       not isinstance(parent(x), ast.Subscript) for x in ast.walk(v))
        ctx.fail("cmp.fields", m, r,
                 f"Stabilizer.__eq__ returns `{short(v, 70)}` on a path that bypasses the canonical forms"
                 + (": it compares the whole 2n-long Clifford sign vector, i.e. also the destabilizer signs, which are not part of the state — the "
                    "same state (|0> before and after a Z gate) compares unequal" if bad_half else ": equality must not depend on the presentation"),
                 func="Stabilizer.__eq__", construct="Stabilizer.__eq__: return that bypasses the canonical comparison")


def rule_counter_condition(ctx: Ctx) -> None:
    """fid.shape (counter): inner_product counts the generators of the reduced second state that have an X/Y component *anywhere* in the
    row (`np.any(x2[i])`); the overlap is 2^(-count/2).  Testing one entry (the diagonal) misses a generator whose X sits in a later
    column, which is then treated as a pure-Z generator: the fidelity comes out too large and is no longer symmetric."""
    repo = ctx.repo
    m = repo.module(METRIC)
    ip = repo.anchor(METRIC, "inner_product")
    ctx.touch(m, ip)
    incs = [a for a in ast.walk(ip) if (isinstance(a, ast.Assign) and isinstance(a.value, ast.BinOp) and isinstance(a.value.op, ast.Add)
                                          and norm(a.value.left) == norm(a.targets[0]) and norm(a.value.right) == "1") or
            (isinstance(a, ast.AugAssign) and isinstance(a.op, ast.Add) and norm(a.value) == "1")]
    if len(incs) != 1:
        raise AnalysisError("inner_product: the X-generator counter increment was not found")
    g = next((a for a in _anc(incs[0]) if isinstance(a, ast.If)), None)
    loop = next((a for a in _anc(incs[0]) if isinstance(a, ast.For)), None)
    if g is None or loop is None:
        raise AnalysisError("inner_product: counter increment is not inside `for i ...: if <row has X>`")
    iv = norm(loop.target)
    t = g.test
    whole_row = False
    for c in [x for x in ast.walk(t) if isinstance(x, ast.Call)]:
        red = (call_attr(c) or call_name(c) or "").split(".")[-1] in ("any", "sum", "count_nonzero", "max")
        arg = c.args[0] if c.args else (c.func.value if isinstance(c.func, ast.Attribute) else None)
        if red and isinstance(arg, ast.Subscript) and norm(arg.slice) in (iv, f"{iv}, :") and _x_of_second(ip, arg.value):
            whole_row = True
    if whole_row:
        ctx.ok("fid.shape", m, g, what="counter counts rows with an X component anywhere")
    else:
        ctx.fail("fid.shape", m, g,
                 f"inner_product counts a generator of the reduced second state as X-type under `{short(t)}`, which does not look at the whole row "
                 f"of its X matrix: a generator whose X/Y components lie off that position is treated as pure Z, the overlap exponent is too "
                 f"small, and fidelity(|00>, |0+>) becomes 1 instead of 1/2", func="inner_product", construct="inner_product: X-type test not over the whole row")


def _x_of_second(fn, e) -> bool:
    """is `e` (a name) bound to the x_matrix of a tableau (any: only state 2's is consulted in that loop)"""
    if isinstance(e, ast.Attribute) and e.attr in ("x_matrix", "stabilizer_x", "table_x"):
        return True
    if isinstance(e, ast.Name):
        for a in ast.walk(fn):
            if isinstance(a, ast.Assign) and norm(a.targets[0]) == e.id and isinstance(a.value, ast.Attribute) and a.value.attr in ("x_matrix", "stabilizer_x", "table_x"):
                return True
    return False


def rule_z_support_whole(ctx: Ctx) -> None:
    """fid.z-support: for a generator of the second state without X part, inner_product rebuilds the same product of Z's from the first
    state's generators — one factor per column on which the row has a Z.  The columns are collected over the *whole* row: a Z-type row of
    the canonical form comes after the X pivots and can carry a Z on any column, also left of its own index, so a partial range loses
    factors, the rebuilt row no longer equals the generator and the sign comparison that detects orthogonality never fires."""
    repo = ctx.repo
    m = repo.module(METRIC)
    fn = repo.anchor(METRIC, "inner_product")
    ctx.touch(m, fn)
    loops = [l for l in ast.walk(fn) if isinstance(l, ast.For) and isinstance(l.iter, ast.Name) and any(call_attr(c) == "row_sum" or call_name(c) == "row_sum" for c in calls_in(l))]
    if len(loops) != 1:
        raise AnalysisError("inner_product: the loop that multiplies the Z columns was not found")
    src = [a.value for a in ast.walk(fn) if isinstance(a, ast.Assign) and norm(a.targets[0]) == loops[0].iter.id]
    if len(src) != 1 or not isinstance(src[0], ast.ListComp) or len(src[0].generators) != 1:
        raise AnalysisError("inner_product: the list of Z columns is not a single comprehension")
    g = src[0].generators[0]
    it = g.iter
    sizes = {norm(a.targets[0]) for a in ast.walk(fn) if isinstance(a, ast.Assign) and "n_qubits" in norm(a.value) and isinstance(a.targets[0], ast.Name)} | {"n_qubits"}
    whole = isinstance(it, ast.Call) and call_name(it) == "range" and (
        (len(it.args) == 1 and norm(it.args[0]) in sizes) or (len(it.args) == 2 and norm(it.args[0]) == "0" and norm(it.args[1]) in sizes))
    if whole:
        ctx.ok("fid.z-support", m, src[0], what="Z support collected over every column")
    elif isinstance(it, ast.Call) and call_name(it) == "range":
        ctx.fail("fid.z-support", m, src[0],
                 f"inner_product collects the Z columns of a generator over `{short(it)}` instead of every column: a Z-type row of the canonical form can have a Z left of "
                 f"its own index (it follows the X pivots), the product rebuilt from the first state then differs from the generator and `return 0` is never reached — "
                 f"orthogonal states get a positive fidelity", func="inner_product", construct="inner_product: Z support over part of the columns")
    else:
        raise AnalysisError(f"inner_product: Z columns taken from `{short(it)}`; not classified")


def run(ctx: Ctx) -> None:
    rule_z_support_whole(ctx)
    rule_reduced_reference(ctx)
    from ..rules import tableau as _tbx
    _tbx.rule_xz_rowops(ctx, ["graphiq/backends/stabilizer/functions/linalg.py", "graphiq/backends/stabilizer/functions/stabilizer.py"])
    rule_eq_returns(ctx)
    rule_counter_condition(ctx)
    rule_canon_reduced(ctx)
    tableau.rule_fresh_storage(ctx)
    from .c11 import rule_inverse_blocks, rule_replay, rule_reverse_table, rule_ctor_phase_source
    rule_ctor_phase_source(ctx)   # Stabilizer / MixedStabilizer hold Clifford tableaux built from stabilizer tableaux: their signs are the state's signs
    rule_inverse_blocks(ctx)
    rule_reverse_table(ctx)   # a Clifford tableau built from stabilizers replays the inverse circuit: fidelity / equality of such states read it
    rule_replay(ctx)
    from ..rules import effects as _eff
    _eff.rule_weighted_fidelity(ctx)  # Infidelity on stabilizer targets: sum_i p_i F(target, branch_i)
    from .c17 import rule_metric_value
    rule_metric_value(ctx)  # Infidelity.evaluate: 1 - F, and the representation literals of its dispatch
    from ..rules import memo as _memo
    _memo.rule_memo_sound(ctx, ['graphiq/backends/stabilizer/functions/metric.py', 'graphiq/backends/stabilizer/functions/stabilizer.py', 'graphiq/backends/stabilizer/tableau.py', 'graphiq/backends/stabilizer/clifford_tableau.py'])
    _memo.rule_falsy_zero(ctx, ['graphiq/backends/stabilizer/functions/metric.py', 'graphiq/backends/stabilizer/functions/stabilizer.py', 'graphiq/backends/stabilizer/tableau.py', 'graphiq/backends/stabilizer/clifford_tableau.py'])
    _memo.rule_arg_names(ctx, ['graphiq/backends/stabilizer/functions/metric.py', 'graphiq/backends/stabilizer/functions/stabilizer.py', 'graphiq/backends/stabilizer/tableau.py', 'graphiq/backends/stabilizer/clifford_tableau.py'])
    _memo.rule_fixed_width(ctx, ['graphiq/backends/stabilizer/functions/metric.py', 'graphiq/backends/stabilizer/functions/stabilizer.py', 'graphiq/backends/stabilizer/tableau.py', 'graphiq/backends/stabilizer/clifford_tableau.py'])
    _memo.rule_paste_incomplete(ctx, ['graphiq/backends/stabilizer/functions/metric.py', 'graphiq/backends/stabilizer/functions/stabilizer.py', 'graphiq/backends/stabilizer/tableau.py', 'graphiq/backends/stabilizer/clifford_tableau.py'])
    _memo.rule_negative_start(ctx, ['graphiq/backends/stabilizer/functions/metric.py', 'graphiq/backends/stabilizer/functions/stabilizer.py', 'graphiq/backends/stabilizer/tableau.py', 'graphiq/backends/stabilizer/clifford_tableau.py'])
    _memo.rule_elim_no_pivot(ctx, ['graphiq/backends/stabilizer/functions/metric.py', 'graphiq/backends/stabilizer/functions/stabilizer.py', 'graphiq/backends/stabilizer/tableau.py', 'graphiq/backends/stabilizer/clifford_tableau.py'])
    _memo.rule_subject_drift(ctx, ['graphiq/backends/stabilizer/functions/metric.py', 'graphiq/backends/stabilizer/functions/stabilizer.py', 'graphiq/backends/stabilizer/tableau.py', 'graphiq/backends/stabilizer/clifford_tableau.py'])
    _memo.rule_isinstance_on_class(ctx, ['graphiq/backends/stabilizer/functions/metric.py', 'graphiq/backends/stabilizer/functions/stabilizer.py', 'graphiq/backends/stabilizer/tableau.py', 'graphiq/backends/stabilizer/clifford_tableau.py'])
    _memo.rule_zip_truncation(ctx, ['graphiq/backends/stabilizer/functions/metric.py', 'graphiq/backends/stabilizer/functions/stabilizer.py', 'graphiq/backends/stabilizer/tableau.py', 'graphiq/backends/stabilizer/clifford_tableau.py'])
    _memo.rule_search_fallthrough(ctx, ['graphiq/backends/stabilizer/functions/metric.py', 'graphiq/backends/stabilizer/functions/stabilizer.py', 'graphiq/backends/stabilizer/tableau.py', 'graphiq/backends/stabilizer/clifford_tableau.py'])
    _memo.rule_zip_pairing(ctx, ['graphiq/backends/stabilizer/functions/metric.py', 'graphiq/backends/stabilizer/functions/stabilizer.py', 'graphiq/backends/stabilizer/tableau.py', 'graphiq/backends/stabilizer/clifford_tableau.py'])
    rule_eq_fields(ctx)
    tableau.rule_eq_decision(ctx)
    tableau.rule_rowops(ctx)
    tableau.rule_phase_combine(ctx)
    rule_fid_shape(ctx)
    loops.rule_acc_fresh(ctx, METRIC, "inner_product")
    loops.rule_pivot_choice(ctx, STABF)
    from ..rules import echelon as _echelon
    _echelon.rule_elim_direction(ctx)
    from .c11 import rule_pivot_found, rule_block_conditions
    rule_pivot_found(ctx)
    rule_block_conditions(ctx)
    from .c11 import rule_canonical_first
    from .c11 import rule_emit_mirror
    rule_emit_mirror(ctx)   # inner_product relies on inverse_circuit's gate list describing what was done to the tableau
    rule_canonical_first(ctx)
    from .c11 import rule_zpivot_hadamard
    rule_zpivot_hadamard(ctx)
    from ..rules import bitform as _bitform
    _bitform.rule_helper_shape(ctx)
    _bitform.rule_g_table(ctx)
    _bitform.rule_row_sum_form(ctx)
    ctx.floor("cmp.fields", 7)
    ctx.floor("own.rowops", 8)


def _hoist(src: str) -> str:
    block = """            identity_x = np.zeros(n_qubits)
            identity_z = np.zeros(n_qubits)
            x_matrix = np.vstack((x1_matrix, identity_x)).astype(int)
            z_matrix = np.vstack((z1_matrix, identity_z)).astype(int)
            r_vector = np.hstack((r1_vector, np.zeros(1))).astype(int)
"""
    if src.count(block) != 1 or src.count("    counter = 0\n") != 1:
        raise LookupError("knock-out anchor text missing")
    src = src.replace(block, "")
    return src.replace("    counter = 0\n", "\n".join(l[8:] for l in block.splitlines()) + "\n    counter = 0\n")


_G_LOOP = ("    n_qubits = np.shape(x_matrix)[1]\n"
           "    # determining the phase factor\n"
           "    g_sum = 0\n"
           "    for j in range(n_qubits):\n"
           "        g_sum = g_sum + g_function(\n"
           "            x_matrix[row_to_add, j],\n"
           "            z_matrix[row_to_add, j],\n"
           "            x_matrix[target_row, j],\n"
           "            z_matrix[target_row, j],\n"
           "        )\n")
_G_VECTOR = ("    x1, z1 = x_matrix[row_to_add], z_matrix[row_to_add]\n"
             "    x2, z2 = x_matrix[target_row], z_matrix[target_row]\n"
             "    g_sum = np.sum(\n"
             "        x1 * z1 * (z2 - x2)\n"
             "        + x1 * (1 - z1) * z2 * (2 * x2 - 1)\n"
             "        + (1 - x1) * z1 * x2 * (1 - z2)\n"
             "    )\n")


KNOCKOUTS = [
    Knockout("inner-product-z-support-from-own-index", METRIC, sub_once("                for j in range(n_qubits)\n                if z2_matrix[i, j] == 1 and x2_matrix[i, j] == 0", "                for j in range(i, n_qubits)\n                if z2_matrix[i, j] == 1 and x2_matrix[i, j] == 0"), "fid.z-support", "part of the columns"),
    Knockout("inner-product-reads-unreduced-first-state", METRIC, sub_once("    stabilizer_tableau1, circ = inverse_circuit(stabilizer_tableau1)\n", "    _, circ = inverse_circuit(stabilizer_tableau1.copy())\n"), "fid.reduced-reference", "unreduced"),
    Knockout("row-sum-vectorised-z-term-halved", "graphiq/backends/stabilizer/functions/linalg.py", sub_once(_G_LOOP, _G_VECTOR), "prim.row-sum", "vectorised phase term"),
    Knockout("stabilizer-tableau-eq-or", TABLEAU, sub_once("            return np.all(self.phase == other.phase) and np.array_equal(", "            return np.all(self.phase == other.phase) or np.array_equal("), "eq.decision", "StabilizerTableau.__eq__"),
    Knockout("clifford-tableau-eq-drops-iphase", CTABLEAU, sub_once("                and np.all(self.iphase == other.iphase)\n", ""), "eq.decision", "CliffordTableau.__eq__"),
    Knockout("fidelity-exponent-truncated", METRIC, sub_once("    return np.abs(inner_product(tableau1, tableau2)) ** 2", "    overlap = np.abs(inner_product(tableau1, tableau2))\n    if overlap == 0:\n        return 0.0\n    return 2.0 ** int(2 * np.log2(overlap))"), "fid.shape", "int() of a float logarithm"),
    Knockout("inverse-circuit-z-elimination-swapped", "graphiq/backends/stabilizer/functions/stabilizer.py", sub_once("                tableau = tab_row_sum(tableau, j, k)\n", "                tableau = tab_row_sum(tableau, k, j)\n"), "elim.direction", "inverse_circuit"),
    Knockout("prim-g-z-branch", "graphiq/backends/stabilizer/functions/linalg.py", sub_once("        return x2 * (1 - 2 * z2)\n", "        return x2 * (2 * z2 - 1)\n"), "prim.g-table", "g_function"),
    Knockout("prim-rowsum-sign-from-low-bit", "graphiq/backends/stabilizer/functions/linalg.py", sub_once("    r_vector[target_row] = int(phases / 2)\n", "    r_vector[target_row] = phases % 2\n"), "prim.row-sum", "upper bit"),
    Knockout("counter-diagonal-only", METRIC, sub_once("        if np.any(x2_matrix[i]):", "        if x2_matrix[i, i] == 1:"), "fid.shape", "not over the whole row"),
    Knockout("eq-phase-shortcut", SSTATE, sub_once("        tableau1 = canonical_form(self.data.to_stabilizer())", "        if np.array_equal(self.data.stabilizer, other.data.stabilizer):\n            return np.array_equal(self.data.phase, other.data.phase)\n        tableau1 = canonical_form(self.data.to_stabilizer())"), "cmp.fields", "bypasses the canonical comparison"),
    Knockout("canon-eliminate-below-only", STABF, sub_nth("            for row_m in range(n_qubits):\n                if tableau.z_matrix[row_m, j] == 1 and row_m != pivot[0]:", "            for row_m in range(pivot[0], n_qubits):\n                if tableau.z_matrix[row_m, j] == 1 and row_m != pivot[0]:", 0), "canon.reduced", "does not range over all rows"),
    Knockout("stab-phase-asarray", tableau.TABLEAU, sub_once("            self._phase = np.copy(phase).astype(int)", "            self._phase = np.asarray(phase, dtype=int)"), "own.fresh-storage", "aliases its argument"),
    Knockout("clifford-phase-iphase-shared", tableau.CTABLEAU, sub_once("        self._iphase = np.zeros(2 * self.n_qubits).astype(int)\n", "        self._iphase = self._phase\n"), "own.fresh-storage", "aliases"),
    Knockout("eq-drop-phase", TABLEAU, sub_once("            return np.all(self.phase == other.phase) and np.array_equal(\n                self.table.astype(int), other.table.astype(int)\n            )",
                                                 "            return np.array_equal(\n                self.table.astype(int), other.table.astype(int)\n            )"),
             "cmp.fields", "StabilizerTableau.__eq__"),
    Knockout("eq-drop-iphase", CTABLEAU, sub_once("                and np.all(self.iphase == other.iphase)\n", ""), "cmp.fields", "iphase"),
    Knockout("to-stabilizer-wrong-half", CTABLEAU, sub_once("return StabilizerTableau(self.stabilizer, self.phase[self.n_qubits :])", "return StabilizerTableau(self.stabilizer, self.phase[: self.n_qubits])"),
             "cmp.fields", "to_stabilizer"),
    Knockout("stab-eq-no-canonical", SSTATE, sub_once("        tableau2 = canonical_form(other.data.to_stabilizer())", "        tableau2 = other.data.to_stabilizer()"),
             "cmp.fields", "Stabilizer.__eq__"),
    Knockout("rowswap-no-phase", STABF, sub_once("    tableau.phase = row_swap(tableau.phase, first_row, second_row)\n", ""), "own.rowops", "tab_row_swap"),
    Knockout("fidelity-not-squared", METRIC, sub_once("    return np.abs(inner_product(tableau1, tableau2)) ** 2", "    return np.abs(inner_product(tableau1, tableau2))"), "fid.shape", "fidelity"),
    Knockout("inner-product-ignores-sign", METRIC, sub_once("                and r_vector[-1] != r2_vector[i]\n", ""), "fid.shape", "signs"),
    Knockout("pivot-first-z", STABF, sub_once("tab_row_swap(tableau, pivot[0], z_list[-1])", "tab_row_swap(tableau, pivot[0], z_list[0])"), "pivot.choice", "Z-only pivot"),
    Knockout("scratch-row-hoisted", METRIC, _hoist, "acc.fresh", "carried across iterations"),
    Knockout("inner-product-no-canonical", METRIC, sub_once("    stabilizer_tableau2 = canonical_form(stabilizer_tableau2)\n", ""), "fid.shape", "reduction"),
]
