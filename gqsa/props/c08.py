"""C08 — conversions among graph, stabilizer and density-matrix forms (structural clauses, DESIGN §5.8)."""
from __future__ import annotations

import ast
import itertools

from ..core import AnalysisError, dotted, norm, qualname, short
from ..driver import Knockout, sub_nth, sub_once
from ..report import Ctx
from ..rules import numeric, shapes

SRC = "graphiq/backends/state_rep_conversion.py"
STATE = "graphiq/state.py"
LCE = "graphiq/backends/lc_equivalence_check.py"

EXPLANATION = (
    "Static rules over the conversion API: no conversion function that returns a value on some path can fall off its end "
    "on another (flow.missing-return, all functions of state_rep_conversion.py and QuantumState's _x_to_y helpers); all "
    "tuple returns of state_to_graph list (graph, tableau, gates) in the same order (flow.return-shape); the dispatch "
    "table of QuantumState.convert_representation has all nine ordered pairs and each value's name encodes its key, and "
    "each helper calls the conversion function of the same name (table.convert); a floating-point inverse/determinant is "
    "rounded before it is reduced mod 2 or cast to int (num.gf2round; armed in _graph_finder where a failing input is known, advisory at the "
    "three other sites of the idiom). Does not decide that the conversions produce |G>, nor the negativity / Hadamard-position "
    "heuristics.")

REP = {"dm": "density", "s": "stabilizer", "g": "graph"}


def run(ctx: Ctx) -> None:
    repo = ctx.repo
    numeric.rule_missing_return(ctx, SRC)
    sm = repo.module(STATE)
    only = {qualname(f) for f in sm.functions() if qualname(f).startswith("QuantumState._") and "_to_" in f.name}
    only |= {"QuantumState._initialize_representation", "QuantumState._initialize_dm", "QuantumState._initialize_graph",
             "QuantumState._initialize_stabilizer", "QuantumState._identity_fun"}
    numeric.rule_missing_return(ctx, STATE, only)
    numeric.rule_return_shape(ctx, SRC, "state_to_graph")
    rule_table_convert(ctx)
    shapes.rule_graph_build(ctx)
    shapes.rule_canon_compare(ctx)
    shapes.rule_node_order(ctx)
    from ..rules import loops
    loops.rule_view_stale(ctx, SRC)
    from ..rules import tableau as _tb
    _tb.rule_sign_carry(ctx, [SRC, STATE])
    numeric.rule_gf2round(ctx, armed=[(SRC, "_graph_finder")],
                          advisory=[(SRC, "_phase_correction"), (LCE, "_solution_basis_finder"), (LCE, "_vec_solution_finder")])
    ctx.floor("flow.missing-return", 25)
    ctx.floor("table.convert", 15)


def rule_table_convert(ctx: Ctx) -> None:
    repo = ctx.repo
    m = repo.module(STATE)
    fn = repo.anchor(STATE, "QuantumState.convert_representation")
    ctx.touch(m, fn)
    table = None
    for n in ast.walk(fn):
        if isinstance(n, ast.Assign) and isinstance(n.value, ast.Dict) and n.value.keys and all(
                isinstance(k, ast.Tuple) and len(k.elts) == 2 for k in n.value.keys):
            table = n.value
    if table is None:
        raise AnalysisError("convert_representation: dispatch dict not found")
    got = {}
    for k, v in zip(table.keys, table.values):
        a, b = (e.value if isinstance(e, ast.Constant) else None for e in k.elts)
        got[(a, b)] = v
    for a, b in itertools.product(REP, REP):
        v = got.get((a, b))
        if v is None:
            ctx.fail("table.convert", m, table, f"conversion table has no entry for ('{a}', '{b}')",
                     construct=f"convert_representation: missing ({a},{b})", func="QuantumState.convert_representation")
            continue
        name = (dotted(v) or "").split(".")[-1]
        want = "_identity_fun" if a == b else f"_{REP[a]}_to_{REP[b]}"
        if name == want:
            ctx.ok("table.convert", m, v, what=f"({a},{b}) -> {name}")
        else:
            ctx.fail("table.convert", m, v,
                     f"conversion table maps ('{a}', '{b}') to `{norm(v)}`; the converter for that pair is `self.{want}`",
                     construct=f"convert_representation: ({a},{b}) -> {name}", func="QuantumState.convert_representation")
    # the new representation is always computed from the one currently held: self._rep_data = <table entry>(<current self._rep_data>)
    env = {}
    for n in ast.walk(fn):
        if isinstance(n, ast.Assign) and len(n.targets) == 1 and isinstance(n.targets[0], ast.Name):
            env.setdefault(n.targets[0].id, []).append(n.value)
    tname = None
    for n in ast.walk(fn):
        if isinstance(n, ast.Assign) and n.value is table and isinstance(n.targets[0], ast.Name):
            tname = n.targets[0].id

    def _resolves(e, pred, depth=0):
        if pred(e):
            return True
        if isinstance(e, ast.Name) and depth < 4:
            vs = env.get(e.id, [])
            return bool(vs) and all(_resolves(v, pred, depth + 1) for v in vs)
        return False
    sets = [n for n in ast.walk(fn) if isinstance(n, ast.Assign) and any(norm(t) == "self._rep_data" for t in n.targets)]
    if not sets:
        raise AnalysisError("convert_representation: no assignment of self._rep_data")
    for a_ in sets:
        v = a_.value
        ok = (isinstance(v, ast.Call) and len(v.args) == 1
              and _resolves(v.func, lambda e: isinstance(e, ast.Subscript) and isinstance(e.value, ast.Name) and e.value.id == tname
                            and norm(e.slice).replace(" ", "") in ("(self._rep_type,rep_type)", "(self._rep_type,%s)" % "rep_type"))
              and _resolves(v.args[0], lambda e: norm(e) in ("self._rep_data", "self.rep_data")))
        if ok:
            ctx.ok("table.convert", m, a_, what="new representation = table[(old type, new type)](current data)")
        else:
            ctx.fail("table.convert", m, a_,
                     f"convert_representation sets the held representation to `{short(v, 70)}`, which is not the conversion-table entry for "
                     f"(current type, requested type) applied to the data currently held: a representation obtained any other way (a remembered "
                     f"earlier one, say) does not reflect gates applied to the state since", func="QuantumState.convert_representation",
                     construct="convert_representation: new representation not computed from the current data")
    # each helper delegates to the same-named conversion function and feeds it the representation's data
    for a, b in itertools.permutations(REP, 2):
        q = f"QuantumState._{REP[a]}_to_{REP[b]}"
        h = repo.anchor(STATE, q)
        ctx.touch(m, h)
        want = f"{REP[a]}_to_{REP[b]}"
        calls = [c for c in ast.walk(h) if isinstance(c, ast.Call) and (dotted(c.func) or "").split(".")[-1].endswith("_to_" + REP[b])
                 or isinstance(c, ast.Call) and (dotted(c.func) or "").split(".")[-1].startswith(REP[a] + "_to_")]
        names = {(dotted(c.func) or "").split(".")[-1] for c in calls}
        if want in names and len(names) == 1:
            ctx.ok("table.convert", m, h, what=f"{q} -> rc.{want}")
        else:
            ctx.fail("table.convert", m, h, f"{q} delegates to {sorted(names) or 'nothing'}, expected `{want}`",
                     construct=f"{q}: delegates to {sorted(names)}", func=q)


def _diag_view(src: str) -> str:
    a = "    final_z_diag = list(np.diag(final_z))\n    z_diag_pos = [i for i, d in enumerate(final_z_diag) if d != 0]\n"
    b = "    state_graph = nx.from_numpy_array(final_z)\n"
    if src.count(a) != 1 or src.count(b) != 1:
        raise LookupError("knock-out anchor text missing")
    src = src.replace(a, "    final_z_diag = np.diag(final_z)\n")
    return src.replace(b, b + "    z_diag_pos = [i for i, d in enumerate(final_z_diag) if d != 0]\n")


KNOCKOUTS = [
    Knockout("clifford-input-signs-dropped", SRC, sub_once("        tab = state.to_stabilizer()\n", "        tab = StabilizerTableau(state.stabilizer)\n"), "sign.carry", "without signs"),
    Knockout("convert-from-stale-copy", STATE, sub_once("            self._rep_data = conversion_func(tmp_data)", "            self._rep_data = conversion_func(self._initial_data)"), "table.convert", "not computed from the current data"),
    Knockout("diag-view-read-late", SRC, _diag_view, "view.stale", "read after in-place modification"),
    Knockout("canon-compare", SRC, sub_once("    new_tab = canonical_form(run_circuit(tab1.copy(), gate_list))", "    new_tab = run_circuit(tab1.copy(), gate_list)"), "canon.compare", "new_tab"),
    Knockout("node-order-sorted", SRC, sub_once("    mapping = dict(zip(graph_data.nodes(), range(0, n_qubits)))", "    mapping = dict(zip(sorted(graph_data.nodes()), range(0, n_qubits)))"), "node.order", "_graph_to_density_pure"),
    Knockout("graph-build-zero-state", SRC, sub_once("    final_state = dmf.create_n_plus_state(n_qubits)", "    final_state = dmf.create_n_product_state(n_qubits, dmf.state_ketz0())"), "graph.build", "_graph_to_density_pure"),
    Knockout("graph-build-cz-x", "graphiq/backends/density_matrix/functions.py", sub_once("cz = get_two_qubit_controlled_gate(n_qubits, control_qubit, target_qubit, sigmaz())", "cz = get_two_qubit_controlled_gate(n_qubits, control_qubit, target_qubit, sigmax())"), "graph.build", "apply_cz"),
    Knockout("graph-build-blocks", SRC, sub_once("    return StabilizerTableau([np.eye(n_nodes), adj_matrix])", "    return StabilizerTableau([adj_matrix, np.eye(n_nodes)])"), "graph.build", "_graph_to_stabilizer_pure"),
    Knockout("G7-drop-return", SRC,
             sub_once("        graph = _density_to_graph_pure(input_matrix)\n        stabilizer = _graph_to_stabilizer_pure(graph)\n        return [(1.0, stabilizer)]",
                      "        graph = _density_to_graph_pure(input_matrix)\n        stabilizer = _graph_to_stabilizer_pure(graph)"),
             "flow.missing-return", "density_to_stabilizer"),
    Knockout("G7-return-order", SRC, sub_once("        return state, tab, []", "        return state, [], tab"), "flow.return-shape", "state_to_graph"),
    Knockout("E3-swap-values", STATE,
             sub_once('("dm", "g"): self._density_to_graph,\n            ("dm", "s"): self._density_to_stabilizer,',
                      '("dm", "g"): self._density_to_stabilizer,\n            ("dm", "s"): self._density_to_graph,'),
             "table.convert", "(dm,g)"),
    Knockout("E3-delete-pair", STATE, sub_once('            ("s", "g"): self._stabilizer_to_graph,\n', ''), "table.convert", "missing (s,g)"),
    Knockout("G4-unrounded", SRC, sub_once("x_inv = (np.rint(np.linalg.det(x_mat.T) * np.linalg.inv(x_mat.T)) % 2).astype(int)",
                                           "x_inv = (np.linalg.det(x_mat.T) * np.linalg.inv(x_mat.T) % 2).astype(int)"),
             "num.gf2round", "_graph_finder", on_fixed_only=True),
]
