"""C08 — conversions among graph, stabilizer and density-matrix forms (structural clauses, DESIGN §5.8)."""
from __future__ import annotations

import ast
import itertools

from ..core import AnalysisError, func_params, Module, call_attr, call_name, calls_in, dotted, norm, parent, qualname, short
from ..driver import Knockout, sub_nth, sub_once
from ..report import Ctx
from ..rules import numeric, shapes

SRC = "graphiq/backends/state_rep_conversion.py"
STATE = "graphiq/state.py"
LCE = "graphiq/backends/lc_equivalence_check.py"

EXPLANATION = (
    "Static rules over the conversion API: no conversion function that returns a value on some path can fall off its end "
    "on another (flow.missing-return, all functions of state_rep_conversion.py and QuantumState's _x_to_y helpers); all "
    "tuple returns of state_to_graph list (graph, tableau, gates) in the same order (flow.return-shape); the dispatch "
    "table of QuantumState.convert_representation has all nine ordered pairs and each value's name encodes its key, and "
    "each helper calls the conversion function of the same name (table.convert); a floating-point inverse/determinant is "
    "rounded before it is reduced mod 2 or cast to int (num.gf2round; armed in _graph_finder where a failing input is known, advisory at the "
    "three other sites of the idiom). Does not decide that the conversions produce |G>, nor the negativity / Hadamard-position "
    "heuristics.")

REP = {"dm": "density", "s": "stabilizer", "g": "graph"}


# ------------------------------------------------------------------------------------------------ kinds of values (mini inference)

def _expr_kinds(repo, m, fn, e, depth=0, _seen=None):
    """kinds a value can have: 'ndarray', 'nxgraph', 'list', 'cls:<Name>', '?'  (flow-insensitive, through local names and module functions)"""
    if depth > 12:
        return {"?"}
    _seen = _seen if _seen is not None else set()
    if isinstance(e, ast.Name):
        key = (id(fn), e.id)
        if key in _seen:
            return set()  # a self-reference (x = x + x.T) adds no new kind
        _seen = _seen | {key}
    if isinstance(e, (ast.List, ast.ListComp)):
        return {"list"}
    if isinstance(e, ast.Constant):
        return {"const"}
    if isinstance(e, ast.BinOp):
        ks = _expr_kinds(repo, m, fn, e.left, depth + 1, _seen) | _expr_kinds(repo, m, fn, e.right, depth + 1, _seen)
        return {"ndarray"} if "ndarray" in ks else ks
    if isinstance(e, ast.Attribute) and e.attr == "T":
        return _expr_kinds(repo, m, fn, e.value, depth + 1, _seen)
    if isinstance(e, ast.Subscript):
        return {"?"}
    if isinstance(e, ast.Call):
        cn = call_name(e) or ""
        if cn.startswith(("np.", "numpy.", "dmnp.", "linalg.")):
            return {"ndarray"}
        if cn.startswith("nx."):
            return {"nxgraph"}
        last = cn.split(".")[-1]
        if last and last[0].isupper():
            return {"cls:" + last}
        # module-level function of this module or of an imported graphiq module
        tgt = None
        if isinstance(e.func, ast.Name):
            tgt = repo.try_anchor(m.rel, e.func.id)
            tm = m
        elif isinstance(e.func, ast.Attribute) and isinstance(e.func.value, ast.Name):
            mod = repo.resolve_dotted(m, e.func.value.id)
            tm = None
            if isinstance(mod, str):
                rel_ = mod.replace(".", "/") + ".py"
                try:
                    tm = repo.module(rel_)
                except Exception:
                    tm = None
            if tm is not None:
                tgt = repo.try_anchor(tm.rel, e.func.attr)
        if tgt is not None and isinstance(tgt, ast.FunctionDef):
            out = set()
            for r in ast.walk(tgt):
                if isinstance(r, ast.Return) and r.value is not None:
                    out |= _expr_kinds(repo, tm, tgt, r.value, depth + 1, _seen)
            return out or {"?"}
        return {"?"}
    if isinstance(e, ast.Name):
        out = set()
        for a in ast.walk(fn):
            if isinstance(a, ast.Assign) and any(isinstance(t, ast.Name) and t.id == e.id for t in a.targets):
                out |= _expr_kinds(repo, m, fn, a.value, depth + 1, _seen)
            if isinstance(a, ast.Call) and call_name(a) in (f"{e.id}.append", f"{e.id}.extend"):
                out.add("list")
        return out or {"?"}
    return {"?"}


def rule_helper_kinds(ctx: Ctx) -> None:
    """call.accepts: (a) every tableau handed to rc.stabilizer_to_density / rc.stabilizer_to_graph by QuantumState's helpers has been
    turned into a StabilizerTableau with `.to_stabilizer()` (those functions dispatch on list / StabilizerTableau and raise otherwise;
    a representation holds CliffordTableaux); (b) `Graph(x)` in the helpers receives a networkx graph (Graph.__init__ raises
    TypeError for anything else), never the adjacency *array* some converters return."""
    repo = ctx.repo
    m = repo.module(STATE)
    n = 0
    for fn in [f for f in sm_functions(repo)]:
        q = qualname(fn)
        for c in [x for x in ast.walk(fn) if isinstance(x, ast.Call)]:
            cn = call_name(c) or ""
            if cn in ("rc.stabilizer_to_density", "rc.stabilizer_to_graph") and c.args:
                n += 1
                ctx.touch(m, fn)
                a = c.args[0]
                ok = False
                from ..core import deref as _deref
                if isinstance(a, ast.Name) and isinstance(_deref(fn, a), ast.Call) and call_attr(_deref(fn, a)) == "to_stabilizer":
                    a = _deref(fn, a)         # the converted tableau was given a name first
                if isinstance(a, ast.Call) and call_attr(a) == "to_stabilizer":
                    ok = True
                elif isinstance(a, ast.Name):
                    apps = [x for x in ast.walk(fn) if isinstance(x, ast.Call) and call_name(x) == f"{a.id}.append" and x.args]
                    ok = bool(apps) and all(isinstance(x.args[0], ast.Tuple) and len(x.args[0].elts) == 2 and isinstance(x.args[0].elts[1], ast.Call)
                                            and call_attr(x.args[0].elts[1]) == "to_stabilizer" for x in apps)
                if ok:
                    ctx.ok("call.accepts", m, c, what=f"{q}: stabilizer tableau(x) handed to {cn}")
                else:
                    ctx.fail("call.accepts", m, c,
                             f"{q} calls `{short(c)}`: the argument is the representation's own data (a CliffordTableau), but {cn.split('.')[-1]} accepts "
                             f"only a StabilizerTableau or a list of (p, StabilizerTableau) and raises ValueError otherwise — this conversion fails on "
                             f"every call; the sibling branches convert with `.to_stabilizer()` first", func=q,
                             construct=f"{q}: {cn.split('.')[-1]} receives a CliffordTableau")
            if cn == "Graph" and c.args:
                n += 1
                ctx.touch(m, fn)
                ks = _expr_kinds(repo, m, fn, c.args[0])
                # narrow by an enclosing `isinstance(x, list)` test
                if isinstance(c.args[0], ast.Name):
                    p_ = parent(c)
                    while p_ is not None and p_ is not fn:
                        if isinstance(p_, ast.If) and isinstance(p_.test, ast.Call) and call_name(p_.test) == "isinstance" \
                                and norm(p_.test.args[0]) == c.args[0].id and norm(p_.test.args[1]) == "list":
                            in_body = any(c is x for b_ in p_.body for x in ast.walk(b_))
                            ks = ({"list"} & ks) if in_body else (ks - {"list"})
                        p_ = parent(p_)
                if ks and ks <= {"ndarray"}:
                    ctx.fail("call.accepts", m, c,
                             f"{q} builds `{short(c)}` from a value that is always a numpy adjacency array, but Graph.__init__ accepts only a "
                             f"networkx.Graph and raises TypeError otherwise — this conversion fails on every call", func=q,
                             construct=f"{q}: Graph() receives an adjacency array")
                else:
                    ctx.ok("call.accepts", m, c, what=f"{q}: Graph({norm(c.args[0])}) kinds {sorted(ks)}")
    if n < 3:
        raise AnalysisError("call.accepts: too few converter call sites in QuantumState")


def sm_functions(repo):
    sm = repo.module(STATE)
    return [f for f in sm.functions() if qualname(f).startswith("QuantumState._") and ("_to_" in f.name or f.name.startswith("_initialize"))]


def rule_density_signs(ctx: Ctx) -> None:
    """sign.used: the density matrix of a stabilizer state is the product of the projectors (I + (-1)^r_i g_i)/2: the conversion must
    read the tableau's sign vector; built from the unsigned Pauli strings alone, a state with a negative generator (|1> = <-Z>) is
    converted to the state with all signs positive (|0>)."""
    repo = ctx.repo
    from ..rules.tableau import _phase_derived
    m = repo.module(SRC)
    fn = repo.anchor(SRC, "_stabilizer_to_density_pure")
    ctx.touch(m, fn)
    prods = [n for n in ast.walk(fn) if (isinstance(n, ast.Call) and call_name(n) in ("np.matmul", "np.dot")) or
             (isinstance(n, ast.BinOp) and isinstance(n.op, ast.MatMult))]
    if not prods:
        raise AnalysisError("_stabilizer_to_density_pure: projector product not found")
    if any(_phase_derived(fn, p_) for p_ in prods):
        ctx.ok("sign.used", m, prods[0], what="projectors carry the generators' signs")
    else:
        ctx.fail("sign.used", m, prods[0],
                 f"_stabilizer_to_density_pure multiplies the projectors `{short(prods[0], 70)}` built from the unsigned Pauli strings and never reads "
                 f"the tableau's sign vector: a stabilizer state with a negative generator is converted to the density matrix of the state with all "
                 f"signs positive (<-Z> gives |0><0| instead of |1><1|)", func="_stabilizer_to_density_pure",
                 construct="_stabilizer_to_density_pure: signs of the generators ignored")


def rule_equivalency_canonical(ctx: Ctx) -> None:
    """canon.compare (state equivalence): mixed_stabilizer_equivalency is what the conversions use to validate their result ("is the
    stabilizer I was given the state of the graph I found?").  Two tableaux describe the same state iff their canonical forms are
    equal; `tableau1 == tableau2` compares generator lists, so a graph state presented in any other generating set fails validation."""
    repo = ctx.repo
    m = repo.module(SRC)
    fn = repo.anchor(SRC, "mixed_stabilizer_equivalency")
    ctx.touch(m, fn)
    canon_names = {a.targets[0].id for a in ast.walk(fn) if isinstance(a, ast.Assign) and isinstance(a.targets[0], ast.Name)
                   and isinstance(a.value, ast.Call) and call_name(a.value) == "canonical_form"}
    def canonical(e):
        return (isinstance(e, ast.Call) and call_name(e) == "canonical_form") or (isinstance(e, ast.Name) and e.id in canon_names)
    n = 0
    for c in [x for x in ast.walk(fn) if isinstance(x, ast.Compare) and len(x.ops) == 1 and isinstance(x.ops[0], (ast.Eq, ast.NotEq))]:
        l, r = c.left, c.comparators[0]
        if any(isinstance(y, ast.Call) and call_name(y) == "len" for y in (l, r)) or any(isinstance(y, ast.Constant) for y in (l, r)):
            continue
        n += 1
        if canonical(l) and canonical(r):
            ctx.ok("canon.compare", m, c, what="state equivalence decided on canonical forms")
        else:
            ctx.fail("canon.compare", m, c,
                     f"mixed_stabilizer_equivalency decides state equivalence with `{short(c)}`, a comparison of the generator lists as given: a "
                     f"graph state presented in another generating set (rows multiplied together) is reported different from itself, so "
                     f"stabilizer_to_graph(validate=True) raises 'Input stabilizer is not a graph state' for it", func="mixed_stabilizer_equivalency",
                     construct=f"mixed_stabilizer_equivalency: {short(c, 40)} without canonical forms")
    if n == 0:
        raise AnalysisError("mixed_stabilizer_equivalency: no tableau comparison found")


def rule_graph_from_matrix(ctx: Ctx) -> None:
    """graph.from-matrix: a conversion that turns an adjacency *matrix* into a graph keeps every vertex, in index order: it builds the graph
    with nx.from_numpy_array (or adds nodes range(n) before the edges).  A graph built from the list of non-zero entries only has the
    vertices that occur in an edge, in the order the edges are met: isolated qubits disappear and the qubit numbering of every later
    conversion (which follows graph.nodes()) is permuted."""
    repo = ctx.repo
    n = 0
    for rel in ("graphiq/state.py", SRC):
        m = repo.module(rel)
        for fn in m.functions():
            for c in [x for x in ast.walk(fn) if isinstance(x, ast.Call) and call_name(x) in ("nx.Graph", "networkx.Graph") and x.args]:
                a = c.args[0]
                from ..core import expand as _expand
                t = norm(_expand(fn, a))
                from_edges = ("nonzero" in t or "argwhere" in t or "zip(" in t) and "from_numpy_array" not in t
                if not from_edges:
                    continue
                n += 1
                ctx.touch(m, fn)
                adds_nodes = any(call_attr(x) == "add_nodes_from" for x in calls_in(fn))
                if adds_nodes:
                    ctx.ok("graph.from-matrix", m, c, what=f"{qualname(fn)}: edge list plus explicit nodes")
                else:
                    ctx.fail("graph.from-matrix", m, c,
                             f"{qualname(fn)} builds the graph of an adjacency matrix from its non-zero entries (`{short(c, 70)}`): vertices without an edge are dropped and "
                             f"the node order becomes the order in which edges are met (ring 0-1-2-3: nodes [0, 1, 3, 2]), while every later conversion numbers qubits "
                             f"by graph.nodes()", func=qualname(fn), construct=f"{qualname(fn)}: graph built from an edge list of a matrix")
    ctx.ok_abstract("graph.from-matrix", f"{n} graphs built from the non-zero entries of a matrix")


def rule_inverse_side(ctx: Ctx) -> None:
    """conv.inverse-side: _graph_finder brings the generators to the form [I | A] by multiplying with the inverse of the X block: A = X^-1 Z.
    Written on transposes, A^T = Z^T (X^T)^-1.  So the matrix that is inverted and the side it is multiplied from go together: `z.T @ inv(x.T)`
    or `inv(x) @ z`; `z.T @ inv(x)` is Z^T X^-1, which equals A^T only when the reduced X block happens to be symmetric."""
    repo = ctx.repo
    m = repo.module(SRC)
    fn = repo.anchor(SRC, "_graph_finder")
    ctx.touch(m, fn)
    from ..core import deref as _deref
    prods = [b for b in ast.walk(fn) if isinstance(b, ast.BinOp) and isinstance(b.op, ast.MatMult)]
    done = False
    for b in prods:
        for inv_side, other, side in ((b.right, b.left, "right"), (b.left, b.right, "left")):
            e = _deref(fn, inv_side)
            invs = [c for c in ast.walk(e) if isinstance(c, ast.Call) and (call_name(c) or "").endswith("linalg.inv") and c.args]
            if not invs:
                continue
            if norm(other).replace(".T", "") == norm(invs[0].args[0]).replace(".T", ""):
                continue      # inv(M) @ M: a self-check of the inverse, not the reduction of the Z block
            done = True
            arg_t = norm(invs[0].args[0]).endswith(".T")
            oth_t = norm(other).endswith(".T")
            # z.T @ inv(x.T)  (both transposed, inverse on the right)   or   inv(x) @ z  (none transposed, inverse on the left)
            ok = (side == "right" and arg_t and oth_t) or (side == "left" and not arg_t and not oth_t)
            if ok:
                ctx.ok("conv.inverse-side", m, b, what="inverse of the X block applied on the matching side")
            else:
                ctx.fail("conv.inverse-side", m, b,
                         f"_graph_finder computes `{short(b, 60)}` with `{short(invs[0], 40)}`: multiplying Z^T from the right needs the inverse of X^T (and X^-1 goes on "
                         f"the left of Z); this combination is Z^T X^-1, which is the adjacency matrix only when the reduced X block is symmetric — the edge 0-1 "
                         f"given as {{ZX, YY}} is refused as 'not a graph'", func="_graph_finder", construct="_graph_finder: inverse and product on mismatched sides")
    if not done:
        raise AnalysisError("_graph_finder: the product with the inverse of the X block was not found")


def rule_no_sign_precondition(ctx: Ctx) -> None:
    """convert.no-sign-precondition: a stabilizer -> graph conversion accepts |G> in *any* generating set, and products of the standard
    generators carry minus signs (K_a K_b = -Y.Y.. for adjacent a, b).  So no assertion / raise in these functions may reject an input on
    its sign vector alone (a test that reads `.phase` and neither matrix): signs are dealt with by the canonical-form comparison and the
    phase-correction gates, not by a precondition."""
    repo = ctx.repo
    m = repo.module(SRC)
    n = 0
    for q in ("stabilizer_to_graph", "state_to_graph", "_graph_finder", "_phase_correction"):
        fn = repo.try_anchor(SRC, q)
        if fn is None:
            continue
        n += 1
        ctx.touch(m, fn)
        bad = None
        for st in ast.walk(fn):
            test = None
            if isinstance(st, ast.Assert):
                test = st.test
            elif isinstance(st, ast.If) and any(isinstance(x, ast.Raise) for b in st.body for x in ast.walk(b)) and not st.orelse:
                test = st.test
            if test is None:
                continue
            t = norm(test)
            reads_phase = ".phase" in t or "phase_vector" in t or "r_vector" in t
            reads_matrix = any(w in t for w in ("x_matrix", "z_matrix", ".table", "canonical_form", "equivalency", "to_labels"))
            if reads_phase and not reads_matrix:
                bad = st
                break
        if bad is not None:
            ctx.fail("convert.no-sign-precondition", m, bad,
                     f"{q} rejects its input on the sign vector alone (`{short(bad, 80)}`): a graph state given by a generating set with a negative generator "
                     f"(the 3-path as {{XZI, -YXY, IZX}}) is refused although it is a graph state", func=q, construct=f"{q}: precondition on signs")
        else:
            ctx.ok("convert.no-sign-precondition", m, fn, what=f"{q}: no precondition on the sign vector alone")
    if n < 2:
        raise AnalysisError("convert.no-sign-precondition: conversion functions not found")


def rule_phase_correction_always(ctx: Ctx) -> None:
    """flow.phase-correction: state_to_graph turns a stabilizer state into a graph with H / P_dag gates (_graph_finder) and then appends the Z
    gates that make the *signs* of the transformed generators those of the ideal graph state (_phase_correction).  The conjugations and the
    generator products of the reduction create minus signs even when the input has none, so the correction belongs on every path that
    went through _graph_finder: no return between the two, the call not under a condition, and its result part of the returned list."""
    repo = ctx.repo
    rel = "graphiq/backends/state_rep_conversion.py"
    m = repo.module(rel)
    fn = repo.anchor(rel, "state_to_graph")
    ctx.touch(m, fn)
    top = list(fn.body)
    ig = [i for i, st in enumerate(top) if any(isinstance(c, ast.Call) and call_name(c) == "_graph_finder" for c in ast.walk(st))]
    ip = [i for i, st in enumerate(top) if isinstance(st, (ast.Assign, ast.AugAssign, ast.Expr)) and any(isinstance(c, ast.Call) and call_name(c) == "_phase_correction" for c in ast.walk(st))]
    anyp = [c for c in ast.walk(fn) if isinstance(c, ast.Call) and call_name(c) == "_phase_correction"]
    if not ig:
        raise AnalysisError("state_to_graph: the _graph_finder step was not found at the top level")
    if not anyp:
        ctx.fail("flow.phase-correction", m, fn, "state_to_graph no longer applies _phase_correction: the returned gates map the state onto the graph state only up to signs",
                 func="state_to_graph", construct="state_to_graph: no phase correction")
        return
    if not ip or ip[0] < ig[0]:
        ctx.fail("flow.phase-correction", m, anyp[0], f"state_to_graph applies `{short(anyp[0])}` under a condition: the reduction creates minus signs whatever the input's signs were, "
                                                      f"so the correction is needed on every path through _graph_finder", func="state_to_graph",
                 construct="state_to_graph: phase correction conditional")
        return
    early = [r for st in top[ig[0]:ip[0]] for r in ast.walk(st) if isinstance(r, ast.Return)]
    if early:
        g = parent(early[0])
        cond = short(g.test, 60) if isinstance(g, ast.If) else "an earlier branch"
        ctx.fail("flow.phase-correction", m, early[0],
                 f"state_to_graph returns under `{cond}` after _graph_finder and before _phase_correction: the H / P_dag conjugations and the generator products of "
                 f"the reduction create minus signs even for an input without any, so the gates returned on this path reach a Z-shifted state orthogonal to the graph state",
                 func="state_to_graph", construct="state_to_graph: return before the phase correction")
        return
    # the correction ends up in the returned gate list
    pc = top[ip[0]]
    name = norm(pc.targets[0]) if isinstance(pc, ast.Assign) else None
    used = name is None or any(isinstance(x, ast.Name) and x.id == name for st in top[ip[0] + 1:] for x in ast.walk(st))
    if used:
        ctx.ok("flow.phase-correction", m, pc, what="phase correction on every path through _graph_finder")
    else:
        ctx.fail("flow.phase-correction", m, pc, f"the result of _phase_correction (`{name}`) is never added to the returned gate list", func="state_to_graph",
                 construct="state_to_graph: phase correction dropped")


def rule_zero_outcome_guard(ctx: Ctx) -> None:
    """guard.zero-probability: project_and_remove projects the other qubits on |0..0> and falls back to the complementary projector only when
    that outcome is *impossible*.  For a graph state the outcome has probability 2^-(n-2), i.e. arbitrarily small and still possible, so the
    guard has to be a comparison with zero (exactly, or np.isclose with a tolerance at rounding level), never a threshold such as 1e-2:
    with it every state on nine or more qubits takes the wrong projector and the conversion loses edges."""
    repo = ctx.repo
    rel = "graphiq/backends/density_matrix/functions.py"
    m = repo.module(rel)
    fn = repo.anchor(rel, "project_and_remove")
    ctx.touch(m, fn)
    guards = [i for i in ast.walk(fn) if isinstance(i, ast.If) and "trace" in norm(i.test) and any(isinstance(a, ast.Assign) and "projector1" in norm(a) for a in ast.walk(i))]
    if len(guards) != 1:
        raise AnalysisError("project_and_remove: the impossible-outcome guard was not found")
    t = guards[0].test

    def const(e):
        if isinstance(e, ast.Constant) and isinstance(e.value, (int, float)):
            return float(e.value)
        if isinstance(e, ast.UnaryOp) and isinstance(e.op, ast.USub) and isinstance(e.operand, ast.Constant):
            return -float(e.operand.value)
        return None
    verdict = None
    if isinstance(t, ast.Compare) and len(t.ops) == 1:
        c = const(t.comparators[0])
        cl = const(t.left)
        op = t.ops[0]
        if isinstance(op, ast.Eq) and 0.0 in (c, cl):
            verdict = True
        elif isinstance(op, (ast.Lt, ast.LtE)) and c is not None:
            verdict = c <= 1e-9
        elif isinstance(op, (ast.Gt, ast.GtE)) and cl is not None:
            verdict = cl <= 1e-9
    elif isinstance(t, ast.Call) and call_name(t) in ("np.isclose", "np.allclose", "math.isclose"):
        tol = [const(k.value) for k in t.keywords if k.arg in ("atol", "abs_tol")]
        zero = len(t.args) >= 2 and 0.0 in (const(t.args[0]), const(t.args[1]))
        if zero:
            verdict = all(v is not None and v <= 1e-8 for v in tol)
    if verdict is None:
        raise AnalysisError(f"project_and_remove: guard `{short(t)}` not classified")
    if verdict:
        ctx.ok("guard.zero-probability", m, guards[0], what="complementary projector only for an impossible outcome")
    else:
        ctx.fail("guard.zero-probability", m, guards[0],
                 f"project_and_remove switches to the complementary projector when `{short(t)}`: the all-zeros outcome on the other qubits of an n-qubit graph state has "
                 f"probability 2^-(n-2), which is below that threshold from nine qubits on although the outcome is possible — density-matrix to graph / stabilizer "
                 f"conversions then lose edges", func="project_and_remove", construct="project_and_remove: possible outcome treated as impossible")


def run(ctx: Ctx) -> None:
    rule_zero_outcome_guard(ctx)
    from .c11 import rule_ctor_phase_source
    rule_ctor_phase_source(ctx)   # stabilizer tableau -> Clifford tableau is one of the conversions
    rule_phase_correction_always(ctx)
    rule_no_sign_precondition(ctx)
    rule_inverse_side(ctx)
    rule_graph_from_matrix(ctx)
    from .c17 import rule_pauli_from_bits
    rule_pauli_from_bits(ctx)
    rule_equivalency_canonical(ctx)
    from ..rules import tableau as _tbx
    _tbx.rule_xz_rowops(ctx, ["graphiq/backends/stabilizer/functions/linalg.py", "graphiq/backends/stabilizer/functions/stabilizer.py"])  # stabilizer -> graph conversions row-reduce the generators
    rule_density_signs(ctx)
    rule_helper_kinds(ctx)
    repo = ctx.repo
    numeric.rule_missing_return(ctx, SRC)
    sm = repo.module(STATE)
    only = {qualname(f) for f in sm.functions() if qualname(f).startswith("QuantumState._") and "_to_" in f.name}
    only |= {"QuantumState._initialize_representation", "QuantumState._initialize_dm", "QuantumState._initialize_graph",
             "QuantumState._initialize_stabilizer", "QuantumState._identity_fun"}
    numeric.rule_missing_return(ctx, STATE, only)
    numeric.rule_return_shape(ctx, SRC, "state_to_graph")
    rule_table_convert(ctx)
    shapes.rule_graph_build(ctx)
    shapes.rule_canon_compare(ctx)
    shapes.rule_node_order(ctx)
    from ..rules import loops
    loops.rule_view_stale(ctx, SRC)
    from ..rules import tableau as _tb
    _tb.rule_sign_carry(ctx, [SRC, STATE])
    from ..rules import memo
    memo.rule_memo_sound(ctx, [SRC, STATE])
    memo.rule_falsy_zero(ctx, [SRC, STATE])
    loops.rule_index_space(ctx, [SRC, STATE, "graphiq/backends/density_matrix/functions.py"])
    memo.rule_arg_names(ctx, [SRC, STATE])
    memo.rule_fixed_width(ctx, [SRC, STATE])
    memo.rule_paste_incomplete(ctx, [SRC, STATE])
    memo.rule_negative_start(ctx, [SRC, STATE])
    memo.rule_elim_no_pivot(ctx, [SRC, STATE])
    memo.rule_subject_drift(ctx, [SRC, STATE])
    memo.rule_isinstance_on_class(ctx, [SRC, STATE])
    memo.rule_zip_truncation(ctx, [SRC, STATE])
    memo.rule_search_fallthrough(ctx, [SRC, STATE])
    memo.rule_zip_pairing(ctx, [SRC, STATE])
    numeric.rule_gf2round(ctx, armed=[(SRC, "_graph_finder")],
                          advisory=[(SRC, "_phase_correction"), (LCE, "_solution_basis_finder"), (LCE, "_vec_solution_finder")])
    ctx.floor("flow.missing-return", 25)
    ctx.floor("table.convert", 15)


def rule_table_convert(ctx: Ctx) -> None:
    repo = ctx.repo
    m = repo.module(STATE)
    fn = repo.anchor(STATE, "QuantumState.convert_representation")
    ctx.touch(m, fn)
    table = None
    for n in ast.walk(fn):
        if isinstance(n, ast.Assign) and isinstance(n.value, ast.Dict) and n.value.keys and all(
                isinstance(k, ast.Tuple) and len(k.elts) == 2 for k in n.value.keys):
            table = n.value
    if table is None:
        raise AnalysisError("convert_representation: dispatch dict not found")
    got = {}
    for k, v in zip(table.keys, table.values):
        a, b = (e.value if isinstance(e, ast.Constant) else None for e in k.elts)
        got[(a, b)] = v
    for a, b in itertools.product(REP, REP):
        v = got.get((a, b))
        if v is None:
            ctx.fail("table.convert", m, table, f"conversion table has no entry for ('{a}', '{b}')",
                     construct=f"convert_representation: missing ({a},{b})", func="QuantumState.convert_representation")
            continue
        name = (dotted(v) or "").split(".")[-1]
        want = "_identity_fun" if a == b else f"_{REP[a]}_to_{REP[b]}"
        if name == want:
            ctx.ok("table.convert", m, v, what=f"({a},{b}) -> {name}")
        else:
            ctx.fail("table.convert", m, v,
                     f"conversion table maps ('{a}', '{b}') to `{norm(v)}`; the converter for that pair is `self.{want}`",
                     construct=f"convert_representation: ({a},{b}) -> {name}", func="QuantumState.convert_representation")
    # the new representation is always computed from the one currently held: self._rep_data = <table entry>(<current self._rep_data>)
    env = {}
    for n in ast.walk(fn):
        if isinstance(n, ast.Assign) and len(n.targets) == 1 and isinstance(n.targets[0], ast.Name):
            env.setdefault(n.targets[0].id, []).append(n.value)
    tname = None
    for n in ast.walk(fn):
        if isinstance(n, ast.Assign) and n.value is table and isinstance(n.targets[0], ast.Name):
            tname = n.targets[0].id

    def _resolves(e, pred, depth=0):
        if pred(e):
            return True
        if isinstance(e, ast.Name) and depth < 4:
            vs = env.get(e.id, [])
            return bool(vs) and all(_resolves(v, pred, depth + 1) for v in vs)
        return False
    # the requested type: the parameter itself or a local normalised from it (self._get_rep_type_name(<param>))
    new_type_names = set(func_params(fn)[1:2])
    for n in ast.walk(fn):
        if isinstance(n, ast.Assign) and len(n.targets) == 1 and isinstance(n.targets[0], ast.Name) and isinstance(n.value, ast.Call) \
                and any(isinstance(x, ast.Name) and x.id in new_type_names for a_ in n.value.args for x in ast.walk(a_)):
            new_type_names.add(n.targets[0].id)
    sets = [n for n in ast.walk(fn) if isinstance(n, ast.Assign) and any(norm(t) == "self._rep_data" for t in n.targets)]
    if not sets:
        raise AnalysisError("convert_representation: no assignment of self._rep_data")
    for a_ in sets:
        v = a_.value
        ok = (isinstance(v, ast.Call) and len(v.args) == 1
              and _resolves(v.func, lambda e: isinstance(e, ast.Subscript) and isinstance(e.value, ast.Name) and e.value.id == tname
                            and isinstance(e.slice, ast.Tuple) and len(e.slice.elts) == 2 and norm(e.slice.elts[0]) in ("self._rep_type", "self.rep_type")
                            and isinstance(e.slice.elts[1], ast.Name) and e.slice.elts[1].id in new_type_names)
              and _resolves(v.args[0], lambda e: norm(e) in ("self._rep_data", "self.rep_data")))
        if ok:
            ctx.ok("table.convert", m, a_, what="new representation = table[(old type, new type)](current data)")
        else:
            ctx.fail("table.convert", m, a_,
                     f"convert_representation sets the held representation to `{short(v, 70)}`, which is not the conversion-table entry for "
                     f"(current type, requested type) applied to the data currently held: a representation obtained any other way (a remembered "
                     f"earlier one, say) does not reflect gates applied to the state since", func="QuantumState.convert_representation",
                     construct="convert_representation: new representation not computed from the current data")
    # each helper delegates to the same-named conversion function and feeds it the representation's data
    for a, b in itertools.permutations(REP, 2):
        q = f"QuantumState._{REP[a]}_to_{REP[b]}"
        h = repo.anchor(STATE, q)
        ctx.touch(m, h)
        want = f"{REP[a]}_to_{REP[b]}"
        calls = [c for c in ast.walk(h) if isinstance(c, ast.Call) and (dotted(c.func) or "").split(".")[-1].endswith("_to_" + REP[b])
                 or isinstance(c, ast.Call) and (dotted(c.func) or "").split(".")[-1].startswith(REP[a] + "_to_")]
        names = {(dotted(c.func) or "").split(".")[-1] for c in calls}
        if want in names and len(names) == 1:
            ctx.ok("table.convert", m, h, what=f"{q} -> rc.{want}")
        else:
            ctx.fail("table.convert", m, h, f"{q} delegates to {sorted(names) or 'nothing'}, expected `{want}`",
                     construct=f"{q}: delegates to {sorted(names)}", func=q)


def _diag_view(src: str) -> str:
    a = "    final_z_diag = list(np.diag(final_z))\n    z_diag_pos = [i for i, d in enumerate(final_z_diag) if d != 0]\n"
    b = "    state_graph = nx.from_numpy_array(final_z)\n"
    if src.count(a) != 1 or src.count(b) != 1:
        raise LookupError("knock-out anchor text missing")
    src = src.replace(a, "    final_z_diag = np.diag(final_z)\n")
    return src.replace(b, b + "    z_diag_pos = [i for i, d in enumerate(final_z_diag) if d != 0]\n")


def _filtered_positions(src: str) -> str:
    a = "    graph_adj = np.zeros((n_qubits, n_qubits))\n    for i in range(n_qubits):\n        for j in range(i + 1, n_qubits):\n"
    if src.count(a) != 1:
        raise LookupError("knock-out anchor text missing")
    return src.replace(a, "    graph_adj = np.zeros((n_qubits, n_qubits))\n    live = [k for k in range(n_qubits) if k >= 0]\n    n_live = len(live)\n    for i in range(n_live):\n        for j in range(i + 1, n_live):\n")


KNOCKOUTS = [
    Knockout("project-and-remove-threshold", "graphiq/backends/density_matrix/functions.py", sub_once("    if np.trace(new_rho) == 0:\n        projector1", "    if np.real(np.trace(new_rho)) < 1e-2:\n        projector1"), "guard.zero-probability", "2^-(n-2)"),
    Knockout("state-to-graph-skips-phase-correction-for-unsigned-input", "graphiq/backends/state_rep_conversion.py", sub_once("    # phase correction; adding Z gates at the end", "    if not np.any(tab.phase):\n        return graph, tab, gate_list\n    # phase correction; adding Z gates at the end"), "flow.phase-correction", "before _phase_correction"),
    Knockout("density-to-graph-from-edge-list", "graphiq/state.py", sub_once("            new_rep = Graph(nx.from_numpy_array(new_data))\n", "            rows, cols = np.nonzero(np.triu(new_data))\n            new_rep = Graph(nx.Graph(list(zip(rows.tolist(), cols.tolist()))))\n"), "graph.from-matrix", "edge list"),
    Knockout("graph-finder-inverts-untransposed-block", SRC, sub_once("    x_inv = (np.rint(np.linalg.det(x_mat.T) * np.linalg.inv(x_mat.T)) % 2).astype(int)\n", "    x_inv = (np.rint(np.linalg.det(x_mat) * np.linalg.inv(x_mat)) % 2).astype(int)\n"), "conv.inverse-side", "mismatched sides"),
    Knockout("graph-conversion-refuses-negative-signs", SRC, sub_once("        tableau = input_stabilizer\n        graph = _graph_finder(tableau.x_matrix, tableau.z_matrix)\n", "        tableau = input_stabilizer\n        assert not np.any(tableau.phase), \"Input stabilizer is not a graph state.\"\n        graph = _graph_finder(tableau.x_matrix, tableau.z_matrix)\n"), "convert.no-sign-precondition", "precondition on signs"),
    Knockout("row-reduction-z-block-added-from-other-row", "graphiq/backends/stabilizer/functions/linalg.py", sub_nth("                z_matrix = add_rows(z_matrix, pivot[0], j)\n", "                z_matrix = add_rows(z_matrix, the_ones[0], j)\n", 0), "sibling.xz-rowops", "_row_red_one_step"),
    Knockout("position-finder-starts-before-first-column", SRC, sub_once("    pivot = [0, 0]\n    n = x_matrix.shape[0]\n    pos_list = []", "    pivot = [-1, -1]\n    n = x_matrix.shape[0]\n    pos_list = []"), "index.negative-start", "_position_finder"),
    Knockout("gf2-inverse-without-pivoting", SRC, sub_once("def _graph_finder(x_matrix, z_matrix, get_ops_data=False):", "def _gf2_inverse(matrix):\n    n = matrix.shape[0]\n    augmented = np.hstack([matrix.astype(int) % 2, np.eye(n, dtype=int)])\n    for col in range(n):\n        assert augmented[col, col] == 1\n        for row in range(n):\n            if row != col and augmented[row, col] == 1:\n                augmented[row] = (augmented[row] + augmented[col]) % 2\n    return augmented[:, n:]\n\n\ndef _graph_finder(x_matrix, z_matrix, get_ops_data=False):"), "elim.no-pivot", "_gf2_inverse"),
    Knockout("filtered-position-as-label", SRC, _filtered_positions, "index.space", "used as a label"),
    Knockout("equivalency-raw-compare", SRC, sub_once("        return canonical_form(stab1.copy()) == canonical_form(stab2.copy())", "        return stab1 == stab2"), "canon.compare", "without canonical forms", on_fixed_only=True),
    Knockout("rep-cache", STATE, sub_once("            self._rep_data = conversion_func(tmp_data)", "            if not hasattr(self, '_memo'):\n                self._memo = {}\n            self._memo[self._rep_type] = tmp_data\n            self._rep_data = self._memo[rep_type] if rep_type in self._memo else conversion_func(tmp_data)"), "table.convert", "not computed from the current data"),
    Knockout("s-to-g-clifford-arg", STATE, sub_once("            graph_list = rc.stabilizer_to_graph(rep.data.to_stabilizer())", "            graph_list = rc.stabilizer_to_graph(rep.data)"), "call.accepts", "receives a CliffordTableau", on_fixed_only=True),
    Knockout("dm-to-g-array-arg", STATE, sub_once("            new_rep = Graph(nx.from_numpy_array(new_data))", "            new_rep = Graph(new_data)"), "call.accepts", "adjacency array", on_fixed_only=True),
    Knockout("clifford-input-signs-dropped", SRC, sub_once("        tab = state.to_stabilizer()\n", "        tab = StabilizerTableau(state.stabilizer)\n"), "sign.carry", "without signs"),
    Knockout("convert-from-stale-copy", STATE, sub_once("            self._rep_data = conversion_func(tmp_data)", "            self._rep_data = conversion_func(self._initial_data)"), "table.convert", "not computed from the current data"),
    Knockout("diag-view-read-late", SRC, _diag_view, "view.stale", "read after in-place modification"),
    Knockout("canon-compare", SRC, sub_once("    new_tab = canonical_form(run_circuit(tab1.copy(), gate_list))", "    new_tab = run_circuit(tab1.copy(), gate_list)"), "canon.compare", "new_tab"),
    Knockout("node-order-sorted", SRC, sub_once("    mapping = dict(zip(graph_data.nodes(), range(0, n_qubits)))", "    mapping = dict(zip(sorted(graph_data.nodes()), range(0, n_qubits)))"), "node.order", "_graph_to_density_pure"),
    Knockout("graph-build-zero-state", SRC, sub_once("    final_state = dmf.create_n_plus_state(n_qubits)", "    final_state = dmf.create_n_product_state(n_qubits, dmf.state_ketz0())"), "graph.build", "_graph_to_density_pure"),
    Knockout("graph-build-cz-x", "graphiq/backends/density_matrix/functions.py", sub_once("cz = get_two_qubit_controlled_gate(n_qubits, control_qubit, target_qubit, sigmaz())", "cz = get_two_qubit_controlled_gate(n_qubits, control_qubit, target_qubit, sigmax())"), "graph.build", "apply_cz"),
    Knockout("graph-build-blocks", SRC, sub_once("    return StabilizerTableau([np.eye(n_nodes), adj_matrix])", "    return StabilizerTableau([adj_matrix, np.eye(n_nodes)])"), "graph.build", "_graph_to_stabilizer_pure"),
    Knockout("G7-drop-return", SRC,
             sub_once("        graph = _density_to_graph_pure(input_matrix)\n        stabilizer = _graph_to_stabilizer_pure(graph)\n        return [(1.0, stabilizer)]",
                      "        graph = _density_to_graph_pure(input_matrix)\n        stabilizer = _graph_to_stabilizer_pure(graph)"),
             "flow.missing-return", "density_to_stabilizer"),
    Knockout("G7-return-order", SRC, sub_once("        return state, tab, []", "        return state, [], tab"), "flow.return-shape", "state_to_graph"),
    Knockout("E3-swap-values", STATE,
             sub_once('("dm", "g"): self._density_to_graph,\n            ("dm", "s"): self._density_to_stabilizer,',
                      '("dm", "g"): self._density_to_stabilizer,\n            ("dm", "s"): self._density_to_graph,'),
             "table.convert", "(dm,g)"),
    Knockout("E3-delete-pair", STATE, sub_once('            ("s", "g"): self._stabilizer_to_graph,\n', ''), "table.convert", "missing (s,g)"),
    Knockout("G4-unrounded", SRC, sub_once("x_inv = (np.rint(np.linalg.det(x_mat.T) * np.linalg.inv(x_mat.T)) % 2).astype(int)",
                                           "x_inv = (np.linalg.det(x_mat.T) * np.linalg.inv(x_mat.T) % 2).astype(int)"),
             "num.gf2round", "_graph_finder", on_fixed_only=True),
]
