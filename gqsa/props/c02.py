"""C02 — time-reversed solver output generates the target (narrow structural claim, DESIGN §5.2)."""
from __future__ import annotations

import ast

from ..core import AnalysisError, call_attr, call_name, calls_in, func_params, norm, parent, short
from ..driver import Knockout, sub_nth, sub_once
from ..report import Ctx
from ..rules import mirror, solvers, tables
from ..rules.mirror import TRS
from ..rules.tableau import STABF

EXPLANATION = (
    "Narrow structural claim. The solver's core invariant — whenever the working tableau is transformed by U, the circuit "
    "receives U^-1 at the front of the same wire — is checked block by block over TimeReversedSolver: in every statement "
    "block the i-th circuit event (one-qubit gate list, emitter-emitter CNOT, emitter-photon CNOT) is matched against the "
    "tableau events it mirrors; for one-qubit events the gate list, read as a matrix product in the checker's finite "
    "Clifford model, must be the inverse of the product of the consecutive tableau gates on that qubit (so [SigmaZ, Phase] "
    "<-> phase_gate, [Phase, Hadamard] <-> phase_dagger_gate; hadamard_gate are computed, not listed); CNOT helpers must "
    "act on the same control/target modulo the helper's index convention (linear normal forms, offset n_photon); every "
    "tableau gate must be mirrored; the gate lists of _change_pauli_type are inserted on the transformed qubit at all call "
    "sites; the time-reversed measurement is the one frozen triple; _add_gates_from_str applies to the tableau, per tag, "
    "the gate the tag denotes and handles every tag inverse_circuit can emit (order.mirror, vocab.gates). Front insertion "
    "(order.frontinsert) and result provenance (score = metric(compile(circuit)), validate() first, stored copy) are "
    "checked as in C04. Does not decide that the choice logic drives the tableau to |0..0> for every graph, exactness of "
    "the state in either backend, or outcome independence.")


# steps of the time-reversed protocol that run on *every* call of the method (confirmed by reading; one reason per line).  A call made
# conditional ("fast path when every emitter is free") skips a step the next one relies on.
_UNCONDITIONAL_STEPS = {
    "_time_reversed_measurement": [
        ("_single_out_emitter", "the measured generator must be a single Z on the chosen emitter before the Hadamard / measurement is applied"),
        ("_add_measurement_cnot_and_reset", "the measurement that the step reverses"),
    ],
    "_single_out_emitter": [
        ("_transform_generator_emitters", "free emitters can be entangled with each other (they just absorbed a whole component of a disconnected "
                                          "target): the generator has to be reduced to one emitter by CNOTs whatever the history"),
    ],
    "_add_photon_absorption": [
        ("_transform_generator_emitters", "the generator must act on one emitter only before the emission CNOT is placed"),
        ("_add_emitter_photon_cnot", "the emission itself"),
    ],
}


def rule_unconditional_steps(ctx: Ctx) -> None:
    """flow.unconditional-step: the protocol steps listed in _UNCONDITIONAL_STEPS are top-level statements of their method: not nested under
    an `if`, a loop or a try, and not governed by an argument that can switch them off (a callee parameter whose only use is to guard
    the step)."""
    repo = ctx.repo
    m = repo.module(TRS)
    ci = repo.cls("TimeReversedSolver", TRS)
    ms = ci.methods()
    for meth, steps in _UNCONDITIONAL_STEPS.items():
        fn = ms.get(meth)
        if fn is None:
            raise AnalysisError(f"TimeReversedSolver.{meth} missing (table _UNCONDITIONAL_STEPS is out of date)")
        ctx.touch(m, fn)
        for callee, why in steps:
            calls = [c for c in calls_in(fn) if (call_name(c) or "") == f"self.{callee}"]
            if not calls:
                ctx.fail("flow.unconditional-step", m, fn, f"TimeReversedSolver.{meth} no longer calls {callee}: {why}", func=f"TimeReversedSolver.{meth}",
                         construct=f"{meth}: {callee} missing")
                continue
            top = [c for c in calls if any(isinstance(st, (ast.Expr, ast.Assign)) and any(x is c for x in ast.walk(st)) for st in fn.body)]
            if top:
                ctx.ok("flow.unconditional-step", m, top[0], what=f"{meth}: {callee} on every call")
            else:
                c = calls[0]
                g = parent(c)
                while g is not None and not isinstance(g, (ast.If, ast.For, ast.While, ast.Try)):
                    g = parent(g)
                cond = f"`{short(g.test)}`" if isinstance(g, ast.If) else "a loop / try block"
                if isinstance(g, ast.If):
                    # whether the step has something to do is a property of the tableau; a guard that *looks at the tableau* ("only if the
                    # generator still acts on several emitters") may be a correct no-op test and is not decided here, a guard that does
                    # not (a flag, a counter, the history) cannot know
                    tabs = {p_ for p_ in func_params(fn)[1:] if "tableau" in p_ or p_ in ("tab", "stabilizer_tableau")}
                    loc = {a.targets[0].id: a.value for a in ast.walk(fn) if isinstance(a, ast.Assign) and len(a.targets) == 1 and isinstance(a.targets[0], ast.Name)}

                    def reads_tab(e, d=0):
                        for x in ast.walk(e):
                            if isinstance(x, ast.Name) and (x.id in tabs or (d < 2 and x.id in loc and reads_tab(loc[x.id], d + 1))):
                                return True
                        return False
                    if reads_tab(g.test):
                        raise AnalysisError(f"TimeReversedSolver.{meth}: {callee} is guarded by a test on the tableau ({cond}); whether that guard is a correct "
                                            f"'nothing to do' test is not decided")
                ctx.fail("flow.unconditional-step", m, c,
                         f"TimeReversedSolver.{meth} calls {callee} only under {cond}: {why}", func=f"TimeReversedSolver.{meth}",
                         construct=f"{meth}: {callee} conditional")


def rule_index_space(ctx: Ctx) -> None:
    """index.space: the solver uses two index spaces for emitters — the emitter's register number e (0 .. n_emitter-1: circuit operations,
    register names) and its position n_photon + e in the tableau (gates on the tableau, `_add_one_qubit_gate`, which splits at n_photon
    itself).  The space of every method parameter is inferred from its uses (offset added -> register number; handed to a tableau gate,
    compared with / reduced by n_photon -> position; handed on to a parameter whose space is known -> that space), to a fixpoint over the
    methods of the class.  A parameter with evidence for both spaces is a call that forgot (or doubled) the offset."""
    repo = ctx.repo
    m = repo.module(TRS)
    ci = repo.cls("TimeReversedSolver", TRS)
    methods = ci.methods()
    ev = {}   # (method, param) -> {"E": [(node, why)], "T": [...]}

    def add(meth, p, sp, node, why):
        d = ev.setdefault((meth, p), {"E": [], "T": []})
        if not any(n_ is node for n_, _ in d[sp]):
            d[sp].append((node, why))
            return True
        return False

    def is_np(e):
        return norm(e) in ("self.n_photon", "n_photon")
    def aliases(fn):
        """local names that are plain copies of a parameter (`target_emitter = emitter_index`) stand for that parameter"""
        ps0 = set(func_params(fn)[1:])
        al = {p_: p_ for p_ in ps0}
        binds = {}
        for a in ast.walk(fn):
            if isinstance(a, ast.Assign) and len(a.targets) == 1 and isinstance(a.targets[0], ast.Name):
                binds.setdefault(a.targets[0].id, []).append(a.value)
        for k, vs in binds.items():
            if k not in ps0 and len(vs) == 1 and isinstance(vs[0], ast.Name) and vs[0].id in ps0:
                al[k] = vs[0].id
            elif k not in ps0 and len(vs) == 1:
                al[k] = k          # a local bound once is typed like a parameter (it cannot change space between uses)
        for lp in ast.walk(fn):
            if isinstance(lp, ast.For) and isinstance(lp.target, ast.Name) and lp.target.id not in al and lp.target.id not in binds:
                al[lp.target.id] = lp.target.id
        return al

    class _PS:
        """membership / lookup through the alias map"""
        def __init__(self, al):
            self.al = al

        def __contains__(self, k):
            return k in self.al

        def of(self, k):
            return self.al[k]
    for name, fn in methods.items():
        ps = _PS(aliases(fn))
        for x in ast.walk(fn):
            if isinstance(x, ast.BinOp) and isinstance(x.op, ast.Add):
                for a_, b_ in ((x.left, x.right), (x.right, x.left)):
                    if is_np(a_) and isinstance(b_, ast.Name) and b_.id in ps:
                        add(name, ps.of(b_.id), "E", x, f"`{short(x)}` adds the photon offset")
            if isinstance(x, ast.BinOp) and isinstance(x.op, ast.Sub) and is_np(x.right) and isinstance(x.left, ast.Name) and x.left.id in ps:
                add(name, ps.of(x.left.id), "T", x, f"`{short(x)}` removes the photon offset")
            if isinstance(x, ast.Compare) and len(x.ops) == 1 and isinstance(x.ops[0], (ast.Lt, ast.LtE, ast.Gt, ast.GtE)):
                for a_, b_ in ((x.left, x.comparators[0]), (x.comparators[0], x.left)):
                    if is_np(a_) and isinstance(b_, ast.Name) and b_.id in ps:
                        add(name, ps.of(b_.id), "T", x, f"`{short(x)}` compares it with the number of photons")
            if isinstance(x, ast.Call) and (call_name(x) or "").startswith("transform.") and call_attr(x).endswith("_gate"):
                for a_ in x.args[1:]:
                    if isinstance(a_, ast.Name) and a_.id in ps:
                        add(name, ps.of(a_.id), "T", x, f"`{short(x, 60)}` uses it as a tableau position")
            if isinstance(x, ast.JoinedStr):
                vals = x.values
                for i, v in enumerate(vals):
                    if isinstance(v, ast.FormattedValue) and isinstance(v.value, ast.Name) and v.value.id in ps and i > 0 and isinstance(vals[i - 1], ast.Constant) \
                            and str(vals[i - 1].value).endswith("e"):
                        add(name, ps.of(v.value.id), "E", x, f"`{short(x)}` names the emitter register")
            if isinstance(x, ast.Call) and (call_name(x) or "").startswith("ops."):
                kws = {k.arg: k.value for k in x.keywords}
                for reg_kw, type_kw in (("register", "reg_type"), ("control", "control_type"), ("target", "target_type")):
                    if isinstance(kws.get(reg_kw), ast.Name) and kws[reg_kw].id in ps and isinstance(kws.get(type_kw), ast.Constant) and kws[type_kw].value == "e":
                        add(name, ps.of(kws[reg_kw].id), "E", x, f"`{short(x, 60)}` uses it as an emitter register number")
    changed = True
    rounds = 0
    while changed and rounds < 6:
        changed = False
        rounds += 1
        for name, fn in methods.items():
            ps = _PS(aliases(fn))
            for c in calls_in(fn):
                if not ((call_name(c) or "").startswith("self.") and call_attr(c) in methods):
                    continue
                callee = call_attr(c)
                cps = func_params(methods[callee])[1:]
                bound = list(zip(cps, c.args)) + [(k.arg, k.value) for k in c.keywords if k.arg in cps]
                for cp, a_ in bound:
                    d = ev.get((callee, cp))
                    if not d:
                        continue
                    spaces = [sp for sp in ("E", "T") if d[sp]]
                    if len(spaces) != 1:
                        continue
                    sp = spaces[0]
                    if isinstance(a_, ast.Name) and a_.id in ps:
                        if add(name, ps.of(a_.id), sp, c, f"`{short(c, 70)}` hands it to `{cp}` of {callee}, a {'register number' if sp == 'E' else 'tableau position'}"):
                            changed = True
    conflicts = [(k, d) for k, d in ev.items() if d["E"] and d["T"]]
    n_typed = sum(1 for d in ev.values() if d["E"] or d["T"])
    if n_typed < 8:
        raise AnalysisError(f"index.space: only {n_typed} parameters could be given an index space (anchor moved or idiom no longer recognised)")
    ctx.touch(m)
    if not conflicts:
        ctx.ok("index.space", m, ci.node, what=f"{n_typed} parameters typed as emitter register number or tableau position, no parameter used as both")
    for (meth, p_), d in conflicts:
        # report at the propagated evidence (a call), which is where the offset is missing / doubled
        prop_ = [x for x in d["E"] + d["T"] if isinstance(x[0], ast.Call) and (call_name(x[0]) or "").startswith("self.")]
        node, why = (prop_[-1] if prop_ else d["T"][0])
        e_why, t_why = d["E"][0][1], d["T"][0][1]
        ctx.fail("index.space", m, node,
                 f"TimeReversedSolver.{meth}: `{p_}` is used as an emitter register number ({e_why}) and as a tableau position ({t_why}); the emitter e sits at "
                 f"position n_photon + e of the tableau, so one of the two uses addresses a photon (or a position beyond the tableau)",
                 func=f"TimeReversedSolver.{meth}", construct=f"{meth}: `{p_}` in both index spaces")


def run(ctx: Ctx) -> None:
    from ..rules import solvers as _slvf
    _slvf.rule_frontinsert_owner(ctx)
    rule_index_space(ctx)
    rule_unconditional_steps(ctx)
    from ..rules import echelon as _echelon
    _echelon.arm(ctx)
    from .c11 import rule_inverse_blocks, rule_block_conditions
    rule_inverse_blocks(ctx)
    rule_block_conditions(ctx)
    from .c11 import rule_canonical_first
    rule_canonical_first(ctx)
    from .c11 import rule_zpivot_hadamard
    rule_zpivot_hadamard(ctx)
    from ..rules import memo as _memo
    _memo.rule_memo_sound(ctx, ['graphiq/solvers/time_reversed_solver.py', 'graphiq/backends/stabilizer/functions/stabilizer.py'])
    _memo.rule_falsy_zero(ctx, ['graphiq/solvers/time_reversed_solver.py', 'graphiq/backends/stabilizer/functions/stabilizer.py'])
    _memo.rule_arg_names(ctx, ['graphiq/solvers/time_reversed_solver.py', 'graphiq/backends/stabilizer/functions/stabilizer.py'])
    _memo.rule_fixed_width(ctx, ['graphiq/solvers/time_reversed_solver.py', 'graphiq/backends/stabilizer/functions/stabilizer.py'])
    _memo.rule_paste_incomplete(ctx, ['graphiq/solvers/time_reversed_solver.py', 'graphiq/backends/stabilizer/functions/stabilizer.py'])
    _memo.rule_negative_start(ctx, ['graphiq/solvers/time_reversed_solver.py', 'graphiq/backends/stabilizer/functions/stabilizer.py'])
    _memo.rule_elim_no_pivot(ctx, ['graphiq/solvers/time_reversed_solver.py', 'graphiq/backends/stabilizer/functions/stabilizer.py'])
    _memo.rule_subject_drift(ctx, ['graphiq/solvers/time_reversed_solver.py', 'graphiq/backends/stabilizer/functions/stabilizer.py'])
    _memo.rule_isinstance_on_class(ctx, ['graphiq/solvers/time_reversed_solver.py', 'graphiq/backends/stabilizer/functions/stabilizer.py'])
    _memo.rule_zip_truncation(ctx, ['graphiq/solvers/time_reversed_solver.py', 'graphiq/backends/stabilizer/functions/stabilizer.py'])
    _memo.rule_search_fallthrough(ctx, ['graphiq/solvers/time_reversed_solver.py', 'graphiq/backends/stabilizer/functions/stabilizer.py'])
    _memo.rule_zip_pairing(ctx, ['graphiq/solvers/time_reversed_solver.py', 'graphiq/backends/stabilizer/functions/stabilizer.py'])
    repo = ctx.repo
    handled = mirror.rule_mirror(ctx)
    mirror.rule_guarded_first(ctx)
    rule_target_shared(ctx)
    rule_index_split(ctx)
    from ..rules import effects
    effects.rule_consumed_tableau(ctx, [TRS])
    tables.rule_vocab(ctx, "vocab.gates", [(STABF, "inverse_circuit")], "TimeReversedSolver._add_gates_from_str", handled)
    solvers.rule_frontinsert(ctx)
    from ..rules import loops
    loops.rule_pivot_choice(ctx, STABF)
    solvers.rule_result_provenance(ctx, TRS, "TimeReversedSolver.solve", False)
    ctx.floor("order.mirror", 25)
    ctx.floor("order.frontinsert", 6)


def rule_index_split(ctx: Ctx) -> None:
    """index.split: the solver's working tableau lists the photons first and the emitters after them, so tableau position i belongs to
    photon i when i < n_photon and to emitter i - n_photon otherwise.  _add_one_qubit_gate translates a tableau position into
    (reg_type, register) with exactly this split; the comparison is evaluated at the positions n_photon - 1, n_photon, n_photon + 1 and
    the register expressions are compared as linear forms."""
    import ast as _ast
    from .. import linear
    from ..core import norm as _norm
    repo = ctx.repo
    m = repo.module(TRS)
    fn = repo.anchor(TRS, "TimeReversedSolver._add_one_qubit_gate")
    ctx.touch(m, fn)
    idx = func_params(fn)[3]
    split = next((i for i in fn.body if isinstance(i, _ast.If) and idx in _norm(i.test) and "n_photon" in _norm(i.test)), None)
    if split is None or not isinstance(split.test, _ast.Compare) or len(split.test.ops) != 1:
        raise AnalysisError("_add_one_qubit_gate: the photon / emitter split was not found")
    t = split.test
    d = linear.sub(linear.lin(t.left) or {"?": 1}, linear.lin(t.comparators[0]) or {"?": 1})
    NP = next((k for k in d if k.endswith("n_photon")), None)
    if NP is None or set(k for k, v in d.items() if v) - {idx, NP, ""} or d.get(idx, 0) not in (1, -1) or d.get(NP, 0) != -d.get(idx, 0):
        raise AnalysisError(f"_add_one_qubit_gate: `{short(t)}` is not a comparison of the position with n_photon")

    def taken(off):   # value of the test at index = n_photon + off
        val = d.get(idx, 0) * off + d.get("", 0)
        return {_ast.Gt: val > 0, _ast.GtE: val >= 0, _ast.Lt: val < 0, _ast.LtE: val <= 0, _ast.Eq: val == 0, _ast.NotEq: val != 0}[type(t.ops[0])]

    def arm_values(stmts):
        out = {}
        for a in stmts:
            if isinstance(a, _ast.Assign) and len(a.targets) == 1 and isinstance(a.targets[0], _ast.Name):
                out[a.targets[0].id] = a.value
        return out
    bad = []
    for off, want_type, want_reg in ((-1, "p", {idx: 1}), (0, "e", {idx: 1, NP: -1}), (1, "e", {idx: 1, NP: -1})):
        vals = arm_values(split.body if taken(off) else split.orelse)
        tys = [v for v in vals.values() if isinstance(v, _ast.Constant) and v.value in ("e", "p")]
        regs = [v for v in vals.values() if not isinstance(v, _ast.Constant)]
        if len(tys) != 1 or len(regs) != 1:
            raise AnalysisError("_add_one_qubit_gate: arms of the split do not assign (reg_type, register)")
        where = f"position n_photon{off:+d}" if off else "position n_photon"
        if tys[0].value != want_type:
            bad.append(f"{where} is treated as a{'n emitter' if tys[0].value == 'e' else ' photon'}")
        elif linear.clean(linear.lin(regs[0]) or {"?": 1}) != want_reg:
            bad.append(f"{where}: the register is `{short(regs[0])}`, expected {linear.show(want_reg)}")
    if bad:
        ctx.fail("index.split", m, split, "_add_one_qubit_gate: " + "; ".join(dict.fromkeys(bad)) + " (photons occupy tableau positions 0 .. n_photon - 1, emitters follow)",
                 func="TimeReversedSolver._add_one_qubit_gate", construct="_add_one_qubit_gate: position -> (reg_type, register)")
    else:
        ctx.ok("index.split", m, split, what="i < n_photon -> ('p', i); otherwise ('e', i - n_photon)")


def rule_target_shared(ctx: Ctx) -> None:
    """target.shared: the solver's target and the metric's target are one QuantumState object created by the caller (Infidelity(target)
    evaluates only stabilizer / density-matrix targets).  TimeReversedSolver.__init__ therefore converts *that object* to the stabilizer
    representation; converting a private copy leaves the metric holding a graph-typed target and solve() raises for every target given as
    a graph."""
    import ast as _ast
    repo = ctx.repo
    m = repo.module(TRS)
    fn = repo.anchor(TRS, "TimeReversedSolver.__init__")
    ctx.touch(m, fn)
    tp = func_params(fn)[1]
    convs = [c for c in calls_in(fn) if call_attr(c) == "convert_representation"]
    if not convs:
        raise AnalysisError("TimeReversedSolver.__init__: the conversion of the target was not found")
    for c in convs:
        recv = c.func.value
        rebinds = [a for a in _ast.walk(fn) if isinstance(a, _ast.Assign) and any(isinstance(t, _ast.Name) and t.id == tp for t in a.targets)
                   and a.lineno < c.lineno]
        if isinstance(recv, _ast.Name) and recv.id == tp and not rebinds:
            ctx.ok("target.shared", m, c, what="the caller's target object is converted in place")
        else:
            ctx.fail("target.shared", m, rebinds[0] if rebinds else c,
                     f"__init__ converts `{short(recv)}`" + (f" after re-binding it (`{short(rebinds[0])}`)" if rebinds else "") +
                     ", not the QuantumState the caller also handed to the metric: that one keeps its graph representation and Infidelity cannot evaluate it",
                     func="TimeReversedSolver.__init__", construct="__init__: a copy of the target is converted")


KNOCKOUTS = [
    Knockout("disentangling-skipped-on-a-flag", TRS, sub_once("        self._transform_generator_emitters(\n            circuit, tableau, generator_index, emitter_index\n        )\n\n        if tableau.phase[generator_index] == 1:", "        if self.n_emitter > 1 and len(circuit.emitter_registers) > 1 and circuit.depth > 0:\n            self._transform_generator_emitters(\n                circuit, tableau, generator_index, emitter_index\n            )\n\n        if tableau.phase[generator_index] == 1:"), "flow.unconditional-step", "_transform_generator_emitters conditional"),
    Knockout("absorption-reads-search-loop-variable", TRS, sub_once('        gate_list = self._change_pauli_type(tableau, generator_index, photon_index, "z")\n        self._add_one_qubit_gate(circuit, gate_list, photon_index)\n', '        gate_list = self._change_pauli_type(tableau, i, photon_index, "z")\n        self._add_one_qubit_gate(circuit, gate_list, photon_index)\n'), "search.fallthrough", "_add_photon_absorption"),
    Knockout("sign-repair-without-photon-offset", TRS, sub_nth("            transform.x_gate(tableau, self.n_photon + emitter_index)\n", "            transform.x_gate(tableau, emitter_index)\n", 0), "index.space", "both index spaces"),
    Knockout("one-qubit-gate-split-strict", TRS, sub_once("        if index >= self.n_photon:\n            reg_type = \"e\"", "        if index > self.n_photon:\n            reg_type = \"e\""), "index.split", "position n_photon"),
    Knockout("one-qubit-gate-emitter-register-sign", TRS, sub_once("            reg = index - self.n_photon\n", "            reg = self.n_photon - index\n"), "index.split", "register is"),
    Knockout("target-converted-on-a-copy", TRS, sub_once("            target.convert_representation(\"s\")\n", "            target = target.copy()\n            target.convert_representation(\"s\")\n            self.target = target\n"), "target.shared", "copy of the target"),
    Knockout("consumed-tableau-no-copy", TRS, sub_once("_, inverse_circuit = sfs.inverse_circuit(stabilizer_tableau.copy())", "_, inverse_circuit = sfs.inverse_circuit(stabilizer_tableau)"),
             "effect.consumed-tableau", "inverse_circuit"),
    Knockout("guarded-first-drop-assert", TRS, sub_once("        assert len(possible_generators) > 0\n", ""), "guarded-first", "possible_generators"),
    Knockout("F3-drop-x-mirror", TRS,
             sub_nth("            transform.x_gate(tableau, self.n_photon + emitter_index)\n            self._add_one_qubit_gate(\n                circuit, [ops.SigmaX], self.n_photon + emitter_index\n            )",
                     "            transform.x_gate(tableau, self.n_photon + emitter_index)", 0),
             "order.mirror", "x_gate"),
    Knockout("F3-wrong-inverse", TRS,
             sub_once("                gate_list.append(ops.Phase)\n                gate_list.append(ops.Hadamard)", "                gate_list.append(ops.Hadamard)\n                gate_list.append(ops.Phase)"),
             "order.mirror", "_change_pauli_type"),
    Knockout("F3-missing-z-in-phase-inverse", TRS,
             sub_nth("                gate_list.append(ops.SigmaZ)\n                gate_list.append(ops.Phase)", "                gate_list.append(ops.Phase)", 0),
             "order.mirror", "_change_pauli_type"),
    Knockout("F3-phase-not-inverted", TRS,
             sub_once("                self._add_one_qubit_gate(circuit, [ops.SigmaZ, ops.Phase], gate[1])\n                transform.phase_gate(tableau, gate[1])",
                      "                self._add_one_qubit_gate(circuit, [ops.Phase], gate[1])\n                transform.phase_gate(tableau, gate[1])"),
             "order.mirror", "_add_gates_from_str"),
    Knockout("F3-cnot-swapped", TRS,
             sub_once("            self._add_one_emitter_cnot(circuit, control_emitter, target_emitter)\n            transform.cnot_gate(\n                tableau,\n                self.n_photon + control_emitter,\n                self.n_photon + target_emitter,\n            )\n\n    def _transform_generator_emitters_advanced",
                      "            self._add_one_emitter_cnot(circuit, target_emitter, control_emitter)\n            transform.cnot_gate(\n                tableau,\n                self.n_photon + control_emitter,\n                self.n_photon + target_emitter,\n            )\n\n    def _transform_generator_emitters_advanced"),
             "order.mirror", "_transform_generator_emitters"),
    Knockout("F3-emission-index", TRS,
             sub_once("        self._add_emitter_photon_cnot(circuit, emitter_index, photon_index)\n        transform.cnot_gate(tableau, self.n_photon + emitter_index, photon_index)",
                      "        self._add_emitter_photon_cnot(circuit, emitter_index, photon_index)\n        transform.cnot_gate(tableau, emitter_index, photon_index)"),
             "order.mirror", "_add_emitter_photon_cnot"),
    Knockout("F3-callsite-wrong-qubit", TRS,
             sub_once("        gate_list = self._change_pauli_type(tableau, generator_index, photon_index, \"z\")\n        self._add_one_qubit_gate(circuit, gate_list, photon_index)",
                      "        gate_list = self._change_pauli_type(tableau, generator_index, photon_index, \"z\")\n        self._add_one_qubit_gate(circuit, gate_list, generator_index)"),
             "order.mirror", "_change_pauli_type"),
    Knockout("F3-measurement-pattern", TRS,
             sub_once("        transform.hadamard_gate(tableau, self.n_photon + emitter_index)\n        self._add_measurement_cnot_and_reset(circuit, emitter_index, photon_index)",
                      "        self._add_measurement_cnot_and_reset(circuit, emitter_index, photon_index)"),
             "order.mirror", "measurement pattern"),
    Knockout("F3-cz-tag", TRS,
             sub_once("            elif gate[0] == \"CZ\":\n                self._add_one_qubit_gate(circuit, [ops.Hadamard], gate[2])\n                transform.hadamard_gate(tableau, gate[2])",
                      "            elif gate[0] == \"CZ\":\n                self._add_one_qubit_gate(circuit, [ops.Hadamard], gate[1])\n                transform.hadamard_gate(tableau, gate[1])"),
             "order.mirror", "tag 'CZ'"),
    Knockout("E6-inverse-circuit-new-tag", STABF, sub_once('            circuit_list.append(("P", j))', '            circuit_list.append(("P_dag", j))'), "vocab.gates", "P_dag"),
    Knockout("F2-insert-at-output", TRS,
             sub_nth('emitter_edge = circuit.dag.out_edges(nbunch=f"e{emitter_index}_in", keys=True)', 'emitter_edge = circuit.dag.in_edges(nbunch=f"e{emitter_index}_out", keys=True)', 0),
             "order.frontinsert", "_add_emitter_photon_cnot"),
    Knockout("D4-score-constant", TRS, sub_once("        self.result = (score, circuit.copy())", "        self.result = (0.0, circuit.copy())"), "effect.result-provenance", "result"),
]
