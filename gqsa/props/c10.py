"""C10 — every alternate-target result generates the relabelled target (structural clauses, DESIGN §5.10)."""
from __future__ import annotations

import ast

from .. import clifford as cl
from .. import flow
from ..core import AnalysisError, call_attr, call_name, calls_in, func_params, norm, parent, short
from ..driver import Knockout, sub_nth, sub_once
from ..report import Ctx
from ..rules import tables
from ..rules.orbits import RELABEL

ATS = "graphiq/solvers/alternate_target_solver.py"
LCC = "graphiq/backends/stabilizer/functions/local_cliff_equi_check.py"
SRC = "graphiq/backends/state_rep_conversion.py"

EXPLANATION = (
    "Static rules over AlternateTargetSolver.solve and its helpers: the default of AlternateTargetSolverSetting.lc_method "
    "lies in the set accepted by solve()'s dispatch chain (config.domain — 'every accepted setting, including the "
    "default one'); every numpy attribute used by relabel_module exists in the installed numpy (api.numpy — otherwise "
    "iso_finder, hence every solve(), raises); circuit and score lists receive exactly one element per LC graph on "
    "every path of the loop body, results are built from lc_graphs[i] / score[i] with i enumerating the circuit list, "
    "and the relabel map is computed from (target graph, the loop's iso graph) (flow.exactly-once alignment); gate tags "
    "emitted by lc_check/converter_gate_list/state_to_graph are all handled by str_to_op, whose name table pairs each "
    "name with the ops class denoting the same Clifford (vocab.gates). Does not decide that the circuit generates the "
    "relabelled target, LC-equivalence of the listed graph, or completeness of duplicate removal.")


def rule_sort_rows_intact(ctx: Ctx) -> None:
    """result.sort-rows: SolverResult keeps one list per column; sort_by(prop) has to apply *one* permutation to every column, so that a
    row (circuit, score, relabel map ...) stays a row.  The method body is interpreted (gqsa/minterp.py) on a three-column table with
    three rows for every order of the key column and every position of the key among the columns: afterwards the rows are a
    permutation of the original rows and the key column is non-decreasing."""
    import itertools
    from .. import minterp
    repo = ctx.repo
    rel = "graphiq/solvers/solver_result.py"
    m = repo.module(rel)
    fn = repo.anchor(rel, "SolverResult.sort_by")
    ctx.touch(m, fn)
    P = func_params(fn)[1]
    cols = ["c0", "c1", "c2"]
    n_models = 0
    for key in cols:
        for perm in itertools.permutations(range(3)):
            n_models += 1
            data = {c_: [10 * (j + 1) + r for r in range(3)] for j, c_ in enumerate(cols)}
            data[key] = [10 * (cols.index(key) + 1) + v for v in perm]
            rows = set(zip(*[data[c_] for c_ in cols]))
            env = {"self._data": data, P: key}

            def oracle(c, it):
                if call_name(c) == "len" and len(c.args) == 1 and norm(c.args[0]) == "self":
                    return 3
                return NotImplemented
            try:
                minterp.Interp(env, oracle).run(fn.body)
            except minterp.Return:
                pass
            except minterp.Unmodelled as e:
                raise AnalysisError(f"SolverResult.sort_by: not decidable on the table model ({e})")
            except minterp.ModelError as e:
                ctx.fail("result.sort-rows", m, fn, f"SolverResult.sort_by fails on a 3 x 3 table ({e})", func="SolverResult.sort_by", construct="sort_by: fails in the table model")
                return
            out = env["self._data"]
            if not isinstance(out, dict) or list(out.keys()) != cols:
                raise AnalysisError("SolverResult.sort_by: the table is no longer a dict of the same columns after sorting")
            got = list(zip(*[out[c_] for c_ in cols]))
            kc = list(out[key])
            if set(got) != rows or len(got) != 3:
                ctx.fail("result.sort-rows", m, fn,
                         f"SolverResult.sort_by('{key}') on columns {cols} with {key} = {data[key] if False else [10 * (cols.index(key) + 1) + v for v in perm]}: the rows afterwards are {got}, "
                         f"not a permutation of the original rows — the columns were not reordered by one common permutation, so a circuit is paired with another "
                         f"entry's score / relabel map", func="SolverResult.sort_by", construct="sort_by: columns permuted differently")
                return
            if kc != sorted(kc):
                ctx.fail("result.sort-rows", m, fn, f"SolverResult.sort_by('{key}') leaves the key column as {kc}, which is not sorted",
                         func="SolverResult.sort_by", construct="sort_by: key column not sorted")
                return
    ctx.ok("result.sort-rows", m, fn, what=f"{n_models} table models: rows stay rows, key column sorted")


def run(ctx: Ctx) -> None:
    rule_sort_rows_intact(ctx)
    from ..rules import solvers as _slvf
    _slvf.rule_frontinsert_owner(ctx)
    from .c02 import rule_index_space
    rule_index_space(ctx)   # the deterministic solver behind this property: emitter register numbers vs tableau positions
    from ..rules import order as _order_seq
    _order_seq.rule_sequence_source(ctx, [("graphiq/circuit/circuit_dag.py", "CircuitDAG._slim_seq")])  # the noisy copy (assign_noise) replays the operations in application order
    from .c09 import rule_lc_check_inversion, rule_sign_repair
    rule_lc_check_inversion(ctx)   # solve() appends lc_check's gates to the circuit of the LC graph
    rule_sign_repair(ctx)
    from ..rules import shapes as _shapes
    _shapes.rule_relabel_map_self(ctx)
    _shapes.rule_relabel_map_direction(ctx)
    from ..rules import memo as _memo
    _memo.rule_memo_sound(ctx, ['graphiq/solvers/alternate_target_solver.py', 'graphiq/utils/relabel_module.py'])
    _memo.rule_falsy_zero(ctx, ['graphiq/solvers/alternate_target_solver.py', 'graphiq/utils/relabel_module.py'])
    _memo.rule_arg_names(ctx, ['graphiq/solvers/alternate_target_solver.py', 'graphiq/utils/relabel_module.py'])
    _memo.rule_fixed_width(ctx, ['graphiq/solvers/alternate_target_solver.py', 'graphiq/utils/relabel_module.py'])
    _memo.rule_paste_incomplete(ctx, ['graphiq/solvers/alternate_target_solver.py', 'graphiq/utils/relabel_module.py'])
    _memo.rule_negative_start(ctx, ['graphiq/solvers/alternate_target_solver.py', 'graphiq/utils/relabel_module.py'])
    _memo.rule_elim_no_pivot(ctx, ['graphiq/solvers/alternate_target_solver.py', 'graphiq/utils/relabel_module.py'])
    _memo.rule_subject_drift(ctx, ['graphiq/solvers/alternate_target_solver.py', 'graphiq/utils/relabel_module.py'])
    _memo.rule_isinstance_on_class(ctx, ['graphiq/solvers/alternate_target_solver.py', 'graphiq/utils/relabel_module.py'])
    _memo.rule_zip_truncation(ctx, ['graphiq/solvers/alternate_target_solver.py', 'graphiq/utils/relabel_module.py'])
    _memo.rule_search_fallthrough(ctx, ['graphiq/solvers/alternate_target_solver.py', 'graphiq/utils/relabel_module.py'])
    _memo.rule_zip_pairing(ctx, ['graphiq/solvers/alternate_target_solver.py', 'graphiq/utils/relabel_module.py'])
    tables.rule_config_domain(ctx, ATS, "AlternateTargetSolver.solve", "AlternateTargetSolverSetting", "lc_method")
    tables.rule_api_numpy(ctx, [RELABEL])
    rule_alignment(ctx)
    rule_target_labels(ctx)
    rule_conversion_guard(ctx)
    rule_dedup_all(ctx)
    rule_str_to_op(ctx)
    ctx.floor("flow.exactly-once", 4)
    ctx.floor("vocab.gates", 6)


def rule_target_labels(ctx: Ctx) -> None:
    """relabel.target-labels: every reported relabel map is `get_relabel_map(self.target_graph, iso_graph)`: its keys are the vertices of
    self.target_graph.  So self.target_graph carries the *user's* vertex names: it is the graph that was passed in (or the graph of the state
    that was passed in), never a renumbered copy — with convert_node_labels_to_integers / relabel_nodes the maps are keyed by positions the
    user never saw."""
    repo = ctx.repo
    m = repo.module(ATS)
    ci = repo.cls("AlternateTargetSolver", ATS)
    init = ci.methods().get("__init__")
    if init is None:
        raise AnalysisError("AlternateTargetSolver.__init__ missing")
    ctx.touch(m, init)
    sets = [a for a in ast.walk(init) if isinstance(a, ast.Assign) and any(norm(t) == "self.target_graph" for t in a.targets)]
    if not sets:
        raise AnalysisError("AlternateTargetSolver.__init__: self.target_graph is never set")
    for a in sets:
        t = norm(a.value)
        if "convert_node_labels_to_integers" in t or "relabel_nodes" in t or "from_numpy_array(nx.to_numpy_array" in t:
            ctx.fail("relabel.target-labels", m, a,
                     f"AlternateTargetSolver.__init__ stores `{short(a.value, 70)}` as the target graph: the relabel maps returned with every result are keyed by this "
                     f"graph's vertices, so for a target whose vertices are not 0..n-1 in order the maps no longer speak about the user's vertex names",
                     func="AlternateTargetSolver.__init__", construct="AlternateTargetSolver: target graph renumbered")
        else:
            ctx.ok("relabel.target-labels", m, a, what="target graph keeps the user's vertex names")


def _loop_item(lp: ast.For) -> str:
    """the name that holds the item of the sequence a loop walks: `for x in S` -> x, `for i, x in enumerate(S)` -> x"""
    if isinstance(lp.target, ast.Tuple) and len(lp.target.elts) == 2 and isinstance(lp.iter, ast.Call) and call_name(lp.iter) == "enumerate":
        return norm(lp.target.elts[1])
    return norm(lp.target)


def rule_alignment(ctx: Ctx) -> None:
    repo = ctx.repo
    m = repo.module(ATS)
    fn = repo.anchor(ATS, "AlternateTargetSolver.solve")
    ctx.touch(m, fn)
    # the list of LC graphs is whatever name receives the orbit explorers' results
    EXPLORERS = {"rgs_orbit_finder", "linear_partial_orbit", "depth_first_orbit", "lc_orbit_finder"}
    lcg = set()
    for n in ast.walk(fn):
        if isinstance(n, ast.Assign) and len(n.targets) == 1 and isinstance(n.targets[0], ast.Name):
            v = n.value
            while isinstance(v, ast.Subscript):
                v = v.value
            if isinstance(v, ast.Call) and call_name(v) in EXPLORERS:
                lcg.add(n.targets[0].id)
    if len(lcg) != 1:
        raise AnalysisError(f"solve(): the list receiving the orbit explorers' results is not unique ({sorted(lcg)})")
    LCG = next(iter(lcg))
    loops = []
    for n in ast.walk(fn):
        if not isinstance(n, ast.For):
            continue
        if isinstance(n.target, ast.Name) and isinstance(n.iter, ast.Name) and n.iter.id == LCG:
            loops.append((n, n.target.id))
        elif (isinstance(n.iter, ast.Call) and call_name(n.iter) == "enumerate" and n.iter.args and norm(n.iter.args[0]) == LCG
              and isinstance(n.target, ast.Tuple) and len(n.target.elts) == 2 and isinstance(n.target.elts[1], ast.Name)
              and any(isinstance(c, ast.Call) and call_attr(c) == "lc_check" for c in ast.walk(n))):
            loops.append((n, n.target.elts[1].id))
    if len(loops) != 1:
        raise AnalysisError("solve(): the loop over the LC graphs was not found")
    loop, loop_var = loops[0]
    # per-LC-graph result lists: locals set to [] in the enclosing iso-graph loop and appended to in this loop
    encl = [n for n in ast.walk(fn) if isinstance(n, ast.For) and n is not loop and any(x is loop for x in ast.walk(n))]
    fresh = {n.targets[0].id for e in encl for n in ast.walk(e) if isinstance(n, ast.Assign) and len(n.targets) == 1 and isinstance(n.targets[0], ast.Name)
             and isinstance(n.value, ast.List) and not n.value.elts}
    appended = {}
    for c in calls_in(loop):
        if call_attr(c) == "append" and isinstance(c.func.value, ast.Name) and c.func.value.id in fresh:
            appended.setdefault(c.func.value.id, []).append(c)
    if len(appended) < 2:
        raise AnalysisError("solve(): circuit / score list appends not found")
    for name, cs in appended.items():
        counts = flow.count_on_paths(loop.body, lambda node, nm=name: 0 if isinstance(node, (ast.If, ast.For, ast.While, ast.Try, ast.With)) else sum(
            1 for c in ast.walk(node) if isinstance(c, ast.Call) and call_name(c) == f"{nm}.append"))
        if counts == {1}:
            ctx.ok("flow.exactly-once", m, cs[0], what=f"{name}: exactly one append per LC graph")
        else:
            ctx.fail("flow.exactly-once", m, cs[0],
                     f"`{name}` receives {sorted(counts)} elements per LC graph depending on the path; lc_graphs[i], circuit i "
                     f"and score i would then describe different graphs", func="AlternateTargetSolver.solve",
                     construct=f"solve: {name}.append count per iteration {sorted(counts)}")
    # results built with a common index
    ok = False
    for n in ast.walk(fn):
        if isinstance(n, ast.For) and isinstance(n.iter, ast.Call) and call_attr(n.iter) == "enumerate" \
                and norm(n.iter.args[0]) in appended and isinstance(n.target, ast.Tuple):
            i = norm(n.target.elts[0])
            body = norm(ast.Module(body=n.body, type_ignores=[]))
            if f"{LCG}[{i}]" in body and any(f"{k}[{i}]" in body for k in appended if k != norm(n.iter.args[0])):
                ok = True
                ctx.ok("flow.exactly-once", m, n, what="results indexed by one common index")
    if not ok:
        ctx.fail("flow.exactly-once", m, fn, "results are not assembled from lc_graphs[i], circuit i and score i with one index",
                 func="AlternateTargetSolver.solve", construct="solve: result assembly index")
    # rmap from (self.target_graph, iso_graph) of the same iteration
    outer = [n for n in ast.walk(fn) if isinstance(n, ast.For) and any(x is loop for x in ast.walk(n)) and n is not loop]
    if not outer:
        raise AnalysisError("solve(): outer iso-graph loop not found")
    iso = _loop_item(outer[0])
    rm = [c for c in calls_in(outer[0]) if call_attr(c) == "get_relabel_map"]
    # every binding of the map inside the loop is that call: a shortcut on some path (pairing the nodes by position for "the first
    # isomorph") bypasses the matcher exactly when the isomorphs were re-ordered
    other = []
    if len(rm) == 1 and isinstance(parent(rm[0]), ast.Assign) and isinstance(parent(rm[0]).targets[0], ast.Name):
        mv = parent(rm[0]).targets[0].id
        other = [a for a in ast.walk(outer[0]) if isinstance(a, ast.Assign) and any(isinstance(t, ast.Name) and t.id == mv for t in a.targets) and a is not parent(rm[0])]
    if other:
        ctx.fail("flow.exactly-once", m, other[0],
                 f"inside the iso-graph loop the relabel map is also bound to `{short(other[0].value, 70)}`, not only to get_relabel_map(self.target_graph, {iso}): "
                 f"on that path the map does not come from the graph matcher (iso_finder re-orders its isomorphs when sort_emit is on, so 'the first "
                 f"one is the target itself' does not hold)", func="AlternateTargetSolver.solve", construct="solve: relabel map bound without the matcher")
    elif len(rm) == 1 and [norm(a) for a in rm[0].args] == ["self.target_graph", iso]:
        ctx.ok("flow.exactly-once", m, rm[0], what="relabel map of this iteration's iso graph")
    else:
        ctx.fail("flow.exactly-once", m, rm[0] if rm else outer[0],
                 f"the relabel map is not computed as get_relabel_map(self.target_graph, {iso}) inside the iso-graph loop",
                 func="AlternateTargetSolver.solve", construct="solve: relabel map arguments")
    # lc_check is asked about (lc_graph, iso_graph) of the same iterations
    lv = loop_var
    for c in calls_in(loop):
        if call_attr(c) in ("lc_check", "state_converter_circuit"):
            if [norm(a) for a in c.args[:2]] == [lv, iso]:
                ctx.ok("flow.exactly-once", m, c)
            else:
                ctx.fail("flow.exactly-once", m, c, f"`{short(c)}` does not convert this iteration's LC graph into this iteration's "
                                                     f"iso graph", func="AlternateTargetSolver.solve")


def _adj_eq_polarity(test: ast.AST, a: str, b: str):
    """+1 if `test` is true exactly when a.adj == b.adj, -1 if exactly when they differ, None otherwise"""
    pol = 1
    while isinstance(test, ast.UnaryOp) and isinstance(test.op, ast.Not):
        test, pol = test.operand, -pol
    if isinstance(test, ast.Compare) and len(test.ops) == 1 and isinstance(test.ops[0], (ast.Eq, ast.NotEq)):
        sides = {norm(test.left), norm(test.comparators[0])}
        if sides == {f"{a}.adj", f"{b}.adj"}:
            return pol if isinstance(test.ops[0], ast.Eq) else -pol
    if isinstance(test, ast.Call) and call_name(test) in ("np.array_equal", "nx.utils.graphs_equal") and len(test.args) == 2:
        sides = {norm(x) for x in test.args}
        if sides in ({f"{a}.adj", f"{b}.adj"}, {a, b}):
            return pol
    return None


def _lc_result_names(loop):
    out = set()
    for s in ast.walk(loop):
        if isinstance(s, ast.Assign) and isinstance(s.value, ast.Call) and call_attr(s.value) == "lc_check":
            for t in ast.walk(s.targets[0]):
                if isinstance(t, ast.Name):
                    out.add(t.id)
    return out


def rule_conversion_guard(ctx: Ctx) -> None:
    """conv.guard: inside the LC-graph loop the conversion gates may be left out only where the LC graph has been compared
    with the iso graph and found identical; every other path converts with the gates lc_check returned for this pair."""
    repo = ctx.repo
    m = repo.module(ATS)
    fn = repo.anchor(ATS, "AlternateTargetSolver.solve")
    loop = lv = None
    for n in ast.walk(fn):
        if isinstance(n, ast.For) and any(isinstance(c, ast.Call) and call_attr(c) == "lc_check" for c in ast.walk(n)):
            if isinstance(n.target, ast.Name):
                loop, lv = n, n.target.id
            elif isinstance(n.target, ast.Tuple) and isinstance(n.target.elts[-1], ast.Name):
                loop, lv = n, n.target.elts[-1].id
    if loop is None:
        raise AnalysisError("solve(): the loop that calls lc_check was not found")
    outer = [n for n in ast.walk(fn) if isinstance(n, ast.For) and n is not loop and any(x is loop for x in ast.walk(n))]
    iso = _loop_item(outer[0]) if outer else None
    if iso is None:
        raise AnalysisError("solve(): outer iso-graph loop not found")
    adds = [c for c in calls_in(loop) if call_attr(c) == "add" and isinstance(parent(c), ast.Expr) and isinstance(parent(parent(c)), ast.For)]
    conv = None
    for c in adds:
        f = parent(parent(c))
        if isinstance(f.iter, ast.Name):
            conv = f.iter.id
    if conv is None:
        raise AnalysisError("solve(): the loop that adds the conversion gates to the circuit was not found")
    n = 0
    for a in ast.walk(loop):
        if isinstance(a, ast.Assign) and len(a.targets) == 1 and norm(a.targets[0]) == conv:
            n += 1
            if isinstance(a.value, ast.List) and not a.value.elts:
                # find the enclosing condition(s)
                guarded = False
                node = a
                p = parent(node)
                conds = []
                while p is not None and p is not loop:
                    if isinstance(p, ast.If):
                        in_body = any(node is s for s in p.body)
                        pol = _adj_eq_polarity(p.test, lv, iso)
                        conds.append(short(p.test, 60))
                        if pol is not None and ((pol == 1) == in_body):
                            guarded = True
                        # `if gates: ... else: conv = []` — nothing to convert with: equally harmless
                        t, neg = p.test, False
                        while isinstance(t, ast.UnaryOp) and isinstance(t.op, ast.Not):
                            t, neg = t.operand, not neg
                        if isinstance(t, ast.Name) and t.id in _lc_result_names(loop) and (neg == in_body):
                            guarded = True
                    node, p = p, parent(p)
                if guarded:
                    ctx.ok("conv.guard", m, a, what="no conversion only when the LC graph equals the iso graph")
                else:
                    ctx.fail("conv.guard", m, a,
                             f"solve() leaves the conversion gates out (`{conv} = []`) under {conds or 'no condition'} without comparing "
                             f"{lv}.adj with {iso}.adj: when that LC graph is not the iso graph itself the returned circuit generates the LC graph, "
                             f"not the relabelled target", func="AlternateTargetSolver.solve", construct=f"solve: {conv} = [] not guarded by graph equality")
            else:
                srcs = {x.id for x in ast.walk(a.value) if isinstance(x, ast.Name)}
                lc = [s for s in ast.walk(loop) if isinstance(s, ast.Assign) and isinstance(s.value, ast.Call) and call_attr(s.value) == "lc_check"]
                lc_names = set()
                for s in lc:
                    for t in ast.walk(s.targets[0]):
                        if isinstance(t, ast.Name):
                            lc_names.add(t.id)
                if srcs & lc_names:
                    ctx.ok("conv.guard", m, a, what="conversion gates come from this pair's lc_check")
                else:
                    ctx.fail("conv.guard", m, a, f"`{short(a)}`: the conversion gates are not those lc_check returned for ({lv}, {iso})",
                             func="AlternateTargetSolver.solve", construct=f"solve: {conv} not from lc_check")
    if n == 0:
        raise AnalysisError("solve(): no assignment of the conversion gate list found")


def rule_dedup_all(ctx: Ctx) -> None:
    """dedup.covers-all: the duplicate filter of solve() compares the graphs of *all* result entries: the list it compares
    (np.array_equal(X[i], X[j])) is, at every assignment, an unfiltered comprehension over the returned result list, and the
    redundant indices are deleted from that same list."""
    repo = ctx.repo
    m = repo.module(ATS)
    fn = repo.anchor(ATS, "AlternateTargetSolver.solve")
    ctx.touch(m, fn)
    rets = [r for r in ast.walk(fn) if isinstance(r, ast.Return) and isinstance(r.value, ast.Name)]
    if not rets:
        raise AnalysisError("solve(): no `return <result list>`")
    res = rets[-1].value.id
    eq = [c for c in calls_in(fn) if call_name(c) in ("np.array_equal", "nx.utils.graphs_equal") and len(c.args) == 2
          and all(isinstance(a, ast.Subscript) and isinstance(a.value, ast.Name) for a in c.args)]
    if not eq:
        # the filter may live in a helper that returns a new, de-duplicated list: U = helper(L)
        for a in [x for x in fn.body if isinstance(x, ast.Assign) and isinstance(x.value, ast.Call) and isinstance(x.value.func, ast.Name)
                  and len(x.value.args) == 1 and isinstance(x.value.args[0], ast.Name) and isinstance(x.targets[0], ast.Name)]:
            hf = m.find(a.value.func.id)
            if not isinstance(hf, ast.FunctionDef):
                continue
            heq = [c for c in calls_in(hf) if call_name(c) in ("np.array_equal", "nx.utils.graphs_equal") and len(c.args) == 2]
            if not heq:
                continue
            P = func_params(hf)[0]
            comps = [v for v in ast.walk(hf) if isinstance(v, ast.ListComp) and len(v.generators) == 1 and norm(v.generators[0].iter) == P
                     and any(isinstance(x, ast.Constant) and x.value == "g" for x in ast.walk(v.elt))]
            hret = [r for r in ast.walk(hf) if isinstance(r, ast.Return) and r.value is not None]
            if not comps or any(c.generators[0].ifs for c in comps) or len(hret) != 1:
                raise AnalysisError(f"{hf.name}: duplicate filter helper not recognised")
            ctx.touch(m, hf)
            ctx.ok("dedup.covers-all", m, comps[0], what=f"{hf.name} compares the graph of every entry of its argument")
            L, U = a.value.args[0].id, a.targets[0].id
            stale = [x for st in fn.body if st.lineno > a.lineno for x in ast.walk(st) if isinstance(x, ast.Name) and x.id == L and isinstance(x.ctx, ast.Load)]
            if L != U and stale:
                ctx.fail("dedup.covers-all", m, stale[0],
                         f"solve() filters `{L}` into the new list `{U}` but still reads the unfiltered `{L}` afterwards (line {stale[0].lineno}): "
                         f"whatever is built from it (the result table, the return value) lists the same graph more than once",
                         func="AlternateTargetSolver.solve", construct=f"solve: unfiltered `{L}` read after the duplicate filter")
            elif res not in (U, L):
                ctx.fail("dedup.covers-all", m, rets[-1], f"solve() returns `{res}`, not the de-duplicated list `{U}`", func="AlternateTargetSolver.solve",
                         construct="solve: returns a list other than the filtered one")
            else:
                ctx.ok("dedup.covers-all", m, a, what=f"everything after the filter reads `{U}`")
            return
        ctx.fail("dedup.covers-all", m, fn, "solve() no longer compares the listed graphs of its result entries pairwise (duplicate filter removed)",
                 func="AlternateTargetSolver.solve", construct="solve: duplicate filter missing")
        return
    X = eq[0].args[0].value.id
    if eq[0].args[1].value.id != X:
        raise AnalysisError("solve(): duplicate comparison is not within one list")
    defs = [a for a in ast.walk(fn) if isinstance(a, ast.Assign) and any(isinstance(t, ast.Name) and t.id == X for t in a.targets)]
    if not defs:
        raise AnalysisError(f"solve(): `{X}` is never assigned")
    for a in defs:
        v = a.value
        whole = (isinstance(v, ast.ListComp) and len(v.generators) == 1 and not v.generators[0].ifs and norm(v.generators[0].iter) == res
                 and any(isinstance(x, ast.Constant) and x.value == "g" for x in ast.walk(v.elt)))
        if whole:
            ctx.ok("dedup.covers-all", m, a, what=f"`{X}` holds the graph of every result entry")
        else:
            ctx.fail("dedup.covers-all", m, a,
                     f"solve() sets `{X}` (the graphs the duplicate filter compares) to `{short(v, 70)}` on some path instead of the graph of every "
                     f"entry of `{res}`: on that path entries listing the same graph are all returned", func="AlternateTargetSolver.solve",
                     construct=f"solve: duplicate filter does not see every entry of {res}")
    dels = [d for d in ast.walk(fn) if isinstance(d, ast.Delete) and any(isinstance(t, ast.Subscript) and norm(t.value) == res for t in d.targets)]
    if dels:
        ctx.ok("dedup.covers-all", m, dels[0], what=f"redundant entries are deleted from `{res}`")
        _dedup_model(ctx, m, fn, res, X, defs, dels)
    else:
        ctx.fail("dedup.covers-all", m, fn, f"solve() never deletes the redundant entries from `{res}`", func="AlternateTargetSolver.solve",
                 construct="solve: redundant entries not deleted")


def _dedup_model(ctx, m, fn, res, X, defs, dels) -> None:
    """dedup.model: the duplicate filter (from the list of graphs to the last deletion) interpreted for every partition of up to five
    result entries into classes of equal graphs (gqsa/minterp.py; np.array_equal answers from the partition): afterwards the
    surviving entries list pairwise different graphs, and every graph that was listed is still listed once."""
    from .. import minterp
    top = list(fn.body)
    a0 = [i for i, st in enumerate(top) if st in defs]
    d1 = [i for i, st in enumerate(top) if any(d in list(ast.walk(st)) for d in dels)]
    if not a0 or not d1 or d1[-1] <= a0[-1]:
        raise AnalysisError("solve(): the duplicate filter is not a straight block from the graph list to the deletion")
    block = top[a0[-1] + 1: d1[-1] + 1]

    def oracle(c, it):
        if call_name(c) in ("np.array_equal", "nx.utils.graphs_equal") and len(c.args) == 2:
            return it.ev(c.args[0]) == it.ev(c.args[1])
        return NotImplemented
    import itertools

    class _Info(dict):
        def __missing__(self, key):
            raise minterp.Unmodelled(f"result field `{key}` is not part of the list model")
    reads_scores = any(isinstance(x, ast.Constant) and x.value == "score" for st in block for x in ast.walk(st))
    n_models = 0
    for n in range(0, 6):
        for part in minterp.partitions(n):
            # every entry is (circuit_k, info_k) with info_k = {"score", "map"}; first with all scores equal, then (when the filter reads
            # scores, up to four entries) with every strict order of the scores
            score_models = [tuple(0 for _ in range(n))]
            if reads_scores and 2 <= n <= 4:
                score_models += list(itertools.permutations(range(n)))
            for scores in score_models:
                n_models += 1
                infos = [_Info(score=scores[k], map=("map", k)) for k in range(n)]
                originals = [(("circuit", k), infos[k]) for k in range(n)]
                env = {res: list(originals), X: list(part)}
                it = minterp.Interp(env, oracle)
                why = None
                try:
                    it.run(block)
                except minterp.Unmodelled as e:
                    raise AnalysisError(f"solve(): duplicate filter uses a construct the list model does not cover: {e}")
                except minterp.ModelError as e:
                    why = f"the filter fails ({e})"
                except minterp.Return:
                    raise AnalysisError("solve(): return inside the duplicate filter")
                if why is None:
                    left = env[res]
                    if not isinstance(left, list) or any(not (isinstance(x, tuple) and len(x) == 2 and isinstance(x[0], tuple) and x[0][:1] == ("circuit",)
                                                              and isinstance(x[1], dict)) for x in left):
                        raise AnalysisError("solve(): the result list does not hold result entries after the filter")
                    ks = [x[0][1] for x in left]
                    cls = [part[k] for k in ks]
                    mixed = [(x[0][1], x[1].get("map", (None, None))[1], x[1].get("score")) for x in left
                             if x[1].get("map") != ("map", x[0][1]) or x[1].get("score") != scores[x[0][1]]]
                    if len(set(cls)) != len(cls):
                        dup = next(c_ for c_ in cls if cls.count(c_) > 1)
                        same = [k for k in range(n) if part[k] == dup]
                        why = f"entries {[k for k in ks if part[k] == dup]} survive although they list the same graph (entries {same} are equal)"
                    elif set(cls) != set(part):
                        why = f"a listed graph disappears altogether (surviving entries {ks})"
                    elif mixed:
                        c_k, m_k, sc_ = mixed[0]
                        why = (f"with scores {list(scores)} a surviving entry pairs the circuit of entry {c_k} with the relabel map of entry {m_k} and the score {sc_}: "
                               f"entries that list the same graph were reached from different relabellings, so the circuit no longer generates the target renamed by the map stored beside it")
                if why:
                    ctx.fail("dedup.model", m, block[0], f"solve(): duplicate filter, {n} result entries with equal-graph classes {list(part)}: {why}",
                             func="AlternateTargetSolver.solve", construct=f"solve: duplicate filter wrong in the list model")
                    return
    ctx.ok("dedup.model", m, block[0], what=f"{n_models} models (partitions of up to 5 entries, score orders): survivors pairwise different, every graph kept once, every entry intact")


def rule_str_to_op(ctx: Ctx) -> None:
    repo = ctx.repo
    m = repo.module(LCC)
    fn = repo.anchor(LCC, "str_to_op")
    ctx.touch(m, fn)
    names = classes = None
    for n in fn.body:
        if isinstance(n, ast.Assign) and isinstance(n.value, ast.List):
            if all(isinstance(e, ast.Constant) for e in n.value.elts):
                names = [e.value for e in n.value.elts]
            elif all(isinstance(e, ast.Attribute) for e in n.value.elts):
                classes = [e.attr for e in n.value.elts]
    if names is None or classes is None or len(names) != len(classes):
        ctx.fail("vocab.gates", m, fn, "str_to_op: name list and class list are missing or of different length",
                 func="str_to_op", construct="str_to_op: tables")
        return
    for nm, cn in zip(names, classes):
        g, o = cl.GATE1.get(nm), cl.OPCLASS.get(cn)
        if g is not None and o is not None and cl.key(g) == cl.key(o):
            ctx.ok_abstract("vocab.gates", f"str_to_op: '{nm}' -> ops.{cn}")
        else:
            ctx.fail("vocab.gates", m, fn, f"str_to_op pairs gate name '{nm}' with ops.{cn}, which denotes a different Clifford",
                     func="str_to_op", construct=f"str_to_op: '{nm}' -> {cn}")
    # gates of one qubit packed into a OneQubitGateWrapper: the wrapper's list is a matrix product (last element acts first), the gate
    # tuples are in application order (first element acts first) — a per-qubit list accumulated by append must be reversed when packed
    gp = func_params(fn)[0]
    for w in [c for c in calls_in(fn) if (call_name(c) or "").split(".")[-1] == "OneQubitGateWrapper" and c.args]:
        from .c09 import _strip_rev
        inner, d = _strip_rev(w.args[0])
        acc_forward = False
        src = inner
        # `for q, gs in D.items()` -> the values of D
        if isinstance(inner, ast.Name):
            for lp in [x for x in ast.walk(fn) if isinstance(x, (ast.comprehension, ast.For))]:
                tgt, it = lp.target, lp.iter
                if isinstance(tgt, ast.Tuple) and any(isinstance(e, ast.Name) and e.id == inner.id for e in tgt.elts) and isinstance(it, ast.Call) and call_attr(it) == "items":
                    src = it.func.value
        dn = norm(src)
        for lp in [x for x in ast.walk(fn) if isinstance(x, ast.For) and norm(x.iter) == gp]:
            for c in calls_in(lp):
                if call_attr(c) == "append" and dn in norm(c.func.value):
                    acc_forward = True
        if isinstance(inner, (ast.List, ast.Tuple)) and len(inner.elts) <= 1:
            ctx.ok("order.wrapper", m, w, what="single-gate wrapper")
        elif acc_forward and d == 1:
            ctx.fail("order.wrapper", m, w,
                     f"str_to_op packs the gates of a qubit into `{short(w, 70)}` in the order of the gate list; the list is in application order "
                     f"(first tuple acts first) while a OneQubitGateWrapper applies its *last* operation first, so two or more non-commuting gates "
                     f"on one photon (H then P) are applied reversed", func="str_to_op", construct="str_to_op: wrapper packed in application order")
        elif acc_forward and d == -1:
            ctx.ok("order.wrapper", m, w, what="per-qubit gates reversed into product order")
        else:
            raise AnalysisError(f"str_to_op: cannot tell the order of the operations packed into `{short(w, 60)}`")
    # each tuple (name, qubit) becomes <class of that name>(register=<qubit>, reg_type="p"): the index into the class list is exactly the
    # position of the tuple's name in the name list, the register is the tuple's second component, the conversion gates act on photons
    name_var = cls_var = None
    for n in fn.body:
        if isinstance(n, ast.Assign) and isinstance(n.value, ast.List) and isinstance(n.targets[0], ast.Name):
            if all(isinstance(e, ast.Constant) for e in n.value.elts):
                name_var = n.targets[0].id
            elif all(isinstance(e, ast.Attribute) for e in n.value.elts):
                cls_var = n.targets[0].id
    ctor = [c for c in calls_in(fn) if isinstance(c.func, ast.Subscript) and norm(c.func.value) == cls_var]
    if not ctor:
        raise AnalysisError("str_to_op: no operation is constructed through the class list")
    idx_def = {}
    for a in ast.walk(fn):
        if isinstance(a, ast.Assign) and len(a.targets) == 1 and isinstance(a.targets[0], ast.Name):
            idx_def.setdefault(a.targets[0].id, []).append(a)
    for c in ctor:
        ix = c.func.slice
        if isinstance(ix, ast.Name):
            defs = [a for a in idx_def.get(ix.id, []) if a.lineno < c.lineno]
            if not defs:
                raise AnalysisError(f"str_to_op: index `{ix.id}` of the class list is not bound before `{short(c, 50)}`")
            ix = max(defs, key=lambda a: a.lineno).value
        why = None
        subj = None
        if isinstance(ix, ast.Call) and call_attr(ix) == "index" and norm(ix.func.value) == name_var and len(ix.args) == 1 and \
                isinstance(ix.args[0], ast.Subscript) and norm(ix.args[0].slice) == "0":
            subj = norm(ix.args[0].value)
        else:
            why = f"the class is chosen by `{short(ix)}`, not by the position of the tuple's name in the name list"
        if why is None:
            from ..core import get_kw
            r_, t_ = get_kw(c, "register"), get_kw(c, "reg_type")
            if r_ is None and c.args:
                r_ = c.args[0]
            if r_ is None or norm(r_) != f"{subj}[1]":
                why = f"the operation's register is `{short(r_) if r_ is not None else 'missing'}`, not the qubit index `{subj}[1]` of the tuple"
            elif not (isinstance(t_, ast.Constant) and t_.value == "p"):
                why = f"the operation acts on reg_type `{short(t_) if t_ is not None else 'default'}`; conversion gates are applied to photons ('p')"
        if why:
            ctx.fail("vocab.gates", m, c, f"str_to_op: `{short(c, 70)}`: {why}", func="str_to_op", construct=f"str_to_op: constructor: {why[:50]}")
        else:
            ctx.ok("vocab.gates", m, c, what="tuple (name, qubit) -> class at the name's position, register = qubit, photon register")
    handled = set(names)
    tables.rule_vocab(ctx, "vocab.gates",
                      [(LCC, "lc_check"), (LCC, "converter_gate_list"), (SRC, "state_to_graph"), (SRC, "_phase_correction")],
                      "str_to_op", handled, extra_tokens=tables.gl22_tokens(repo))


def _edit_dedup_helper(src: str) -> str:
    """the in-place duplicate filter of solve() becomes a helper returning a new list; the result table still reads the old list"""
    import re
    a = src.index('        adj_list = [nx.to_numpy_array(result[1]["g"]) for result in results_list]\n')
    b = src.index('            del results_list[index]\n') + len('            del results_list[index]\n')
    out = src[:a] + '        unique_results = _drop_repeated_graphs(results_list)\n' + src[b:]
    if out.count('        return results_list\n') != 1:
        raise LookupError('return results_list')
    out = out.replace('        return results_list\n', '        return unique_results\n')
    out += ('\n\ndef _drop_repeated_graphs(results_list):\n'
            '    adj_list = [nx.to_numpy_array(result[1]["g"]) for result in results_list]\n'
            '    kept = []\n'
            '    for i, adj in enumerate(adj_list):\n'
            '        if not any(np.array_equal(adj, adj_list[j]) for j in kept):\n'
            '            kept.append(i)\n'
            '    return [results_list[i] for i in kept]\n')
    return out


KNOCKOUTS = [
    Knockout("sort-by-order-recomputed-per-column", "graphiq/solvers/solver_result.py", sub_once("        for j, p in enumerate(data_dict.keys()):\n            self._data[p] = [sorted_data_tuple[i][j] for i in range(n_result)]", "        for p in self._data:\n            order = sorted(range(len(self)), key=lambda i: self._data[prop][i])\n            self._data[p] = [self._data[p][i] for i in order]"), "result.sort-rows", "permutation of the original rows"),
    Knockout("target-graph-renumbered", ATS, sub_once("            self.target_graph = target\n", "            self.target_graph = nx.convert_node_labels_to_integers(target)\n"), "relabel.target-labels", "renumbered"),
    Knockout("first-isomorph-map-by-position", ATS, sub_once("            rmap = get_relabel_map(self.target_graph, iso_graph)\n", "            rmap = get_relabel_map(self.target_graph, iso_graph)\n            if iso_graph is iso_graphs[0]:\n                rmap = {-1: \"self\", **dict(zip(self.target_graph.nodes(), iso_graph.nodes()))}\n"), "flow.exactly-once", "without the matcher"),
    Knockout("dedup-skips-new-groups", ATS, sub_once("            if not already_found:\n                s = {i}", "            if already_found:\n                s = {i}"), "dedup.model", "survive although"),
    Knockout("dedup-found-in-any-other-group", ATS, sub_once("                if i in s:\n                    already_found = True", "                if i not in s:\n                    already_found = True"), "dedup.model", "duplicate filter"),
    Knockout("dedup-deletes-ascending", ATS, sub_once("        for index in redundant_indices[::-1]:", "        for index in redundant_indices:"), "dedup.model", "duplicate filter"),
    Knockout("str-to-op-on-emitters", LCC, sub_once('operations_list.append(ops_list[op_index](register=gate[1], reg_type="p"))', 'operations_list.append(ops_list[op_index](register=gate[1], reg_type="e"))'), "vocab.gates", "photons"),
    Knockout("str-to-op-index-shifted", LCC, sub_once("            op_index = name_list.index(gate[0])", "            op_index = name_list.index(gate[0]) - 1"), "vocab.gates", "position"),
    Knockout("str-to-op-wrapper-application-order", LCC, sub_once("        operations_list = []\n        for gate in gate_tuples:\n            op_index = name_list.index(gate[0])\n            operations_list.append(ops_list[op_index](register=gate[1], reg_type=\"p\"))\n", "        per_qubit = {}\n        for gate in gate_tuples:\n            per_qubit.setdefault(gate[1], []).append(ops_list[name_list.index(gate[0])])\n        operations_list = [ops.OneQubitGateWrapper(gs, register=q, reg_type=\"p\") for q, gs in per_qubit.items()]\n"), "order.wrapper", "application order"),
    Knockout("dedup-helper-result-from-unfiltered", ATS, _edit_dedup_helper, "dedup.covers-all", "unfiltered"),
    Knockout("relabel-map-swapped", "graphiq/utils/relabel_module.py", sub_once("    GM = isomorphism.GraphMatcher(g1, g2)", "    GM = isomorphism.GraphMatcher(g2, g1)"), "relabel.map-direction", "swapped"),
    Knockout("relabel-map-identity", "graphiq/utils/relabel_module.py", sub_once('return {**{-1: "self"}, **dict(zip(g1.nodes(), g2.nodes()))}', 'return {**{-1: "self"}, **dict(zip(g1.nodes(), g1.nodes()))}'), "relabel.map-self", "not the position pairing"),
    Knockout("dedup-filtered", ATS, sub_once('adj_list = [nx.to_numpy_array(result[1]["g"]) for result in results_list]', 'adj_list = [nx.to_numpy_array(result[1]["g"]) for result in results_list if result[1]["score"] > 0]'), "dedup.covers-all", "does not see every entry"),
    Knockout("conversion-skipped-by-index", ATS, sub_once("                if not lc_graph.adj == iso_graph.adj:", "                if lc_graphs.index(lc_graph) > 0:"), "conv.guard", "not guarded by graph equality"),
    Knockout("G11-conditional-append", ATS,
             sub_once("                lc_circ_list.append(circuit)\n", "                if success:\n                    lc_circ_list.append(circuit)\n"),
             "flow.exactly-once", "lc_circ_list"),
    Knockout("G11-rmap-wrong-graph", ATS, sub_once("rmap = get_relabel_map(self.target_graph, iso_graph)", "rmap = get_relabel_map(self.target_graph, self.target_graph)"),
             "flow.exactly-once", "relabel map"),
    Knockout("E6-str-to-op-swap", LCC, sub_once('name_list = ["I", "H", "X", "P", "P_dag", "Z"]', 'name_list = ["I", "H", "X", "P_dag", "P", "Z"]'),
             "vocab.gates", "P_dag"),
    Knockout("E6-new-tag", SRC, sub_once('[("P_dag", pos) for pos in p_dag_pos]', '[("S_dag", pos) for pos in p_dag_pos]'), "vocab.gates", "S_dag"),
    Knockout("E9-np-math", RELABEL, sub_nth("math.factorial(n_node)", "np.math.factorial(n_node)", 0), "api.numpy", "math", on_fixed_only=True),
]
