"""C18 — circuit cost metrics equal the quantities they are defined as (structural clauses, DESIGN §5.18)."""
from __future__ import annotations

import ast
from typing import Dict, FrozenSet, List, Optional, Set

from .. import flow
from ..core import (AnalysisError, ClassInfo, Repo, call_attr, call_name, calls_in, dotted, func_params, norm, parent,
                    qualname, short)
from ..driver import Knockout, sub_nth, sub_once
from ..report import Ctx
from ..rules import hooks, shapes

METRICS = "graphiq/metrics.py"
DAG = "graphiq/circuit/circuit_dag.py"
OPS = "graphiq/circuit/ops.py"

EXPLANATION = (
    "Static rules over the metric classes of graphiq/metrics.py: every attribute read by evaluate() is definitely assigned "
    "on every path of the constructor chain (flow.definite-attr, covers the default-argument path); literal label lists "
    "that drive counting are duplicate-free, consist of unitary gate classes and cover every unitary class accepted by "
    "both compilers (table.labels); every label literal used in a node_dict query is a class name of ops.py or a string "
    "some operation adds through add_labels/parse_q_reg_types (label.exists); label lookups cannot raise KeyError "
    "(guarded-lookup: the query helper is total or every call site guards every label); circuit mutators inside a "
    "metric act on a copy. Does not decide that depth/_max_depth/reg_gate_history compute the graph quantities.")


def metric_classes(repo: Repo) -> List[ClassInfo]:
    base = repo.cls("MetricBase", METRICS)
    return [c for c in repo.subclasses(base, strict=True) if c.module.rel == METRICS]


# ---------------------------------------------------------------------------------------------- definite-attr


def _definitely_assigned(repo: Repo, ci: ClassInfo, seen=None) -> Set[str]:
    """Attributes of self definitely assigned when <ci>.__init__ returns normally."""
    r = repo.lookup_method(ci, "__init__")
    if r is None:
        return set()
    owner, init = r

    def step(node, s: FrozenSet[str]) -> FrozenSet[str]:
        if isinstance(node, (ast.If, ast.For, ast.While, ast.With, ast.Try)):
            return s
        add = set()
        for n in ast.walk(node):
            if isinstance(n, ast.Attribute) and isinstance(n.ctx, ast.Store) and isinstance(n.value, ast.Name) and n.value.id == "self":
                add.add(n.attr)
            if isinstance(n, ast.Call) and norm(n.func) == "super().__init__":
                for b in owner.bases:
                    add |= _definitely_assigned(repo, b)
        return frozenset(s | add)

    o = flow.run(init.body, step, {frozenset()})
    ends = list(o.fall | o.ret)
    if not ends:
        return set()
    out = set(ends[0])
    for e in ends[1:]:
        out &= set(e)
    return out


# one named exception, with its reason (not a cost metric of the property; the unassigned path needs a wrong-typed argument)
DEFINITE_ATTR_EXCEPTIONS = {
    ("Metrics", "weighting_func"): "unassigned only when metric_weight is neither None, list, ndarray nor callable "
                                   "(an unsupported argument type); the wrapper is not one of the property's cost metrics",
}


def rule_definite_attr(ctx: Ctx) -> None:
    repo = ctx.repo
    m = repo.module(METRICS)
    for ci in metric_classes(repo):
        ev = ci.methods().get("evaluate")
        if ev is None:
            continue
        ctx.touch(m, ev)
        assigned = _definitely_assigned(repo, ci)
        provided = set()
        for k in repo.mro(ci):
            provided |= set(k.methods()) | set(k.class_attrs())
        reads = set()
        for n in ast.walk(ev):
            if isinstance(n, ast.Attribute) and isinstance(n.ctx, ast.Load) and isinstance(n.value, ast.Name) and n.value.id == "self":
                reads.add(n.attr)
        # attributes evaluate() itself stores before reading are not required
        for a in sorted(reads):
            if a in assigned or a in provided:
                ctx.ok_abstract("flow.definite-attr", f"{ci.name}.evaluate reads self.{a}: assigned on every constructor path")
            elif (ci.name, a) in DEFINITE_ATTR_EXCEPTIONS:
                ctx.fail("flow.definite-attr", m, ev, f"{ci.name}.evaluate reads self.{a}: " + DEFINITE_ATTR_EXCEPTIONS[(ci.name, a)],
                         func=f"{ci.name}.evaluate", advisory=True)
            else:
                ctx.fail("flow.definite-attr", m, ev,
                         f"{ci.name}.evaluate reads `self.{a}` but some path of the constructor chain (e.g. the default-argument "
                         f"path) never assigns it -> AttributeError on first use",
                         chain=[f"definitely assigned by {ci.name}.__init__: {sorted(assigned)}"],
                         construct=f"{ci.name}: self.{a} not definitely assigned", func=f"{ci.name}.evaluate")


# ---------------------------------------------------------------------------------------------- labels


def label_vocabulary(repo: Repo) -> Set[str]:
    vocab: Set[str] = set()
    ops = repo.module(OPS)
    for n in ops.tree.body:
        if isinstance(n, ast.ClassDef):
            vocab.add(n.name)
    for m in repo.modules.values():
        for c in ast.walk(m.tree):
            if isinstance(c, ast.Call) and call_attr(c) == "add_labels" and c.args:
                a = c.args[0]
                for e in (a.elts if isinstance(a, (ast.List, ast.Tuple)) else [a]):
                    if isinstance(e, ast.Constant) and isinstance(e.value, str):
                        vocab.add(e.value)
    # parse_q_reg_types: "<Kind>-<Kind>" built from the string constants appended in the function
    pq = repo.anchor(OPS, "OperationBase.parse_q_reg_types")
    kinds = set()
    for n in ast.walk(pq):
        if isinstance(n, ast.AugAssign) and isinstance(n.value, ast.Constant) and isinstance(n.value.value, str):
            kinds.add(n.value.value.rstrip("-"))
    for a in kinds:
        vocab.add(a)
        for b in kinds:
            vocab.add(f"{a}-{b}")
    return vocab


def _label_literals(fn: ast.FunctionDef):
    """(node, label) for string literals used as node_dict keys / label-query arguments in ``fn``."""
    out = []
    for n in ast.walk(fn):
        if isinstance(n, ast.Call) and call_attr(n) in ("get_node_by_labels", "get_node_exclude_labels") and n.args:
            a = n.args[0]
            if isinstance(a, (ast.List, ast.Tuple)):
                for e in a.elts:
                    if isinstance(e, ast.Constant) and isinstance(e.value, str):
                        out.append((n, e.value))
        if isinstance(n, ast.Compare) and len(n.ops) == 1 and isinstance(n.ops[0], (ast.In, ast.NotIn)) \
                and isinstance(n.comparators[0], ast.Attribute) and n.comparators[0].attr == "node_dict" \
                and isinstance(n.left, ast.Constant) and isinstance(n.left.value, str):
            out.append((n, n.left.value))
        if isinstance(n, ast.Subscript) and isinstance(n.value, ast.Attribute) and n.value.attr == "node_dict" \
                and isinstance(n.slice, ast.Constant) and isinstance(n.slice.value, str):
            out.append((n, n.slice.value))
    return out


def _label_loops(fn: ast.FunctionDef):
    """for <v> in [<string literals>] loops whose variable reaches a node_dict query."""
    out = []
    for n in ast.walk(fn):
        if isinstance(n, ast.For) and isinstance(n.iter, (ast.List, ast.Tuple)) and isinstance(n.target, ast.Name) and n.iter.elts \
                and all(isinstance(e, ast.Constant) and isinstance(e.value, str) for e in n.iter.elts):
            v = n.target.id
            used = any((isinstance(x, ast.Call) and call_attr(x) in ("get_node_by_labels",) and v in norm(x))
                       or (isinstance(x, ast.Compare) and "node_dict" in norm(x) and v in norm(x)) for x in ast.walk(n))
            if used:
                out.append(n)
    return out


def unitary_gate_classes(repo: Repo) -> Set[str]:
    """Non-identity unitary gate classes accepted by *both* compilers."""
    a = {c.key: c for c in hooks.accepted_classes(repo, hooks.STAB, "StabilizerCompiler")}
    b = {c.key: c for c in hooks.accepted_classes(repo, hooks.DM, "DensityMatrixCompiler")}
    one = repo.cls("OneQubitOperationBase", OPS)
    two = repo.cls("ControlledPairOperationBase", OPS)
    out = set()
    for k in set(a) & set(b):
        c = a[k]
        if (repo.is_subclass(c, one) or repo.is_subclass(c, two)) and c.name != "Identity":
            out.add(c.name)
    return out


def rule_labels(ctx: Ctx) -> None:
    repo = ctx.repo
    m = repo.module(METRICS)
    vocab = label_vocabulary(repo)
    one = repo.cls("OneQubitOperationBase", OPS)
    two = repo.cls("ControlledPairOperationBase", OPS)
    n_lit = 0
    for ci in metric_classes(repo):
        ev = ci.methods().get("evaluate")
        if ev is None:
            continue
        for node, lab in _label_literals(ev):
            n_lit += 1
            if lab in vocab:
                ctx.ok("label.exists", m, node, what=f"{ci.name}: '{lab}'")
            else:
                ctx.fail("label.exists", m, node,
                         f"{ci.name}.evaluate queries label '{lab}', which no operation class name, add_labels() call or "
                         f"register-type description ever produces: the metric silently counts nothing",
                         func=f"{ci.name}.evaluate", construct=f"{ci.name}: label '{lab}'")
        for loop in _label_loops(ev):
            labs = [e.value for e in loop.iter.elts]
            dup = sorted({x for x in labs if labs.count(x) > 1})
            for lab in labs:
                n_lit += 1
                if lab not in vocab:
                    ctx.fail("label.exists", m, loop.iter, f"{ci.name}.evaluate iterates label '{lab}', which nothing produces",
                             func=f"{ci.name}.evaluate", construct=f"{ci.name}: label '{lab}'")
            if dup:
                ctx.fail("table.labels", m, loop.iter,
                         f"{ci.name}.evaluate counts over a label list with duplicates {dup}: those gates are counted "
                         f"{labs.count(dup[0])} times", func=f"{ci.name}.evaluate",
                         construct=f"{ci.name}: duplicate labels {dup}")
            else:
                ctx.ok("table.labels", m, loop.iter, what=f"{ci.name}: label list duplicate-free")
            if ci.name == "CircuitUnitaryCount":
                want = unitary_gate_classes(repo)
                missing = sorted(want - set(labs))
                extra = []
                for lab in set(labs):
                    cands = [c for c in repo.classes.get(lab, []) if c.module.rel == OPS]
                    if not cands or not (repo.is_subclass(cands[0], one) or repo.is_subclass(cands[0], two)) or lab == "Identity":
                        extra.append(lab)
                if missing:
                    ctx.fail("table.labels", m, loop.iter,
                             f"CircuitUnitaryCount never counts the unitary gate class(es) {missing} although both compilers accept them",
                             func="CircuitUnitaryCount.evaluate", construct=f"CircuitUnitaryCount: missing labels {missing}")
                else:
                    ctx.ok("table.labels", m, loop.iter, what="CircuitUnitaryCount covers every common unitary class")
                if extra:
                    ctx.fail("table.labels", m, loop.iter, f"CircuitUnitaryCount counts non-unitary / identity label(s) {sorted(extra)}",
                             func="CircuitUnitaryCount.evaluate", construct=f"CircuitUnitaryCount: non-unitary labels {sorted(extra)}")
    # CircuitUnitaryCount as a complement query: what is counted is "every operation the compilers accept except the listed labels", which
    # has to be exactly the unitary gate classes — the classically controlled gates and the measurements are operations too
    ci_u = repo.cls("CircuitUnitaryCount", METRICS)
    ev_u = ci_u.methods().get("evaluate")
    if ev_u is not None and not _label_loops(ev_u):
        exq = [c for c in calls_in(ev_u) if call_attr(c) == "get_node_exclude_labels" and c.args and isinstance(c.args[0], (ast.List, ast.Tuple))]
        if not exq:
            raise AnalysisError("CircuitUnitaryCount.evaluate: neither a loop over gate labels nor a complement query was found")
        excluded = {e.value for e in exq[0].args[0].elts if isinstance(e, ast.Constant)}
        accepted = {c.name for c in hooks.accepted_classes(repo, hooks.STAB, "StabilizerCompiler")} | {c.name for c in hooks.accepted_classes(repo, hooks.DM, "DensityMatrixCompiler")}
        counted = {c for c in accepted if c not in excluded and c not in ("OneQubitGateWrapper",)}
        want = unitary_gate_classes(repo)
        extra, missing = sorted(counted - want), sorted(want - counted)
        n_lit += len(excluded)
        if extra or missing:
            ctx.fail("table.labels", m, exq[0],
                     f"CircuitUnitaryCount counts every node except those labelled {sorted(excluded)}: that " +
                     (f"includes the non-unitary operation class(es) {extra}" if extra else "") + (" and " if extra and missing else "") +
                     (f"leaves out the unitary class(es) {missing}" if missing else "") + " — a measurement-controlled correction is not a unitary of the circuit",
                     func="CircuitUnitaryCount.evaluate", construct=f"CircuitUnitaryCount: complement query counts {extra[:3]}")
        else:
            ctx.ok("table.labels", m, exq[0], what="CircuitUnitaryCount: complement query counts exactly the unitary classes")
    if n_lit == 0:
        raise AnalysisError("label rules: no label literal found in the metric classes")


# ---------------------------------------------------------------------------------------------- guarded lookup


def _helper_total(repo: Repo, name: str) -> bool:
    fn = repo.anchor(DAG, f"CircuitDAG.{name}")
    for n in ast.walk(fn):
        if isinstance(n, ast.Subscript) and isinstance(n.value, ast.Attribute) and n.value.attr == "node_dict" \
                and isinstance(n.ctx, ast.Load):
            # an unguarded self.node_dict[label]
            guarded = False
            for a in _anc(n):
                if isinstance(a, ast.If) and "node_dict" in norm(a.test) and norm(n.slice) in norm(a.test):
                    guarded = True
                if isinstance(a, ast.IfExp) and "node_dict" in norm(a.test):
                    guarded = True
                if isinstance(a, (ast.ListComp, ast.SetComp, ast.GeneratorExp, ast.DictComp)) and any(
                        "node_dict" in norm(t) and norm(n.slice) in norm(t) for g in a.generators for t in g.ifs):
                    guarded = True
            if not guarded:
                return False
    return True


def _anc(n):
    p = parent(n)
    while p is not None:
        yield p
        p = parent(p)


ALWAYS = {"Input", "Output"}  # appended for every register by CircuitDAG._add_register


def rule_reg_depth_aligned(ctx: Ctx) -> None:
    """depth.index-aligned: calculate_reg_depth(reg_type) returns a list whose entry i is the depth of register i of that type: entry i is
    computed from the node named f"{reg_type}{i}_out" with the *same* i that indexes the list.  Collecting the output nodes some other way
    and relying on their order (a sort of the node names is lexicographic: "p10_out" < "p2_out") hands the right depths to the wrong
    registers once a type has more than ten registers."""
    repo = ctx.repo
    m = repo.module(DAG)
    fn = repo.anchor(DAG, "CircuitDAG.calculate_reg_depth")
    ctx.touch(m, fn)
    RT = func_params(fn)[1]
    stores = [a for a in ast.walk(fn) if isinstance(a, ast.Assign) and isinstance(a.targets[0], ast.Subscript) and "_register_depth" in norm(a.targets[0])]
    whole = [a for a in stores if norm(a.targets[0]) == f"self._register_depth[{RT}]"]
    per = [a for a in stores if a not in whole]
    if whole and isinstance(whole[0].value, ast.ListComp) and len(whole[0].value.generators) == 1 and isinstance(whole[0].value.generators[0].target, ast.Name) \
            and isinstance(whole[0].value.generators[0].iter, ast.Call) and call_name(whole[0].value.generators[0].iter) == "range":
        iv_ = whole[0].value.generators[0].target.id
        from ..core import expand as _expand
        js = [j for j in ast.walk(_expand(fn, whole[0].value.elt)) if isinstance(j, ast.JoinedStr)]
        if any([norm(v.value) for v in j.values if isinstance(v, ast.FormattedValue)] == [RT, iv_] and any(isinstance(v, ast.Constant) and "_out" in str(v.value) for v in j.values) for j in js):
            ctx.ok("depth.index-aligned", m, whole[0], what="list rebuilt with entry i <- depth of node f'{reg_type}{i}_out'")
            return
    if whole:
        ctx.fail("depth.index-aligned", m, whole[0],
                 f"calculate_reg_depth rebuilds the whole list as `{short(whole[0].value, 70)}`: entry i is whatever comes i-th in that collection, not the depth of register i "
                 f"(node names sort as strings: '{RT}10_out' comes before '{RT}2_out')", func="CircuitDAG.calculate_reg_depth",
                 construct="calculate_reg_depth: list rebuilt from a collection of output nodes")
        return
    if not per:
        raise AnalysisError("calculate_reg_depth: the store into _register_depth was not found")
    for a in per:
        idx = a.targets[0].slice
        loop = next((l for l in ast.walk(fn) if isinstance(l, ast.For) and any(x is a for x in ast.walk(l))), None)
        ok = isinstance(idx, ast.Name) and loop is not None and isinstance(loop.target, ast.Name) and loop.target.id == idx.id \
            and isinstance(loop.iter, ast.Call) and call_name(loop.iter) == "range" and "_register_depth" in norm(loop.iter)
        names = [j for j in ast.walk(fn) if isinstance(j, ast.JoinedStr) and any(isinstance(v, ast.Constant) and "_out" in str(v.value) for v in j.values)]
        aligned = ok and any([norm(v.value) for v in j.values if isinstance(v, ast.FormattedValue)] == [RT, idx.id] for j in names)
        if aligned:
            ctx.ok("depth.index-aligned", m, a, what="entry i <- depth of node f'{reg_type}{i}_out'")
        else:
            ctx.fail("depth.index-aligned", m, a, f"calculate_reg_depth: `{short(a, 70)}` does not take entry i from register i's own output node",
                     func="CircuitDAG.calculate_reg_depth", construct="calculate_reg_depth: entry / register misaligned")


def rule_metric_arith(ctx: Ctx) -> None:
    """metric.arith: the arithmetic of the count and interval metrics, as linear forms.  (a) a count metric is the number of nodes
    returned by its label query, 0 when the label is absent, accumulated by addition from 0; a guard in front of a query is a membership
    test (`in`).  (b) the reset / effective-depth metrics take the differences of *consecutive* cut points, later minus earlier, over all
    consecutive pairs (j = 0 .. len - 2), and report the maximum."""
    from .. import linear
    repo = ctx.repo
    m = repo.module(METRICS)
    # (a) counts
    for cname in ("CircuitCnotCount", "CircuitUnitaryCount", "CircuitMeasureCount"):
        ci = repo.cls(cname, METRICS)
        ev = ci.methods().get("evaluate")
        if ev is None:
            continue
        ctx.touch(m, ev)
        pen = [c for c in calls_in(ev) if isinstance(c.func, ast.Attribute) and "penalty" in c.func.attr and norm(c.func.value) == "self" and c.args]
        if len(pen) != 1 or not isinstance(pen[0].args[0], ast.Name):
            raise AnalysisError(f"{cname}.evaluate: penalty(<count>) not found")
        cv = pen[0].args[0].id
        bad = []
        for a in ast.walk(ev):
            if isinstance(a, ast.Assign) and len(a.targets) == 1 and norm(a.targets[0]) == cv:
                from ..core import expand as _expand
                v = _expand(ev, a.value)       # the queried node list may have been given a name before its length is taken
                if isinstance(v, ast.Constant):
                    if v.value != 0:
                        bad.append((a, f"the count starts / defaults to {v.value!r} instead of 0"))
                elif not (isinstance(v, ast.Call) and call_name(v) == "len" and any(call_attr(x) in ("get_node_by_labels", "get_node_exclude_labels") for x in ast.walk(v) if isinstance(x, ast.Call))):
                    bad.append((a, f"the count is `{short(v)}`, not the length of a label query"))
            if isinstance(a, ast.AugAssign) and norm(a.target) == cv:
                if not isinstance(a.op, ast.Add) or not (isinstance(a.value, ast.Call) and call_name(a.value) == "len"):
                    bad.append((a, f"`{short(a)}` does not add the length of a label query"))
        for i_ in [x for x in ast.walk(ev) if isinstance(x, ast.If)]:
            for t in ast.walk(i_.test):
                if isinstance(t, ast.Compare) and "node_dict" in norm(t) and len(t.ops) == 1 and not isinstance(t.ops[0], ast.In):
                    if any(call_attr(c) in ("get_node_by_labels",) for c in calls_in(i_) if any(c is y for b_ in i_.body for y in ast.walk(b_))):
                        bad.append((t, f"the query is guarded by `{short(t)}`: it runs exactly when the label is *absent*"))
        if bad:
            for node, why in bad:
                ctx.fail("metric.arith", m, node, f"{cname}.evaluate: {why}", func=f"{cname}.evaluate", construct=f"{cname}: {why[:60]}")
        else:
            ctx.ok("metric.arith", m, pen[0], what=f"{cname}: count = sum of label-query lengths from 0")
    # (b) intervals
    for cname in ("CircuitMaxEmitResetDepth", "CircuitMaxEmitEffDepth"):
        ci = repo.cls(cname, METRICS)
        ev = ci.methods().get("evaluate")
        ctx.touch(m, ev)
        comps = [c for c in ast.walk(ev) if isinstance(c, ast.ListComp) and isinstance(c.elt, ast.BinOp) and isinstance(c.elt.op, ast.Sub)
                 and isinstance(c.elt.left, ast.Subscript) and isinstance(c.elt.right, ast.Subscript)]
        if len(comps) != 1 and cname == "CircuitMaxEmitResetDepth":
            continue    # written without a difference list (a single pass, say): the value is decided on the history model (metric.reset-model)
        if len(comps) != 1:
            raise AnalysisError(f"{cname}.evaluate: the list of consecutive differences was not found")
        c = comps[0]
        g = c.generators[0]
        jv = norm(g.target)
        L, R = c.elt.left, c.elt.right
        why = []
        if norm(L.value) != norm(R.value):
            why.append(f"the difference mixes two lists (`{short(c.elt)}`)")
        li, ri = linear.lin(L.slice), linear.lin(R.slice)
        if li is None or ri is None or linear.clean(linear.sub(li, ri)) != {"": 1} or li.get(jv, 0) != 1:
            why.append(f"`{short(c.elt)}` is not (entry j + 1) - (entry j)")
        it = g.iter
        okr = False
        if isinstance(it, ast.Call) and call_name(it) == "range" and len(it.args) == 1:
            b = it.args[0]
            okr = isinstance(b, ast.BinOp) and isinstance(b.op, ast.Sub) and isinstance(b.right, ast.Constant) and b.right.value == 1 \
                and isinstance(b.left, ast.Call) and call_name(b.left) == "len" and len(b.left.args) == 1
        if not okr:
            why.append(f"the pairs run over `{short(it)}` instead of range(len(<cut points>) - 1)")
        tgt = next((norm(a.targets[0]) for a in ast.walk(ev) if isinstance(a, ast.Assign) and a.value is c), None)
        mx = [x for x in calls_in(ev) if call_name(x) in ("max", "np.max") and x.args and tgt is not None and norm(x.args[0]) == tgt]
        if not mx:
            why.append("the metric is not the maximum of these differences")
        if why:
            ctx.fail("metric.arith", m, c, f"{cname}.evaluate: " + "; ".join(why), func=f"{cname}.evaluate", construct=f"{cname}: interval arithmetic")
        else:
            ctx.ok("metric.arith", m, c, what=f"{cname}: max of consecutive differences over all pairs")


def rule_wire_walk(ctx: Ctx) -> None:
    """wire.follow-edge: reg_gate_history walks one register's wire from `<reg>_in` to `<reg>_out`.  The next gate on a wire is the head of the
    out-edge that *carries that register* (edge data reg / reg_type, or the edge key): two consecutive gates may be joined by several
    edges, and a two-qubit gate has successors on both of its wires, so "a successor that acts on the register" can be a later gate
    reached through the other wire — the gates in between are skipped and every emitter-depth metric comes out too small."""
    repo = ctx.repo
    m = repo.module(DAG)
    fn = repo.anchor(DAG, "CircuitDAG.reg_gate_history")
    ctx.touch(m, fn)
    loops_ = [w for w in ast.walk(fn) if isinstance(w, ast.While)]
    if len(loops_) != 1:
        raise AnalysisError("reg_gate_history: the wire walk was not found")
    w = loops_[0]
    node_level = [c for c in calls_in(w) if call_attr(c) in ("successors", "neighbors", "predecessors", "adj", "descendants")]
    if node_level:
        ctx.fail("wire.follow-edge", m, node_level[0],
                 f"reg_gate_history picks the next gate among `{short(node_level[0])}` by looking at the operations: a two-qubit gate also has a successor on its "
                 f"other wire, which may be a later gate of this register, so gates in between are skipped; the next gate is the head of the out-edge whose "
                 f"reg / reg_type is this register", func="CircuitDAG.reg_gate_history", construct="reg_gate_history: next gate chosen among successors")
        return
    edges_ = [c for c in calls_in(w) if call_attr(c) in ("out_edges", "edge_from_reg")]
    if not edges_:
        raise AnalysisError("reg_gate_history: no out_edges query in the walk")
    ps = func_params(fn)
    regp, typ = ps[1], ps[2]
    txt = " ".join(norm(t) for g in [x for x in ast.walk(w) if isinstance(x, ast.comprehension)] for t in g.ifs) + " " + \
        " ".join(norm(i.test) for i in ast.walk(w) if isinstance(i, ast.If)) + " " + " ".join(norm(c) for c in edges_ if call_attr(c) == "edge_from_reg")
    both = (regp in txt and typ in txt)
    if both:
        ctx.ok("wire.follow-edge", m, edges_[0], what="next gate = head of the out-edge carrying (reg, reg_type)")
    else:
        ctx.fail("wire.follow-edge", m, edges_[0], f"reg_gate_history selects the out-edge without comparing both `{regp}` and `{typ}` of the edge: e0 and p0 share the "
                 f"index 0, so the walk can continue on the other wire of a two-qubit gate", func="CircuitDAG.reg_gate_history",
                 construct="reg_gate_history: edge selected without (reg, reg_type)")


def rule_label_intersection(ctx: Ctx) -> None:
    """label.all-of: get_node_by_labels(labels) returns the nodes filed under *every* label: each requested label contributes its node
    list, a label nobody is filed under contributes the empty list (so the result is empty).  Filtering the labels themselves
    (`for label in labels if label in self.node_dict`) drops the absent ones from the intersection — ["Emitter-Emitter", "CNOT"] on a
    circuit without any CNOT then returns every emitter-emitter node, and the CNOT count reports the CZ gates."""
    repo = ctx.repo
    m = repo.module(DAG)
    fn = repo.anchor(DAG, "CircuitDAG.get_node_by_labels")
    ctx.touch(m, fn)
    lp = func_params(fn)[1]
    iters = [l for l in ast.walk(fn) if isinstance(l, ast.For) and norm(l.iter) == lp] + \
            [g for c in ast.walk(fn) if isinstance(c, (ast.ListComp, ast.SetComp, ast.GeneratorExp)) for g in c.generators if norm(g.iter) == lp]
    if not iters:
        raise AnalysisError("get_node_by_labels: no iteration over the requested labels")
    for it in iters:
        filt = it.ifs if isinstance(it, ast.comprehension) else []
        skip = [] if isinstance(it, ast.comprehension) else [x for x in ast.walk(it) if isinstance(x, (ast.Continue, ast.Break))]
        if filt or skip:
            site = filt[0] if filt else skip[0]
            ctx.fail("label.all-of", m, site,
                     f"get_node_by_labels leaves requested labels out of the intersection (`{short(site)}`): a label no node is filed under must make the "
                     f"result empty, not be ignored — otherwise [\"Emitter-Emitter\", \"CNOT\"] on a circuit without CNOTs returns all emitter-emitter gates",
                     func="CircuitDAG.get_node_by_labels", construct="get_node_by_labels: absent labels ignored")
            return
    inter = any(isinstance(c, ast.Call) and call_attr(c) in ("intersection", "intersection_update") for c in ast.walk(fn)) or \
        any(isinstance(b, (ast.BinOp, ast.AugAssign)) and isinstance(b.op, ast.BitAnd) for b in ast.walk(fn))
    if inter:
        ctx.ok("label.all-of", m, iters[0], what="intersection over every requested label (absent label = empty)")
    else:
        ctx.fail("label.all-of", m, fn, "get_node_by_labels does not intersect the node lists of the requested labels", func="CircuitDAG.get_node_by_labels",
                 construct="get_node_by_labels: no intersection")


def rule_guarded_lookup(ctx: Ctx) -> None:
    repo = ctx.repo
    m = repo.module(METRICS)
    total = {h: _helper_total(repo, h) for h in ("get_node_by_labels", "get_node_exclude_labels")}
    ctx.note(f"label query helpers total (cannot raise KeyError): {total}")
    n = 0
    for ci in metric_classes(repo):
        ev = ci.methods().get("evaluate")
        if ev is None:
            continue
        for c in calls_in(ev):
            h = call_attr(c)
            if h not in total:
                continue
            n += 1
            if total[h]:
                ctx.ok("guarded-lookup", m, c, what=f"{h} is total")
                continue
            a = c.args[0] if c.args else None
            labs = [norm(e) for e in a.elts] if isinstance(a, (ast.List, ast.Tuple)) else [norm(a)]
            guards = set()
            for anc in _anc(c):
                if isinstance(anc, ast.If):
                    t = anc.test
                    for x in ast.walk(t):
                        if isinstance(x, ast.Compare) and len(x.ops) == 1 and isinstance(x.ops[0], ast.In) \
                                and "node_dict" in norm(x.comparators[0]):
                            # only the `if` body is guarded
                            if any(c is y for b in anc.body for y in ast.walk(b)):
                                guards.add(norm(x.left))
            miss = [l for l in labs if l not in guards and l.strip("'\"") not in ALWAYS]
            if miss:
                ctx.fail("guarded-lookup", m, c,
                         f"{ci.name}.evaluate calls {h}({', '.join(labs)}) which indexes node_dict[label] directly; label(s) "
                         f"{miss} are not guarded by `in circuit.node_dict`, so a circuit without such an operation raises KeyError "
                         f"(sibling metrics guard their lookups)",
                         func=f"{ci.name}.evaluate", construct=f"{ci.name}: unguarded {h}({', '.join(labs)})")
            else:
                ctx.ok("guarded-lookup", m, c)
        for nn in ast.walk(ev):
            if isinstance(nn, ast.Subscript) and isinstance(nn.value, ast.Attribute) and nn.value.attr == "node_dict":
                n += 1
                lab = norm(nn.slice)
                ok = any(isinstance(a, ast.If) and "node_dict" in norm(a.test) and lab in norm(a.test) for a in _anc(nn))
                if ok or lab.strip("'\"") in ALWAYS:
                    ctx.ok("guarded-lookup", m, nn)
                else:
                    ctx.fail("guarded-lookup", m, nn, f"{ci.name}.evaluate indexes node_dict[{lab}] without a membership guard",
                             func=f"{ci.name}.evaluate", construct=f"{ci.name}: unguarded node_dict[{lab}]")
    if n == 0:
        raise AnalysisError("guarded-lookup: no label query found in metrics")


# ---------------------------------------------------------------------------------------------- copies

MUTATORS = {"unwrap_nodes", "remove_identity", "group_one_qubit_gates", "add", "insert_at", "remove_op", "replace_op",
            "convert_representation", "partial_trace"}


def rule_metric_copies(ctx: Ctx) -> None:
    repo = ctx.repo
    m = repo.module(METRICS)
    n = 0
    for ci in metric_classes(repo):
        ev = ci.methods().get("evaluate")
        if ev is None:
            continue
        params = set(func_params(ev)[1:])
        fresh = set()
        for st in ast.walk(ev):
            if isinstance(st, ast.Assign) and isinstance(st.value, ast.Call) and call_attr(st.value) in ("copy", "deepcopy"):
                fresh |= {t.id for t in st.targets if isinstance(t, ast.Name)}
        # flow-insensitive but order-aware: a parameter re-bound to its own copy is fresh after that statement
        rebinding = {}
        for st in ev.body:
            if isinstance(st, ast.Assign) and isinstance(st.value, ast.Call) and call_attr(st.value) == "copy":
                for t in st.targets:
                    if isinstance(t, ast.Name) and t.id in params:
                        rebinding[t.id] = st.lineno
        for c in calls_in(ev):
            if call_attr(c) in MUTATORS and isinstance(c.func, ast.Attribute):
                recv = c.func.value
                if not isinstance(recv, ast.Name):
                    continue
                n += 1
                if recv.id in params and not (recv.id in rebinding and c.lineno > rebinding[recv.id]):
                    ctx.fail("effect.inplace-on-input", m, c,
                             f"{ci.name}.evaluate calls the in-place rewrite `{short(c)}` on its own argument `{recv.id}`; the caller's "
                             f"object is changed by evaluating a metric", func=f"{ci.name}.evaluate")
                elif recv.id in fresh or recv.id in rebinding:
                    ctx.ok("effect.inplace-on-input", m, c)
                else:
                    ctx.fail("effect.inplace-on-input", m, c, f"receiver `{recv.id}` of in-place `{call_attr(c)}` is not a copy",
                             func=f"{ci.name}.evaluate")
    if n == 0:
        raise AnalysisError("effect.inplace-on-input: no mutator call found in metrics")


def rule_normalised_receiver(ctx: Ctx) -> None:
    """metric.receiver: a cost metric that flattens a copy of the circuit (`c = circuit.copy(); c.unwrap_nodes(); c.remove_identity()`)
    reads the circuit's structure (label index, DAG, gate histories) from that copy only.  A guard or a count taken from the caller's
    still-wrapped circuit disagrees with the copy: gates that occur only inside wrappers are in the copy's index, not the original's."""
    repo = ctx.repo
    m = repo.module(METRICS)
    mb = repo.cls("MetricBase", METRICS)
    INVARIANT = {"n_emitters", "n_photons", "n_classical", "n_quantum", "copy"}
    n = 0
    for ci in repo.subclasses(mb, strict=True):
        if ci.module.rel != METRICS or not ci.name.startswith("Circuit"):
            continue
        ev = ci.methods().get("evaluate")
        if ev is None:
            continue
        ps = func_params(ev)
        if len(ps) < 3:
            continue
        cp = ps[2]
        copies = [a for a in ast.walk(ev) if isinstance(a, ast.Assign) and len(a.targets) == 1 and isinstance(a.targets[0], ast.Name)
                  and isinstance(a.value, ast.Call) and norm(a.value.func) == f"{cp}.copy"]
        if not copies:
            continue
        cname_ = copies[0].targets[0].id
        flattened = any(isinstance(c_, ast.Call) and isinstance(c_.func, ast.Attribute) and norm(c_.func.value) == cname_ and c_.func.attr in ("unwrap_nodes", "remove_identity")
                        for c_ in ast.walk(ev))
        if not flattened or cname_ == cp:
            continue
        n += 1
        ctx.touch(m, ev)
        bad = [x for x in ast.walk(ev) if isinstance(x, ast.Attribute) and isinstance(x.value, ast.Name) and x.value.id == cp and x.attr not in INVARIANT
               and x.lineno > copies[0].lineno]
        if bad:
            ctx.fail("metric.receiver", m, bad[0],
                     f"{ci.name}.evaluate flattens the copy `{cname_}` but reads `{short(bad[0])}` from the caller's circuit `{cp}`, which still holds the "
                     f"gate wrappers: a gate type that occurs only inside wrappers is in `{cname_}`'s label index and not in `{cp}`'s, so it is skipped",
                     func=f"{ci.name}.evaluate", construct=f"{ci.name}.evaluate: structure read from the un-flattened circuit")
        else:
            ctx.ok("metric.receiver", m, copies[0], what=f"{ci.name}: structure read from the flattened copy only")
    if n == 0:
        ctx.ok_abstract("metric.receiver", "no metric flattens a separately named copy (they rebind the parameter itself)")


def rule_depth_longest(ctx: Ctx) -> None:
    """depth.longest: the depth of a node is the length of the LONGEST chain of operations before it: `_max_depth` takes the maximum over all
    predecessors of their own depth, plus one (recursion / memoised recursion / networkx's longest path).  A layer-by-layer walk that skips
    nodes already seen computes the breadth-first distance instead, which is shorter whenever a node is reachable both directly and through
    a longer chain (CNOT; H; CNOT on the same pair: depth 3, not 2)."""
    repo = ctx.repo
    DAGF = "graphiq/circuit/circuit_dag.py"
    m = repo.module(DAGF)
    fn = repo.anchor(DAGF, "CircuitDAG._max_depth")
    ctx.touch(m, fn)
    recursive = [c for c in calls_in(fn) if call_name(c) == "self._max_depth"]
    has_max_plus = any(isinstance(b, ast.BinOp) and isinstance(b.op, ast.Add) and norm(b.right) == "1" and isinstance(b.left, ast.Call) and call_name(b.left) == "max"
                       for b in ast.walk(fn))
    longest_api = [c for c in calls_in(fn) if (call_attr(c) or "") in ("dag_longest_path_length", "dag_longest_path")]
    # a 'visited' set: a name that gets .add(x) and is tested with `x not in name`
    adders = {norm(c.func.value) for c in calls_in(fn) if call_attr(c) == "add"}
    pruned = [x for x in ast.walk(fn) if isinstance(x, ast.Compare) and len(x.ops) == 1 and isinstance(x.ops[0], ast.NotIn) and norm(x.comparators[0]) in adders]
    if pruned and not recursive:
        ctx.fail("depth.longest", m, pruned[0],
                 f"CircuitDAG._max_depth walks the predecessors layer by layer and skips nodes already seen (`{short(pruned[0])}`): that is the "
                 f"breadth-first distance to the furthest ancestor, not the longest chain — a node reachable both directly and through a longer "
                 f"chain is counted at the shorter distance (CNOT(e0,e1); H(e0); CNOT(e0,e1) gets depth 2 instead of 3)",
                 func="CircuitDAG._max_depth", construct="_max_depth: breadth-first walk with a visited set")
    elif (recursive and has_max_plus) or longest_api:
        ctx.ok("depth.longest", m, fn, what="depth = 1 + max over predecessors (longest chain)")
    else:
        raise AnalysisError("CircuitDAG._max_depth: neither the max-over-predecessors recursion nor a longest-path call was recognised")


def run(ctx: Ctx) -> None:
    from ..rules import shapes as _shp18
    _shp18.rule_reset_depth_model(ctx)
    rule_reg_depth_aligned(ctx)
    from .c13 import rule_rewrite_order
    rule_rewrite_order(ctx)   # the normalisation this property relies on (unwrap_nodes expands every wrapper, in order)
    rule_depth_longest(ctx)
    from .c12 import rule_register_depth_paired, rule_edge_keys
    rule_edge_keys(ctx)   # depth and the gate histories are read off the wires: every DAG edit has to keep each wire on its own key
    rule_register_depth_paired(ctx)  # per-register depth needs one depth entry per register
    rule_normalised_receiver(ctx)
    from ..rules import memo as _memo
    _memo.rule_memo_sound(ctx, ['graphiq/metrics.py', 'graphiq/circuit/circuit_dag.py'])
    _memo.rule_falsy_zero(ctx, ['graphiq/metrics.py', 'graphiq/circuit/circuit_dag.py'])
    _memo.rule_arg_names(ctx, ['graphiq/metrics.py', 'graphiq/circuit/circuit_dag.py'])
    _memo.rule_fixed_width(ctx, ['graphiq/metrics.py', 'graphiq/circuit/circuit_dag.py'])
    _memo.rule_paste_incomplete(ctx, ['graphiq/metrics.py', 'graphiq/circuit/circuit_dag.py'])
    _memo.rule_negative_start(ctx, ['graphiq/metrics.py', 'graphiq/circuit/circuit_dag.py'])
    _memo.rule_elim_no_pivot(ctx, ['graphiq/metrics.py', 'graphiq/circuit/circuit_dag.py'])
    _memo.rule_subject_drift(ctx, ['graphiq/metrics.py', 'graphiq/circuit/circuit_dag.py'])
    _memo.rule_isinstance_on_class(ctx, ['graphiq/metrics.py', 'graphiq/circuit/circuit_dag.py'])
    _memo.rule_zip_truncation(ctx, ['graphiq/metrics.py', 'graphiq/circuit/circuit_dag.py'])
    _memo.rule_search_fallthrough(ctx, ['graphiq/metrics.py', 'graphiq/circuit/circuit_dag.py'])
    _memo.rule_zip_pairing(ctx, ['graphiq/metrics.py', 'graphiq/circuit/circuit_dag.py'])
    from .c12 import rule_nodekeys
    rule_nodekeys(ctx)  # the label index these functions query (wrapper / identity / gate labels) is maintained by add/remove/replace
    rule_definite_attr(ctx)
    rule_labels(ctx)
    rule_guarded_lookup(ctx)
    rule_label_intersection(ctx)
    rule_wire_walk(ctx)
    rule_metric_arith(ctx)
    rule_metric_copies(ctx)
    shapes.rule_metric_source(ctx)
    shapes.rule_reset_points(ctx)
    from ..rules import loops
    loops.rule_iter_snapshot(ctx, "graphiq/circuit/circuit_dag.py", "CircuitDAG")
    ctx.floor("flow.definite-attr", 30)
    ctx.floor("label.exists", 4)
    ctx.floor("effect.inplace-on-input", 8)


def _depth_memo(src: str) -> str:
    a = "        self.edge_dict = {}\n"
    b = "        return max(depth) + 1\n"
    if src.count(a) != 1 or src.count(b) != 1:
        raise LookupError("knock-out anchor text missing")
    src = src.replace(a, a + "        self._depth_memo = {}\n")
    return src.replace(b, "        if root_node not in self._depth_memo:\n            self._depth_memo[root_node] = max(depth) + 1\n        return self._depth_memo[root_node]\n")


def _bfs_depth(src: str) -> str:
    a = "        for node in connected_nodes:\n            depth.append(self._max_depth(node))\n        return max(depth) + 1\n"
    if src.count(a) != 1:
        raise LookupError("knock-out anchor text missing")
    b = ("        seen = {root_node}\n        layer = connected_nodes\n        d = 0\n        while layer:\n            nxt = []\n"
         "            for node in layer:\n                for pre in self.dag.predecessors(node):\n                    if pre not in seen:\n"
         "                        seen.add(pre)\n                        nxt.append(pre)\n            d += 1\n            layer = nxt\n        return d - 1\n")
    return src.replace(a, b)


def _edit_flatten_helper(src: str) -> str:
    """the copy / unwrap / remove_identity preamble of the emitter-depth metrics moves into a helper that skips all of it when the circuit
    has no wrapper — identities are then not dropped"""
    pre = "        c = circuit.copy()\n        c.unwrap_nodes()\n        c.remove_identity()\n"
    if src.count(pre) < 3:
        raise LookupError("preamble of the emitter-depth metrics")
    out = src.replace(pre, "        c = _flattened(circuit)\n")
    out += ("\n\ndef _flattened(circuit):\n"
            "    if not circuit.node_dict.get(\"OneQubitGateWrapper\"):\n"
            "        return circuit\n"
            "    c = circuit.copy()\n"
            "    c.unwrap_nodes()\n"
            "    c.remove_identity()\n"
            "    return c\n")
    return out


def _edit_unitary_complement(src: str) -> str:
    """CircuitUnitaryCount counts 'everything except endpoints, identities and the two measurement classes' instead of the eight gate names"""
    a = src.index("        n_u = 0\n        for label in [\n            \"SigmaX\",")
    b = src.index("                n_u += len(circuit.get_node_by_labels([label]))\n", a) + len("                n_u += len(circuit.get_node_by_labels([label]))\n")
    return src[:a] + ("        n_u = len(circuit.get_node_exclude_labels([\"Input\", \"Output\", \"Identity\", \"MeasurementZ\", \"MeasurementCNOTandReset\"]))\n") + src[b:]


KNOCKOUTS = [
    Knockout("reset-depth-intervals-from-the-first-cut", METRICS, sub_once("                m_list[j + 1] - m_list[j] for j in range(len(m_list) - 1)", "                m_list[j + 1] - m_list[0] for j in range(len(m_list) - 1)"), "metric.reset-model", "longest"),
    Knockout("reset-depth-penalty-per-emitter", METRICS, lambda src: sub_once("        depth = max(reset_depths.values())\n        val = self.depth_penalty(depth)\n", "        val = max(reset_depths.values())\n")(sub_once("            reset_depths[e_i] = max(reset_intervals)\n", "            reset_depths[e_i] = self.depth_penalty(max(reset_intervals))\n")(src)), "metric.source", "per emitter"),
    Knockout("reg-depth-from-sorted-output-nodes", DAG, sub_once("        for i in range(len(self._register_depth[reg_type])):\n            output_node = f\"{reg_type}{i}_out\"\n            self._register_depth[reg_type][i] = self._max_depth(output_node)\n", "        output_nodes = sorted(n for n in self.node_dict.get(\"Output\", []) if self.dag.nodes[n][\"op\"].reg_type == reg_type)\n        self._register_depth[reg_type] = [self._max_depth(n) for n in output_nodes]\n"), "depth.index-aligned", "rebuilt"),
    Knockout("unitary-count-by-complement", METRICS, _edit_unitary_complement, "table.labels", "complement query"),
    Knockout("flatten-helper-returns-early", METRICS, _edit_flatten_helper, "metric.source", "returns early"),
    Knockout("reset-intervals-skip-last-pair", METRICS, sub_once("                m_list[j + 1] - m_list[j] for j in range(len(m_list) - 1)", "                m_list[j + 1] - m_list[j] for j in range(len(m_list) - 2)"), "metric.arith", "CircuitMaxEmitResetDepth"),
    Knockout("eff-depth-difference-reversed", METRICS, sub_once("                node_depth_list[j + 1] - node_depth_list[j]", "                node_depth_list[j] - node_depth_list[j + 1]"), "metric.arith", "CircuitMaxEmitEffDepth"),
    Knockout("cnot-count-default-one", METRICS, sub_once("        else:\n            n = 0\n        val = self.n_cnot_penalty(n)", "        else:\n            n = 1\n        val = self.n_cnot_penalty(n)"), "metric.arith", "CircuitCnotCount"),
    Knockout("gate-history-through-successors", DAG, sub_once('            next_node = [\n                edge[1]\n                for edge in self.dag.out_edges(next_node, data=True)\n                if edge[2]["reg"] == reg and edge[2]["reg_type"] == reg_type\n            ][0]\n', '            next_node = next(n_ for n_ in self.dag.successors(next_node) if (reg, reg_type) in zip(self.dag.nodes[n_]["op"].q_registers, self.dag.nodes[n_]["op"].q_registers_type))\n'), "wire.follow-edge", "successors"),
    Knockout("gate-history-ignores-register-type", DAG, sub_once('                if edge[2]["reg"] == reg and edge[2]["reg_type"] == reg_type\n            ][0]', '                if edge[2]["reg"] == reg\n            ][0]'), "wire.follow-edge", "without (reg, reg_type)"),
    Knockout("label-query-ignores-absent-labels", DAG, sub_once("        remaining_nodes = set(self.dag.nodes)\n        for label in labels:\n            remaining_nodes = remaining_nodes.intersection(\n                set(self.node_dict.get(label, []))\n            )\n        return list(remaining_nodes)\n", "        node_lists = [self.node_dict[label] for label in labels if label in self.node_dict]\n        if not node_lists:\n            return []\n        return list(set(node_lists[0]).intersection(*node_lists[1:]))\n"), "label.all-of", "absent labels ignored"),
    Knockout("reset-points-classical-cnot", METRICS, sub_nth('                    "MeasurementCNOTandReset",\n', '                    "MeasurementCNOTandReset",\n                    "ClassicalCNOT",\n', 0), "metric.reset-points", "reset points"),
    Knockout("depth-breadth-first", "graphiq/circuit/circuit_dag.py", _bfs_depth, "depth.longest", "breadth-first"),
    Knockout("emit-depth-history-from-original", METRICS, sub_once("            e_depth[e_i] = len(c.reg_gate_history(reg=e_i)[1]) - 2", "            e_depth[e_i] = len(circuit.reg_gate_history(reg=e_i)[1]) - 2"), "metric.receiver", "un-flattened circuit"),
    Knockout("depth-memo-never-reset", "graphiq/circuit/circuit_dag.py", _depth_memo, "memo.sound", "key does not determine"),
    Knockout("emit-depth-offset", METRICS, sub_once("e_depth[e_i] = len(c.reg_gate_history(reg=e_i)[1]) - 2", "e_depth[e_i] = len(c.reg_gate_history(reg=e_i)[1]) - 1"), "metric.source", "offset"),
    Knockout("emit-depth-photon-wire", METRICS, sub_once("e_depth[e_i] = len(c.reg_gate_history(reg=e_i)[1]) - 2", "e_depth[e_i] = len(c.reg_gate_history(reg=e_i, reg_type='p')[1]) - 2"), "metric.source", "per-emitter"),
    Knockout("identity-live-iteration", "graphiq/circuit/circuit_dag.py", sub_once('identity_list = self.node_dict["Identity"].copy()', 'identity_list = self.node_dict["Identity"]'), "iter.snapshot", "iterated element"),
    Knockout("metric-source-photons", METRICS, sub_once("        n = circuit.n_emitters\n", "        n = circuit.n_photons\n"), "metric.source", "CircuitEmitterCount"),
    Knockout("G8-default-attr", METRICS,
             sub_once("        if m_penalty is None:\n            self.m_penalty = (", "        if m_penalty is None:\n            self.measure_penalty = ("),
             "flow.definite-attr", "CircuitMeasureCount"),
    Knockout("E7-duplicate-label", METRICS, sub_once('            "SigmaY",\n            "SigmaZ",', '            "SigmaX",\n            "SigmaZ",'),
             "table.labels", "CircuitUnitaryCount", on_fixed_only=True),
    Knockout("E7-missing-CZ", METRICS, sub_once('            "CZ",\n', ''), "table.labels", "missing", on_fixed_only=True),
    Knockout("E7-typo", METRICS, sub_once('            "Hadamard",\n            "CNOT",', '            "Hadamrd",\n            "CNOT",'),
             "label.exists", "Hadamrd"),
    Knockout("E7-typo-query", METRICS, sub_once('c.get_node_by_labels(["MeasurementCNOTandReset"])', 'c.get_node_by_labels(["MeasurementCNOTAndReset"])'),
             "label.exists", "MeasurementCNOTAndReset"),
    Knockout("guarded-lookup-helper", DAG,
             sub_once("remaining_nodes.intersection(\n                set(self.node_dict.get(label, []))\n            )", "remaining_nodes.intersection(set(self.node_dict[label]))"),
             "guarded-lookup", "MeasurementCNOTandReset", on_fixed_only=True),
    Knockout("D1-metric-no-copy", METRICS,
             sub_nth("        c = circuit.copy()\n        c.unwrap_nodes()", "        c = circuit\n        c.unwrap_nodes()", 0),
             "effect.inplace-on-input", "unwrap_nodes"),
]
