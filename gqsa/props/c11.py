"""C11 — the synthesised inverse circuit prepares exactly the given stabilizer state (narrow claim, DESIGN §5.11)."""
from __future__ import annotations

import ast
from typing import Dict, List, Optional, Tuple

from .. import clifford as cl
from ..chains import extract_chains, positive
from ..core import AnalysisError, call_attr, call_name, calls_in, func_params, get_kw, norm, parent, short
from ..driver import Knockout, sub_nth, sub_once
from ..report import Ctx
from ..rules import gatesum, tableau, tables
from ..rules.tableau import STABF

RC = "graphiq/backends/stabilizer/functions/rep_conversion.py"
TR = gatesum.TRANSFORM

EXPLANATION = (
    "Narrow structural claim. In run_circuit, for every tag the function applied under `reverse` is the Clifford inverse "
    "(finite model) of the one applied otherwise, the forward function denotes the tag's own gate, and the list is "
    "reversed on that path (reverse.table); the derived gate functions compose to the elements their names denote "
    "(effect.derived-gate); inside inverse_circuit every emitted tag is mirrored by the transform.* call that run_circuit "
    "maps that tag to, on the same index expressions, and every transform applied to the tableau is emitted (emit.mirror); "
    "every emitted tag is handled by run_circuit (vocab.gates); generators are combined only through sign-tracking row "
    "operations (own.rowops); clifford_from_stabilizer replays the inverse circuit in reverse from |0..0>. "
    "Does not decide that the block-wise synthesis reaches |0..0> with positive signs for every tableau.")


def run_circuit_table(repo) -> Dict[str, Tuple[Optional[str], Optional[str]]]:
    """tag -> (forward function, reverse function) read from run_circuit's dispatch chain."""
    m = repo.module(TR)
    fn = repo.anchor(TR, "run_circuit")
    rev = [p for p in func_params(fn) if "reverse" in p]
    if not rev:
        raise AnalysisError("run_circuit: reverse parameter not found")
    rev = rev[0]
    out: Dict[str, Tuple[Optional[str], Optional[str]]] = {}

    def fn_of(body) -> Optional[str]:
        cs = [c for st in body for c in calls_in(st)]
        return call_attr(cs[0]) if len(cs) == 1 else (None if not cs else "?")

    dd = _dict_dispatch(repo, m, fn, rev)
    if dd:
        return dd
    for ch in extract_chains(repo, m, fn):
        for b in ch:
            if b.parsed and b.subject and b.subject.endswith("[0]") and len(b.literals) == 1:
                tag = next(iter(b.literals))
                if len(b.body) == 1 and isinstance(b.body[0], ast.If) and norm(positive(b.body[0].test)[0]) == rev:
                    neg = positive(b.body[0].test)[1]
                    fwd, bwd = (b.body[0].body, b.body[0].orelse) if neg else (b.body[0].orelse, b.body[0].body)
                    out[tag] = (fn_of(fwd), fn_of(bwd))
                elif len(b.body) == 1 and isinstance(b.body[0], ast.Pass):
                    out[tag] = ("identity", "identity")
                else:
                    f = fn_of(b.body)
                    out[tag] = (f, f)
    return out


def _dict_dispatch(repo, m, fn, rev) -> Dict[str, Tuple[Optional[str], Optional[str]]]:
    """The same table when run_circuit dispatches through module-level dictionaries: `TABLE[name](tableau, ops[1], ..)` with
    `name = ops[0]`, optionally remapped under `if reverse:` through a name -> name dictionary (`INV.get(name, name)`)."""
    fdicts: Dict[str, Dict[str, str]] = {}
    ndicts: Dict[str, Dict[str, str]] = {}
    for st in m.tree.body:
        if isinstance(st, ast.Assign) and len(st.targets) == 1 and isinstance(st.targets[0], ast.Name) and isinstance(st.value, ast.Dict) \
                and st.value.keys and all(isinstance(k, ast.Constant) and isinstance(k.value, str) for k in st.value.keys):
            if all(isinstance(v, ast.Name) for v in st.value.values):
                fdicts[st.targets[0].id] = {k.value: v.id for k, v in zip(st.value.keys, st.value.values)}
            elif all(isinstance(v, ast.Constant) and isinstance(v.value, str) for v in st.value.values):
                ndicts[st.targets[0].id] = {k.value: v.value for k, v in zip(st.value.keys, st.value.values)}
    loops = [l for l in fn.body if isinstance(l, ast.For)]
    if not fdicts or len(loops) != 1:
        return {}
    lp = loops[0]
    calls = [c for c in ast.walk(lp) if isinstance(c, ast.Call) and isinstance(c.func, ast.Subscript) and isinstance(c.func.value, ast.Name)
             and c.func.value.id in fdicts and isinstance(c.func.slice, ast.Name)]
    if not calls:
        return {}
    nv = calls[0].func.slice.id
    if any(c.func.slice.id != nv for c in calls):
        raise AnalysisError("run_circuit: dictionary dispatch on more than one name variable")
    opv = norm(lp.target)
    # definitions of the name variable inside the loop body, in order
    remap: Optional[Dict[str, str]] = None
    base_ok = False
    for st in lp.body:
        if isinstance(st, ast.Assign) and norm(st.targets[0]) == nv:
            if norm(st.value) == f"{opv}[0]":
                base_ok = True
            else:
                raise AnalysisError(f"run_circuit: `{short(st)}` is not the gate tag of the list entry")
        elif isinstance(st, ast.If) and any(isinstance(x, ast.Assign) and norm(x.targets[0]) == nv for x in ast.walk(st)):
            t, neg = positive(st.test)
            asg = [x for x in st.body if isinstance(x, ast.Assign) and norm(x.targets[0]) == nv]
            if norm(t) != rev or neg or st.orelse or len(asg) != 1 or len(st.body) != 1:
                raise AnalysisError(f"run_circuit: the tag is re-bound under `{short(st.test)}`, not simply under `{rev}`")
            v = asg[0].value
            if isinstance(v, ast.Call) and call_attr(v) == "get" and isinstance(v.func.value, ast.Name) and v.func.value.id in ndicts \
                    and [norm(a) for a in v.args] == [nv, nv]:
                remap = ndicts[v.func.value.id]
            else:
                raise AnalysisError(f"run_circuit: unrecognised reverse re-mapping `{short(v)}`")
    if not base_ok:
        raise AnalysisError("run_circuit: the dispatched name is not taken from the list entry's first element")
    out: Dict[str, Tuple[Optional[str], Optional[str]]] = {}
    # arity: a table called with (tableau, ops[1]) holds one-qubit gates, with (tableau, ops[1], ops[2]) two-qubit gates
    by_table: Dict[str, str] = {}
    for c in calls:
        for tag, f in fdicts[c.func.value.id].items():
            if tag in by_table:
                raise AnalysisError(f"run_circuit: tag '{tag}' appears in two dispatch tables")
            by_table[tag] = f
    for tag, f in by_table.items():
        rt = remap.get(tag, tag) if remap is not None else tag
        out[tag] = (f, by_table.get(rt))
    # an explicit no-op tag: `if name == "I": continue / pass`
    for st in lp.body:
        if isinstance(st, ast.If) and isinstance(st.test, ast.Compare) and norm(st.test.left) == nv and len(st.test.ops) == 1 \
                and isinstance(st.test.ops[0], ast.Eq) and isinstance(st.test.comparators[0], ast.Constant) \
                and all(isinstance(x, (ast.Continue, ast.Pass)) for x in st.body):
            tag = st.test.comparators[0].value
            rt = tag
            out[tag] = ("identity", "identity")
            if remap is not None and tag in remap:
                out[tag] = ("identity", by_table.get(remap[tag]))
    if remap is not None:
        for tag in remap:
            if tag not in out:
                out[tag] = (None, by_table.get(remap[tag]))
    return out


def rule_reverse_table(ctx: Ctx) -> None:
    repo = ctx.repo
    m = repo.module(TR)
    fn = repo.anchor(TR, "run_circuit")
    ctx.touch(m, fn)
    table = run_circuit_table(repo)
    if len(table) < 8:
        raise AnalysisError("run_circuit: dispatch table not recognised")
    tag_gate = dict(cl.GATE1)
    tag_gate.update({"CNOT": cl.CNOT, "CZ": cl.CZ})
    for tag, (fwd, rv) in sorted(table.items()):
        want = tag_gate.get(tag)
        if want is None:
            ctx.fail("reverse.table", m, fn, f"run_circuit handles tag '{tag}' which the model does not know", func="run_circuit",
                     construct=f"run_circuit: unknown tag {tag}")
            continue
        try:
            kf, uf = gatesum.summarise(repo, fwd) if fwd != "identity" else ("1", cl.I2)
            kr, ur = gatesum.summarise(repo, rv) if rv != "identity" else ("1", cl.I2)
        except gatesum.BadSignUpdate:
            continue  # reported by effect.derived-gate
        except (gatesum.Unsummarisable, AnalysisError) as e:
            raise AnalysisError(f"run_circuit: tag '{tag}' -> {fwd}/{rv}: {e}")
        if cl.key(uf) == cl.key(want):
            ctx.ok_abstract("reverse.table", f"'{tag}' forward -> {fwd}")
        else:
            ctx.fail("reverse.table", m, fn, f"run_circuit applies `{fwd}` for tag '{tag}', which is not the gate the tag denotes",
                     func="run_circuit", construct=f"run_circuit: '{tag}' forward -> {fwd}")
        if cl.key(cl.mm(ur, uf)) == cl.key(cl.eye(len(uf))):
            ctx.ok_abstract("reverse.table", f"'{tag}' reverse -> {rv} (inverse of {fwd})")
        else:
            ctx.fail("reverse.table", m, fn,
                     f"under reverse=True run_circuit applies `{rv}` for tag '{tag}', which is not the inverse of the forward gate `{fwd}`: "
                     f"replaying an inverse circuit backwards does not reproduce the state", func="run_circuit",
                     construct=f"run_circuit: '{tag}' reverse -> {rv}")
    # every dispatched call hands over the tableau and then the entry's qubit positions in their order: f(tableau, e[1][, e[2]])
    tabp = func_params(fn)[0]
    lp_ = next((l for l in fn.body if isinstance(l, ast.For)), None)
    if lp_ is not None:
        ev_ = norm(lp_.target)
        gate_fns = {f for pair in table.values() for f in pair if f and f != "identity"}
        for c in [x for x in ast.walk(lp_) if isinstance(x, ast.Call)]:
            nm_ = call_attr(c) or (c.func.id if isinstance(c.func, ast.Name) else None)
            is_table_call = isinstance(c.func, ast.Subscript)
            if nm_ in gate_fns or is_table_call:
                args = [norm(a) for a in c.args]
                want = [tabp] + [f"{ev_}[{i}]" for i in range(1, len(args))]
                if args == want and len(args) in (2, 3):
                    ctx.ok("reverse.table", m, c, what="arguments (tableau, positions in order)")
                else:
                    ctx.fail("reverse.table", m, c, f"run_circuit calls `{short(c)}`; a gate entry (tag, q1[, q2]) is applied as f({tabp}, {ev_}[1][, {ev_}[2]]) — "
                             f"control and target in the order of the entry", func="run_circuit", construct=f"run_circuit: arguments of {short(c.func, 30)}")
    # the list is reversed on the reverse path
    revp = [p for p in func_params(fn) if "reverse" in p][0]
    ok = False
    for n in fn.body:
        if isinstance(n, ast.If) and norm(n.test) == revp:
            ok = any(call_attr(c) in ("reverse",) or "[::-1]" in norm(st) for st in n.body for c in calls_in(st)) or \
                any("[::-1]" in norm(st) or "reversed(" in norm(st) for st in n.body)
    if ok:
        ctx.ok("reverse.table", m, fn, what="gate list reversed under reverse=True")
    else:
        ctx.fail("reverse.table", m, fn, "run_circuit(reverse=True) no longer reverses the gate list", func="run_circuit",
                 construct="run_circuit: list not reversed")


_BLOCK_SPEC = {
    # tag -> (index pattern of the tested entry, predicate on its (x, z) bits, gate arguments)
    "CNOT": (("j", "k"), lambda x, z: x == 1, ("j", "k")),                 # an X right of the diagonal is cleared by CNOT(j, k)
    "CZ": (("j", "k"), lambda x, z: x == 0 and z == 1, ("j", "k")),        # a Z right of the diagonal (no X left there) by CZ(j, k)
    "P": (("j", "j"), lambda x, z: x == 1 and z == 1, ("j",)),             # a Y on the diagonal becomes X
    "H": (("j", "j"), lambda x, z: x == 1 and z == 0, ("j",)),             # an X on the diagonal becomes Z
    "ROWSUM": (("k", "j"), lambda x, z: x == 0 and z == 1, ("j", "k")),    # a Z below the diagonal: row j multiplied into row k
}


def rule_zpivot_hadamard(ctx: Ctx) -> None:
    """inverse.zpivot-h: in the pivot-finding block a generator that has only a Z on the pivot column gets a Hadamard there when it still
    acts on a qubit to the right of the pivot — through its X part *or* its Z part.  The test therefore reads both halves of the row to the
    right of the column (x_matrix[row, j+1:n] and z_matrix[row, j+1:n]); `table[row, j+1:n]` is the X half only (table = [X | Z]), and a
    Z-type generator such as IZZ of a GHZ state is then left as it is."""
    from .. import linear
    repo = ctx.repo
    m = repo.module(STABF)
    fn = repo.anchor(STABF, "inverse_circuit")
    ctx.touch(m, fn)
    blk = [l for l in fn.body if isinstance(l, ast.For) and any((call_attr(c) or getattr(c.func, "id", "")) == "pauli_type_finder" for c in calls_in(l))]
    if len(blk) != 1 or not isinstance(blk[0].target, ast.Name):
        raise AnalysisError("inverse_circuit: the pivot-finding block was not found")
    J = blk[0].target.id
    ifs = [i for i in ast.walk(blk[0]) if isinstance(i, ast.If) and any(call_attr(c) == "append" and c.args and isinstance(c.args[0], ast.Tuple) and c.args[0].elts
                                                                        and isinstance(c.args[0].elts[0], ast.Constant) and c.args[0].elts[0].value == "H" for c in calls_in(i))
           and not any(isinstance(x, ast.If) and x is not i and any(call_attr(c) == "append" for c in calls_in(x)) for x in ast.walk(i))]
    zif = [i for i in ifs if any(isinstance(x, ast.Subscript) and isinstance(x.slice, ast.Tuple) for x in ast.walk(i.test))]
    if len(zif) != 1:
        raise AnalysisError("inverse_circuit: the Hadamard test of the Z-pivot case was not found")
    halves = set()
    for sub in [x for x in ast.walk(zif[0].test) if isinstance(x, ast.Subscript) and isinstance(x.slice, ast.Tuple) and len(x.slice.elts) == 2]:
        base = norm(sub.value).split(".")[-1]
        sl = sub.slice.elts[1]
        if not isinstance(sl, ast.Slice) or sl.lower is None:
            continue
        lo = linear.clean(linear.lin(sl.lower) or {"?": 1})
        if base == "x_matrix" and lo == {J: 1, "": 1}:
            halves.add("x")
        elif base == "z_matrix" and lo == {J: 1, "": 1}:
            halves.add("z")
        elif base == "table":
            if lo == {J: 1, "": 1}:
                halves.add("x")
            elif lo.get(J) == 1 and lo.get("", 0) == 1 and len(lo) == 3:
                halves.add("z")       # n + j + 1
    if halves >= {"x", "z"}:
        ctx.ok("inverse.zpivot-h", m, zif[0].test, what="Z pivot: X and Z parts to the right of the column are both looked at")
    else:
        ctx.fail("inverse.zpivot-h", m, zif[0].test,
                 f"inverse_circuit decides on the Hadamard of a Z pivot from `{short(zif[0].test, 70)}`, which looks at the {sorted(halves) or 'no'} part of the row only: a generator "
                 f"with Z's (or X's) to the right of the pivot in the other half keeps them, and the synthesis does not reach +Z_i (GHZ3 as XXX, ZZI, IZZ keeps IZZ)",
                 func="inverse_circuit", construct="inverse_circuit: Z-pivot Hadamard test reads one half of the row")


def rule_canonical_first(ctx: Ctx) -> None:
    """inverse.canonical-first: the block-wise synthesis assumes the reduced echelon form that canonical_form establishes (one pivot per
    row, nothing below a pivot).  inverse_circuit therefore canonicalises its input *unconditionally* before the first block: the call is a
    top-level statement of the function, in front of every loop.  A shortcut that skips it for tableaux that merely look reduced (ones on
    the X diagonal) lets entries below the diagonal through, which no later block clears."""
    repo = ctx.repo
    m = repo.module(STABF)
    fn = repo.anchor(STABF, "inverse_circuit")
    ctx.touch(m, fn)
    tab = func_params(fn)[0]
    top = [i for i, st in enumerate(fn.body) if isinstance(st, ast.Assign) and isinstance(st.value, ast.Call)
           and (call_attr(st.value) or getattr(st.value.func, "id", "")) == "canonical_form" and norm(st.targets[0]) == tab
           and st.value.args and norm(st.value.args[0]) in (tab, f"{tab}.copy()")]
    first_loop = next((i for i, st in enumerate(fn.body) if isinstance(st, (ast.For, ast.While))), None)
    anywhere = [c for c in calls_in(fn) if (call_attr(c) or getattr(c.func, "id", "")) == "canonical_form"]
    if top and first_loop is not None and top[0] < first_loop:
        ctx.ok("inverse.canonical-first", m, fn.body[top[0]], what="canonical_form applied unconditionally before the first block")
    elif anywhere:
        ctx.fail("inverse.canonical-first", m, anywhere[0],
                 f"inverse_circuit canonicalises its input only on some paths (`{short(parent(anywhere[0]), 60)}` is not an unconditional statement in front of the "
                 f"blocks): a generating set that is skipped keeps entries below its pivots, which no block clears — e.g. +XYY, +YYX, -XZX (ones on the X "
                 f"diagonal) is not mapped to |000>", func="inverse_circuit", construct="inverse_circuit: canonical_form is conditional")
    else:
        ctx.fail("inverse.canonical-first", m, fn, "inverse_circuit no longer canonicalises its input before the block-wise synthesis",
                 func="inverse_circuit", construct="inverse_circuit: canonical_form missing")


def rule_block_conditions(ctx: Ctx) -> None:
    """inverse.block-conditions: each elimination block of inverse_circuit (after the pivot-finding block) is a sweep `for j in range(n)`
    [`for k in range(j + 1, n)`] that tests one entry of the tableau and applies one operation.  Which entry (row / column pattern),
    for which values of its (x, z) bits (the test is unfolded over the four values), and with which arguments is fixed by what the
    block is for (table _BLOCK_SPEC, one reason per line)."""
    from .. import linear
    repo = ctx.repo
    m = repo.module(STABF)
    fn = repo.anchor(STABF, "inverse_circuit")
    ctx.touch(m, fn)
    tab = func_params(fn)[0]
    nq = next((norm(a.targets[0]) for a in fn.body if isinstance(a, ast.Assign) and norm(a.value) == f"{tab}.n_qubits"), None)
    if nq is None:
        raise AnalysisError("inverse_circuit: n_qubits local not found")
    seen = {}
    bad = []
    for outer in [l for l in fn.body if isinstance(l, ast.For) and isinstance(l.target, ast.Name)]:
        if any((call_attr(c) or getattr(c.func, "id", "")) == "pauli_type_finder" for c in calls_in(outer)):
            continue   # the pivot-finding block has its own rules
        ifs = [i for i in ast.walk(outer) if isinstance(i, ast.If)]
        if len(ifs) != 1:
            continue
        I = ifs[0]
        tags = [c.args[0].elts[0].value for c in calls_in(I) if call_attr(c) == "append" and c.args and isinstance(c.args[0], ast.Tuple)
                and c.args[0].elts and isinstance(c.args[0].elts[0], ast.Constant)]
        rs = [c for c in calls_in(I) if (call_attr(c) or getattr(c.func, "id", "")) == "tab_row_sum"]
        kind = tags[0] if tags else ("ROWSUM" if rs else None)
        if kind not in _BLOCK_SPEC:
            continue
        (ri, ci), pred, gargs = _BLOCK_SPEC[kind]
        J = outer.target.id
        inner = next((l for l in outer.body if isinstance(l, ast.For) and isinstance(l.target, ast.Name)), None)
        K = inner.target.id if inner is not None else None
        names = {"j": J, "k": K}
        where = f"{kind} block"
        # loop ranges
        if not (isinstance(outer.iter, ast.Call) and call_name(outer.iter) == "range" and len(outer.iter.args) == 1 and norm(outer.iter.args[0]) == nq):
            bad.append((outer, f"{where}: the sweep runs over `{short(outer.iter)}` instead of range({nq})"))
        if "k" in (ri, ci) or "k" in gargs:
            if inner is None:
                bad.append((outer, f"{where}: the inner sweep over k > j is missing"))
                continue
            it = inner.iter
            okr = isinstance(it, ast.Call) and call_name(it) == "range" and len(it.args) == 2 and linear.clean(linear.lin(it.args[0]) or {"?": 1}) == {J: 1, "": 1} \
                and norm(it.args[1]) == nq
            if not okr:
                bad.append((inner, f"{where}: the inner sweep runs over `{short(it)}` instead of range({J} + 1, {nq})"))
        # the tested entry and its truth table
        from ..core import inline_single_return_calls
        test = inline_single_return_calls(fn, I.test, m.find)      # a local `pauli_at(row, col)` helper reads like the raw bit tests
        subs = {norm(x): x for x in ast.walk(test) if isinstance(x, ast.Subscript) and isinstance(x.slice, ast.Tuple) and len(x.slice.elts) == 2}
        want_idx = f"[{names[ri]}, {names[ci]}]"
        xs = [k_ for k_ in subs if k_ == f"{tab}.x_matrix{want_idx}"]
        zs = [k_ for k_ in subs if k_ == f"{tab}.z_matrix{want_idx}"]
        others = [k_ for k_ in subs if k_ not in xs + zs]
        if others:
            bad.append((I.test, f"{where}: the test reads `{others[0]}`; the entry to look at is row {names[ri]}, column {names[ci]}"))
            continue

        def val(e, env):
            if norm(e) in env:
                return env[norm(e)]
            if isinstance(e, ast.Constant):
                return e.value
            if isinstance(e, ast.BinOp) and isinstance(e.op, (ast.Add, ast.Sub, ast.Mult, ast.BitXor, ast.BitAnd, ast.BitOr, ast.Mod)):
                l_, r_ = val(e.left, env), val(e.right, env)
                if l_ is None or r_ is None:
                    return None
                return {ast.Add: lambda: l_ + r_, ast.Sub: lambda: l_ - r_, ast.Mult: lambda: l_ * r_, ast.BitXor: lambda: l_ ^ r_,
                        ast.BitAnd: lambda: l_ & r_, ast.BitOr: lambda: l_ | r_, ast.Mod: lambda: l_ % r_}[type(e.op)]()
            if isinstance(e, ast.Subscript) and isinstance(e.value, (ast.Constant, ast.List, ast.Tuple)):
                i_ = val(e.slice, env)
                seq = e.value.value if isinstance(e.value, ast.Constant) else [val(x, env) for x in e.value.elts]
                if isinstance(i_, int) and isinstance(seq, (str, list, tuple)) and -len(seq) <= i_ < len(seq):
                    return seq[i_]
            if isinstance(e, ast.Call) and call_name(e) == "int" and len(e.args) == 1:
                return val(e.args[0], env)
            return None

        def ev(e, env):
            if isinstance(e, ast.BoolOp):
                vs = [ev(v, env) for v in e.values]
                return all(vs) if isinstance(e.op, ast.And) else any(vs)
            if isinstance(e, ast.UnaryOp) and isinstance(e.op, ast.Not):
                return not ev(e.operand, env)
            if isinstance(e, ast.Compare) and len(e.ops) == 1:
                lv, rv = val(e.left, env), val(e.comparators[0], env)
                if lv is None or rv is None:
                    raise AnalysisError(f"inverse_circuit: cannot unfold `{short(e)}`")
                if isinstance(e.ops[0], (ast.In, ast.NotIn)):
                    return (lv in rv) == isinstance(e.ops[0], ast.In)
                return {ast.Eq: lv == rv, ast.NotEq: lv != rv, ast.Gt: lv > rv, ast.Lt: lv < rv, ast.GtE: lv >= rv, ast.LtE: lv <= rv}[type(e.ops[0])]
            v_ = val(e, env)
            if v_ is not None:
                return bool(v_)
            raise AnalysisError(f"inverse_circuit: cannot unfold `{short(e)}`")
        wrong = []
        for x_ in (0, 1):
            for z_ in (0, 1):
                env = {f"{tab}.x_matrix{want_idx}": x_, f"{tab}.z_matrix{want_idx}": z_}
                if bool(ev(test, env)) != bool(pred(x_, z_)):
                    wrong.append({(0, 0): "I", (1, 0): "X", (0, 1): "Z", (1, 1): "Y"}[(x_, z_)])
        if wrong:
            bad.append((I.test, f"{where}: the test `{short(I.test, 70)}` answers wrongly when the entry at row {names[ri]}, column {names[ci]} is {', '.join(wrong)}"))
        # arguments of the operation
        if kind == "ROWSUM":
            a_ = [norm(x) for x in rs[0].args[1:3]]
        else:
            app = next(c for c in calls_in(I) if call_attr(c) == "append" and c.args and isinstance(c.args[0], ast.Tuple))
            a_ = [norm(x) for x in app.args[0].elts[1:]]
        if a_ != [names[g] for g in gargs]:
            bad.append((I, f"{where}: the operation is applied to ({', '.join(a_)}) instead of ({', '.join(names[g] for g in gargs)})"))
        seen[kind] = seen.get(kind, 0) + 1
    missing = [k for k in _BLOCK_SPEC if k not in seen]
    if missing:
        raise AnalysisError(f"inverse_circuit: elimination block(s) {missing} not recognised")
    if bad:
        for node, why in bad:
            ctx.fail("inverse.block-conditions", m, node, f"inverse_circuit, {why}", func="inverse_circuit", construct=f"inverse_circuit: {why[:70]}")
    else:
        ctx.ok("inverse.block-conditions", m, fn, what=f"{sum(seen.values())} blocks: sweep ranges, tested entry, (x, z) truth table, operation arguments")


def rule_pivot_found(ctx: Ctx) -> None:
    """inverse.pivot-found: the first block of inverse_circuit walks the columns with a running pivot row and brings a generator acting on
    column j to that row (X, else Y, else Z + Hadamard).  When no generator at or below the pivot row acts on column j none of the
    branches runs; the block must then deal with the column in some other way before moving on.  Advancing the pivot row regardless leaves
    a row without an X on the diagonal, and the CNOT / CZ / Hadamard blocks, which all assume one, return a tableau that is not +Z_i."""
    from .. import flow
    repo = ctx.repo
    m = repo.module(STABF)
    fn = repo.anchor(STABF, "inverse_circuit")
    ctx.touch(m, fn)
    loops_ = [l for l in fn.body if isinstance(l, ast.For) and any((call_attr(c) or getattr(c.func, "id", "")) == "pauli_type_finder" for c in calls_in(l))]
    if len(loops_) != 1:
        raise AnalysisError("inverse_circuit: the pivot-finding block was not found")
    lp = loops_[0]
    finder = next(s_ for s_ in lp.body if isinstance(s_, ast.Assign) and isinstance(s_.value, ast.Call)
                  and (call_attr(s_.value) or getattr(s_.value.func, "id", "")) == "pauli_type_finder")
    names = [norm(e) for e in finder.targets[0].elts] if isinstance(finder.targets[0], ast.Tuple) else []
    chain = next((s_ for s_ in lp.body if isinstance(s_, ast.If) and isinstance(s_.test, ast.Name) and s_.test.id in names), None)
    if chain is None or len(names) != 3:
        raise AnalysisError("inverse_circuit: the X / Y / Z case split of the pivot-finding block was not found")
    # does the chain end in an else that handles "no generator on this column"?
    cur, covered = chain, set()
    has_else = False
    while True:
        if isinstance(cur.test, ast.Name):
            covered.add(cur.test.id)
        if len(cur.orelse) == 1 and isinstance(cur.orelse[0], ast.If):
            cur = cur.orelse[0]
            continue
        has_else = bool(cur.orelse)
        break
    adv = [s_ for s_ in lp.body if isinstance(s_, (ast.Assign, ast.AugAssign)) and "pivot[0]" in norm(s_.targets[0] if isinstance(s_, ast.Assign) else s_.target)]
    if has_else or not adv:
        ctx.ok("inverse.pivot-found", m, chain, what="a column without a generator at or below the pivot row is handled explicitly")
    else:
        ctx.fail("inverse.pivot-found", m, adv[0],
                 f"inverse_circuit: when no generator at or below the pivot row acts on column j (none of `{'`, `'.join(sorted(covered))}` is non-empty) the "
                 f"block does nothing and `{short(adv[0])}` still advances: that row never gets an X on the diagonal and the later blocks return a tableau "
                 f"that is not +Z_i (witness/C11_inverse_circuit_no_pivot_column.py)", func="inverse_circuit",
                 construct="inverse_circuit: pivot row advances when the column has no pivot")


def rule_graph_tableau_whole(ctx: Ctx) -> None:
    """graph.whole: the Clifford tableau of a graph state has qubit i = i-th node of the graph.  get_clifford_tableau_from_graph must build
    it from the stabilizer tableau of the *whole* graph on every path; assembling it from per-component tableaux with a tensor product
    lists the qubits component by component, i.e. it is the tableau of a relabelled graph whenever a component's nodes are not consecutive."""
    repo = ctx.repo
    RC = "graphiq/backends/stabilizer/functions/rep_conversion.py"
    m = repo.module(RC)
    fn = repo.anchor(RC, "get_clifford_tableau_from_graph")
    ctx.touch(m, fn)
    g = func_params(fn)[0]
    defs = {}
    for a in ast.walk(fn):
        if isinstance(a, ast.Assign) and len(a.targets) == 1 and isinstance(a.targets[0], ast.Name):
            defs.setdefault(a.targets[0].id, []).append(a.value)
    rets = [r for r in ast.walk(fn) if isinstance(r, ast.Return) and r.value is not None]
    if not rets:
        raise AnalysisError("get_clifford_tableau_from_graph: no return")

    def whole(e, depth=0) -> bool:
        if depth > 4:
            return False
        if isinstance(e, ast.Name) and e.id in defs:
            return all(whole(v, depth + 1) for v in defs[e.id])
        if isinstance(e, ast.Call):
            cn = (call_name(e) or "").split(".")[-1]
            if cn in ("clifford_from_stabilizer", "CliffordTableau") and e.args:
                return whole(e.args[0], depth + 1)
            if cn == "get_stabilizer_tableau_from_graph" and e.args:
                return norm(e.args[0]) == g
        return False
    for r in rets:
        if whole(r.value):
            ctx.ok("graph.whole", m, r, what="tableau built from the stabilizer tableau of the whole graph")
        elif any(isinstance(c, ast.Call) and (call_name(c) or "").split(".")[-1] in ("tensor", "block_diag", "kron") for c in ast.walk(r.value)) \
                or any(isinstance(c, ast.Call) and (call_name(c) or "").split(".")[-1] in ("connected_components", "subgraph") for c in ast.walk(fn)):
            ctx.fail("graph.whole", m, r,
                     f"get_clifford_tableau_from_graph returns `{short(r.value, 60)}`, assembled from parts of the graph: the qubits then follow the order of "
                     f"the parts, not the graph's node order (nodes 0,1,2 with the single edge (0,2) give XZI, ZXI, IIX instead of XIZ, IXI, ZIX)",
                     func="get_clifford_tableau_from_graph", construct="get_clifford_tableau_from_graph: built from parts of the graph")
        else:
            raise AnalysisError(f"get_clifford_tableau_from_graph: cannot trace `{short(r.value, 60)}` back to the graph's stabilizer tableau")


def _strip_int(e: ast.AST) -> str:
    if isinstance(e, ast.Call) and isinstance(e.func, ast.Name) and e.func.id == "int" and len(e.args) == 1:
        return norm(e.args[0])
    return norm(e)


def rule_emit_mirror(ctx: Ctx) -> None:
    repo = ctx.repo
    m = repo.module(STABF)
    fn = repo.anchor(STABF, "inverse_circuit")
    ctx.touch(m, fn)
    table = run_circuit_table(repo)
    if len(table) < 8 or any(f is None for f, _ in table.values()):
        raise AnalysisError("run_circuit: dispatch table not recognised (emit.mirror needs tag -> function)")
    tab = func_params(fn)[0]
    n = 0
    for blk in [x for x in ast.walk(fn) if hasattr(x, "body") and isinstance(getattr(x, "body"), list)]:
        for body in (blk.body, getattr(blk, "orelse", [])):
            emits = []
            trans = []
            for st in body:
                if isinstance(st, ast.Expr) and isinstance(st.value, ast.Call) and call_attr(st.value) == "append" \
                        and isinstance(st.value.args[0], ast.Tuple) and isinstance(st.value.args[0].elts[0], ast.Constant):
                    t = st.value.args[0]
                    emits.append((st, t.elts[0].value, [_strip_int(e) for e in t.elts[1:]]))
                if isinstance(st, ast.Assign) and norm(st.targets[0]) == tab and isinstance(st.value, ast.Call) \
                        and (call_name(st.value) or "").startswith("transform."):
                    trans.append((st, call_attr(st.value), [_strip_int(a) for a in st.value.args[1:]]))
            if not emits and not trans:
                continue
            n += 1
            if len(emits) != len(trans):
                node = (emits or trans)[0][0]
                ctx.fail("emit.mirror", m, node,
                         f"inverse_circuit block emits {[e[1] for e in emits]} but transforms the tableau with {[t[1] for t in trans]}: the "
                         f"returned gate list no longer describes what was done to the tableau", func="inverse_circuit",
                         construct=f"inverse_circuit: emits {[e[1] for e in emits]} vs applies {[t[1] for t in trans]}")
                continue
            for (se, tag, eargs), (stt, f, targs) in zip(emits, trans):
                fwd = table.get(tag, (None, None))[0]
                if fwd == f and eargs == targs:
                    ctx.ok("emit.mirror", m, se, what=f"'{tag}' mirrored by transform.{f}")
                else:
                    ctx.fail("emit.mirror", m, se,
                             f"inverse_circuit emits ('{tag}', {', '.join(eargs)}) but applies transform.{f}({', '.join(targs)}) to the tableau; "
                             f"run_circuit maps '{tag}' to {fwd}", func="inverse_circuit",
                             construct=f"inverse_circuit: '{tag}'({', '.join(eargs)}) vs {f}({', '.join(targs)})")
    if n == 0:
        raise AnalysisError("emit.mirror: no emitting block found in inverse_circuit")


def rule_replay(ctx: Ctx) -> None:
    repo = ctx.repo
    m = repo.module(RC)
    fn = repo.anchor(RC, "clifford_from_stabilizer")
    ctx.touch(m, fn)
    rc = [c for c in calls_in(fn) if call_attr(c) == "run_circuit"]
    inv = [n for n in ast.walk(fn) if isinstance(n, ast.Assign) and isinstance(n.value, ast.Call) and call_attr(n.value) == "inverse_circuit"]
    k0 = [n for n in ast.walk(fn) if isinstance(n, ast.Assign) and isinstance(n.value, ast.Call) and call_attr(n.value) == "create_n_ket0_state"]
    good = len(rc) == 1 and inv and k0
    if good:
        circ = norm(inv[0].targets[0].elts[1]) if isinstance(inv[0].targets[0], ast.Tuple) else None
        r = get_kw(rc[0], "reverse")
        good = norm(rc[0].args[0]) == norm(k0[0].targets[0]) and norm(rc[0].args[1]) == circ and isinstance(r, ast.Constant) and r.value is True
    if good:
        ctx.ok("reverse.table", m, rc[0], what="clifford_from_stabilizer replays the inverse circuit backwards from |0..0>")
    else:
        ctx.fail("reverse.table", m, fn, "clifford_from_stabilizer must run the gate list returned by inverse_circuit with reverse=True on "
                                         "create_n_ket0_state(n)", func="clifford_from_stabilizer", construct="clifford_from_stabilizer: replay shape")
    # the replayed tableau is returned as it is: overwriting one of its halves afterwards (the caller's generators, say) leaves
    # destabilizers that belong to a different generating set, i.e. a table that is no longer symplectic
    if len(rc) == 1:
        held = set()
        st_ = rc[0]
        while st_ is not None and not isinstance(st_, ast.stmt):
            st_ = parent(st_)
        if isinstance(st_, ast.Assign):
            held = {t.id for t in st_.targets if isinstance(t, ast.Name)}
        edits = []
        for a in ast.walk(fn):
            tg = a.targets if isinstance(a, ast.Assign) else ([a.target] if isinstance(a, ast.AugAssign) else [])
            for t in tg:
                b = t
                while isinstance(b, ast.Subscript):
                    b = b.value
                if isinstance(b, ast.Attribute) and isinstance(b.value, ast.Name) and b.value.id in held and a.lineno > st_.lineno:
                    edits.append(a)
        if edits:
            ctx.fail("reverse.table", m, edits[0],
                     f"clifford_from_stabilizer edits the replayed tableau after the replay (`{short(edits[0], 70)}`): the destabilizers were "
                     f"synthesised for the generators the replay produced; with another generating set written over the stabilizer half, "
                     f"destabilizer i no longer anticommutes with exactly stabilizer i — the result is not a valid Clifford tableau",
                     func="clifford_from_stabilizer", construct="clifford_from_stabilizer: replayed tableau edited before it is returned")
        else:
            ctx.ok("reverse.table", m, rc[0], what="replayed tableau returned untouched")
    g = repo.anchor(RC, "get_clifford_tableau_from_graph")
    if any(call_attr(c) == "clifford_from_stabilizer" for c in calls_in(g)) and any(call_attr(c) == "get_stabilizer_tableau_from_graph" for c in calls_in(g)):
        ctx.ok("reverse.table", m, g, what="graph -> stabilizer tableau -> Clifford tableau")
    else:
        ctx.fail("reverse.table", m, g, "get_clifford_tableau_from_graph no longer goes through clifford_from_stabilizer", func="get_clifford_tableau_from_graph")


INVERSE_BLOCKS = [{"H"}, {"CNOT"}, {"CZ"}, {"P"}, {"H"}, {"X"}]


def rule_inverse_blocks(ctx: Ctx) -> None:
    """inverse.blocks: inverse_circuit reduces the canonical-form tableau by complete elimination passes in the order
    Hadamard (pivots) - CNOT (X right of the diagonal) - CZ (Z right of the diagonal, on the tableau *after* all CNOTs) - P - H - X
    (signs).  Each pass is its own sweep over the whole table: merging two passes into one `if / elif` sweep skips the second
    elimination wherever both conditions hold (a Y, or a Z the CNOT itself creates), and reordering them breaks the echelon
    argument each pass relies on."""
    repo = ctx.repo
    m = repo.module(STABF)
    fn = repo.anchor(STABF, "inverse_circuit")
    ctx.touch(m, fn)
    seq = []
    for st in fn.body:
        if not isinstance(st, (ast.For, ast.While)):
            continue
        tags = set()
        for c in calls_in(st):
            if call_attr(c) == "append" and c.args and isinstance(c.args[0], ast.Tuple) and c.args[0].elts and isinstance(c.args[0].elts[0], ast.Constant):
                tags.add(c.args[0].elts[0].value)
        if tags:
            seq.append((st, tags))
    got = [t for _, t in seq]
    # the sign pass reads the sign vector as it is when it runs; multiplying generators afterwards (tab_row_sum: the "Eliminate Zs" row
    # reduction) changes signs again, so nothing that touches the tableau may follow it
    xs = [st for st, t in seq if t == {"X"}]
    if xs:
        # every path reaches the sign pass: a return before it hands back a tableau whose signs were never corrected (a computational basis
        # state with a qubit in |1> "has nothing to do" in the Clifford blocks and still needs its X)
        before = fn.body[:fn.body.index(xs[-1])]
        early = [r for st in before for r in ast.walk(st) if isinstance(r, ast.Return)]
        if early:
            g = parent(early[0])
            ctx.fail("inverse.blocks", m, early[0],
                     f"inverse_circuit returns under `{short(g.test, 60) if isinstance(g, ast.If) else 'an earlier branch'}` before the sign pass: the X corrections for the "
                     f"generators with a minus sign are never emitted on that path, so the returned gates map e.g. -Z (the state |1>) to itself instead of |0>",
                     func="inverse_circuit", construct="inverse_circuit: return before the sign pass")
            return
        after = fn.body[fn.body.index(xs[-1]) + 1:]
        late = [c for st in after for c in calls_in(st) if (call_attr(c) or getattr(c.func, "id", "")) in ("tab_row_sum", "row_sum", "tab_row_swap")
                or (call_name(c) or "").startswith("transform.")]
        if late:
            ctx.fail("inverse.blocks", m, late[0],
                     f"inverse_circuit reads the signs and emits its X corrections before `{short(late[0], 60)}` (line {late[0].lineno}) has run: a row that is still "
                     f"±Z_j Z_k when the signs are read gets its X on the wrong qubit, and the row reduction that follows changes the signs once more",
                     func="inverse_circuit", construct="inverse_circuit: tableau modified after the sign pass")
            return
    if got == INVERSE_BLOCKS:
        ctx.ok("inverse.blocks", m, fn, what="passes H, CNOT, CZ, P, H, X each in its own sweep, in this order; nothing touches the tableau after the sign pass")
        return
    merged = [(st, t) for st, t in seq if len(t) > 1]
    if merged:
        st, t = merged[0]
        ctx.fail("inverse.blocks", m, st,
                 f"inverse_circuit emits {sorted(t)} from one sweep: the {sorted(t)[-1]} elimination must be a complete pass over the table as it is after "
                 f"the whole {sorted(t)[0]} pass; merged into one `if / elif` sweep a position that needs both gates gets only the first, a Z stays "
                 f"right of the diagonal, and the returned gate list no longer maps the state to |0...0>", func="inverse_circuit",
                 construct=f"inverse_circuit: passes {sorted(t)} merged into one sweep")
    else:
        ctx.fail("inverse.blocks", m, fn, f"inverse_circuit runs its elimination passes in the order {[sorted(t) for t in got]}; the reduction needs "
                                          f"{[sorted(t) for t in INVERSE_BLOCKS]}", func="inverse_circuit", construct="inverse_circuit: order of elimination passes")


def rule_ctor_phase_source(ctx: Ctx) -> None:
    """ctor.phase-source: CliffordTableau(<StabilizerTableau>) completes the generators with destabilizers through clifford_from_stabilizer;
    the sign vector of the new tableau (2n entries: destabilizer signs, then the stabilizer signs) is the one of *that* converted tableau.
    The n-entry sign vector of the stabilizer tableau handed in does not fit (_initialize_phase silently falls back to zeros for a vector
    of the wrong length), so every minus sign of the state is lost."""
    repo = ctx.repo
    rel = "graphiq/backends/stabilizer/clifford_tableau.py"
    m = repo.module(rel)
    fn = repo.anchor(rel, "CliffordTableau.__init__")
    ctx.touch(m, fn)
    D = func_params(fn)[1]
    n = 0
    for i in [x for x in ast.walk(fn) if isinstance(x, ast.If)]:
        t = i.test
        if not (isinstance(t, ast.Call) and call_name(t) == "isinstance" and len(t.args) == 2 and norm(t.args[0]) == D and norm(t.args[1]).endswith("StabilizerTableau")):
            continue
        conv = [norm(a.targets[0]) for st in i.body for a in ast.walk(st) if isinstance(a, ast.Assign) and isinstance(a.value, ast.Call) and call_attr(a.value) == "clifford_from_stabilizer"]
        if not conv:
            raise AnalysisError("CliffordTableau.__init__: the StabilizerTableau branch does not convert through clifford_from_stabilizer")
        n += 1
        stores = []
        for st in i.body:
            for a in ast.walk(st):
                if isinstance(a, ast.Assign) and any(norm(t_) in ("self._phase", "self.phase") for t_ in a.targets):
                    stores.append((a, a.value))
                if isinstance(a, ast.Call) and call_name(a) == "self._initialize_phase" and a.args:
                    stores.append((a, a.args[0]))
        bad = [(node, v) for node, v in stores if not any(isinstance(x, ast.Name) and x.id in conv for x in ast.walk(v))]
        if bad:
            node, v = bad[0]
            ctx.fail("ctor.phase-source", m, node,
                     f"CliffordTableau.__init__ takes the sign vector of a tableau built from a StabilizerTableau from `{short(v)}` instead of the converted tableau "
                     f"`{conv[0]}`: the stabilizer tableau's vector has n entries, the Clifford tableau needs 2n (and _initialize_phase replaces a vector of the wrong "
                     f"length by zeros), so |1>, -|+> or a GHZ state with -XXX become their all-plus counterparts", func="CliffordTableau.__init__",
                     construct="CliffordTableau.__init__: signs not taken from the converted tableau")
        else:
            ctx.ok("ctor.phase-source", m, i, what="signs of a tableau built from stabilizers come from the converted Clifford tableau")
    if n == 0:
        raise AnalysisError("CliffordTableau.__init__: no branch for StabilizerTableau input found")


def run(ctx: Ctx) -> None:
    rule_ctor_phase_source(ctx)
    from ..rules import tableau as _tbx
    _tbx.rule_xz_rowops(ctx, ["graphiq/backends/stabilizer/functions/linalg.py", "graphiq/backends/stabilizer/functions/stabilizer.py"])
    from ..rules import bitform as _bitform
    _bitform.arm(ctx)
    rule_inverse_blocks(ctx)
    repo = ctx.repo
    rule_reverse_table(ctx)
    gatesum.rule_derived_gates(ctx)
    rule_emit_mirror(ctx)
    rule_replay(ctx)
    rule_graph_tableau_whole(ctx)
    rule_pivot_found(ctx)
    rule_block_conditions(ctx)
    rule_canonical_first(ctx)
    rule_zpivot_hadamard(ctx)
    from ..rules import echelon as _echelon
    _echelon.rule_elim_direction(ctx)
    tm = repo.module(TR)
    handled = tables.handled_tags_chain(repo, tm, repo.anchor(TR, "run_circuit"))
    try:
        handled = set(handled) | {t for t, (f, _) in run_circuit_table(repo).items() if f is not None}  # dictionary dispatch
    except AnalysisError:
        pass
    tables.rule_vocab(ctx, "vocab.gates", [(STABF, "inverse_circuit")], "run_circuit", handled)
    tableau.rule_rowops(ctx)
    from ..rules import effects, loops
    loops.rule_pivot_choice(ctx, STABF)
    from ..rules import memo
    memo.rule_memo_sound(ctx, [RC, STABF, TR])
    memo.rule_falsy_zero(ctx, [RC, STABF, TR])
    memo.rule_arg_names(ctx, [RC, STABF, TR])
    memo.rule_fixed_width(ctx, [RC, STABF, TR])
    memo.rule_paste_incomplete(ctx, [RC, STABF, TR])
    memo.rule_negative_start(ctx, [RC, STABF, TR])
    memo.rule_elim_no_pivot(ctx, [RC, STABF, TR])
    memo.rule_subject_drift(ctx, [RC, STABF, TR])
    memo.rule_isinstance_on_class(ctx, [RC, STABF, TR])
    memo.rule_zip_truncation(ctx, [RC, STABF, TR])
    memo.rule_search_fallthrough(ctx, [RC, STABF, TR])
    memo.rule_zip_pairing(ctx, [RC, STABF, TR])
    effects.rule_consumed_tableau(ctx, [RC, STABF, "graphiq/backends/stabilizer/functions/metric.py"])
    ctx.floor("reverse.table", 18)
    ctx.floor("emit.mirror", 6)


def _swap_blocks(src: str) -> str:
    a = src.find("    # CNOT block\n")
    b = src.find("    # CZ block\n")
    c = src.find("    # Phase gate block\n")
    if min(a, b, c) < 0 or not a < b < c:
        raise LookupError("knock-out anchor text missing")
    return src[:a] + src[b:c] + src[a:b] + src[c:]


def _edit_pauli_at(src: str) -> str:
    """the CNOT block's raw bit test becomes a call of a local helper that names the Pauli, and only X is accepted (Y is missed)"""
    a = "    # CNOT block\n    for j in range(n_qubits):\n        for k in range(j + 1, n_qubits):\n            if tableau.x_matrix[j, k] == 1:\n"
    if src.count(a) != 1:
        raise LookupError("CNOT block")
    return src.replace(a, "    def pauli_at(row, col):\n        return \"IZXY\"[2 * tableau.x_matrix[row, col] + tableau.z_matrix[row, col]]\n\n"
                          "    # CNOT block\n    for j in range(n_qubits):\n        for k in range(j + 1, n_qubits):\n            if pauli_at(j, k) == \"X\":\n")


KNOCKOUTS = [
    Knockout("clifford-ctor-signs-from-the-stabilizer-vector", "graphiq/backends/stabilizer/clifford_tableau.py", sub_once("            if isinstance(data, StabilizerTableau):\n                data = stab.clifford_from_stabilizer(data)\n", "            if isinstance(data, StabilizerTableau):\n                clifford = stab.clifford_from_stabilizer(data)\n                self._table = np.copy(clifford.table)\n                self.n_qubits = clifford.n_qubits\n                self._initialize_phase(data.phase)\n                self.shape = (2 * self.n_qubits, 2 * self.n_qubits)\n                return\n"), "ctor.phase-source", "2n"),
    Knockout("inverse-circuit-early-return-for-z-only-states", STABF, sub_nth("    # Hadamard block\n    for j in range(n_qubits):", "    if not np.any(tableau.x_matrix):\n        return tableau, circuit_list\n\n    # Hadamard block\n    for j in range(n_qubits):", 0), "inverse.blocks", "before the sign pass"),
    Knockout("z-pivot-hadamard-test-x-half-only", STABF, sub_once("            if np.any(tableau.x_matrix[pivot[0], j + 1 : n_qubits]) or np.any(\n                tableau.z_matrix[pivot[0], j + 1 : n_qubits]\n            ):", "            if np.any(tableau.table[pivot[0], j + 1 : n_qubits]):"), "inverse.zpivot-h", "one half"),
    Knockout("sign-pass-before-last-row-reduction", STABF, sub_once("    # Eliminate Zs\n    for j in range(n_qubits):\n        for k in range(j + 1, n_qubits):\n            if tableau.x_matrix[k, j] == 0 and tableau.z_matrix[k, j] == 1:\n                tableau = tab_row_sum(tableau, j, k)\n\n    # Eliminate phase\n    for i in np.nonzero(tableau.phase)[0]:\n        tableau = transform.x_gate(tableau, i)\n        circuit_list.append((\"X\", int(i)))\n", "    # Eliminate phase\n    for i in np.nonzero(tableau.phase)[0]:\n        tableau = transform.x_gate(tableau, i)\n        circuit_list.append((\"X\", int(i)))\n\n    # Eliminate Zs\n    for j in range(n_qubits):\n        for k in range(j + 1, n_qubits):\n            if tableau.x_matrix[k, j] == 0 and tableau.z_matrix[k, j] == 1:\n                tableau = tab_row_sum(tableau, j, k)\n"), "inverse.blocks", "after the sign pass"),
    Knockout("canonical-form-skipped-for-unit-diagonal", STABF, sub_once("    tableau = canonical_form(tableau)\n", "    if not np.all(np.diag(tableau.x_matrix) == 1):\n        tableau = canonical_form(tableau)\n"), "inverse.canonical-first", "conditional"),
    Knockout("cnot-block-helper-misses-y", STABF, _edit_pauli_at, "inverse.block-conditions", "CNOT block"),
    Knockout("run-circuit-cnot-arguments-swapped", TR, sub_once("            tableau = cnot_gate(tableau, ops[1], ops[2])", "            tableau = cnot_gate(tableau, ops[2], ops[1])"), "reverse.table", "arguments"),
    Knockout("cz-block-condition-or", STABF, sub_once("            if tableau.x_matrix[j, k] == 0 and tableau.z_matrix[j, k] == 1:\n                circuit_list.append((\"CZ\", j, k))", "            if tableau.x_matrix[j, k] == 0 or tableau.z_matrix[j, k] == 1:\n                circuit_list.append((\"CZ\", j, k))"), "inverse.block-conditions", "CZ block"),
    Knockout("cnot-block-inner-range", STABF, sub_nth("        for k in range(j + 1, n_qubits):\n            if tableau.x_matrix[j, k] == 1:", "        for k in range(j, n_qubits):\n            if tableau.x_matrix[j, k] == 1:", 0), "inverse.block-conditions", "CNOT block"),
    Knockout("hadamard-block-on-y", STABF, sub_once("        if tableau.x_matrix[j, j] == 1 and tableau.z_matrix[j, j] == 0:", "        if tableau.x_matrix[j, j] == 1 and tableau.z_matrix[j, j] == 1:") if False else sub_once("        if tableau.x_matrix[j, j] == 1 and tableau.z_matrix[j, j] == 0:\n            circuit_list.append((\"H\", j))", "        if tableau.x_matrix[j, j] == 1:\n            circuit_list.append((\"H\", j))"), "inverse.block-conditions", "H block"),
    Knockout("graph-tableau-per-component", "graphiq/backends/stabilizer/functions/rep_conversion.py", sub_once("    tableau = get_stabilizer_tableau_from_graph(graph)\n    return clifford_from_stabilizer(tableau)\n", "    parts = [clifford_from_stabilizer(get_stabilizer_tableau_from_graph(graph.subgraph(c))) for c in nx.connected_components(graph)]\n    if len(parts) > 1:\n        return sfc.tensor(parts)\n    tableau = get_stabilizer_tableau_from_graph(graph)\n    return clifford_from_stabilizer(tableau)\n"), "graph.whole", "parts of the graph"),
    Knockout("prim-p-sign-or", TR, sub_nth("    tableau.phase = tableau.phase ^ multiply_columns(\n        tableau.table, tableau.table, qubit_position, n_qubits + qubit_position\n    )\n    # update the rest of the tableau\n    tableau.table = add_columns(", "    tableau.phase = tableau.phase ^ tableau.table[:, qubit_position]\n    # update the rest of the tableau\n    tableau.table = add_columns(", 0), "prim.formula", "phase_gate"),
    Knockout("replay-overwritten", RC, sub_once("    return transform.run_circuit(clifford_tableau, circuit, reverse=True)", "    clifford_tableau = transform.run_circuit(clifford_tableau, circuit, reverse=True)\n    clifford_tableau.stabilizer = stabilizer_tableau.table\n    return clifford_tableau"), "reverse.table", "edited before it is returned"),
    Knockout("cz-before-cnot", STABF, _swap_blocks, "inverse.blocks", "order of elimination passes"),
    Knockout("clifford-cache-without-signs", RC, sub_once("def clifford_from_stabilizer(stabilizer_tableau):", "_CT_CACHE = {}\n\n\ndef clifford_from_stabilizer_cached(stabilizer_tableau):\n    key = (stabilizer_tableau.n_qubits, stabilizer_tableau.table.tobytes())\n    if key not in _CT_CACHE:\n        _CT_CACHE[key] = clifford_from_stabilizer(stabilizer_tableau)\n    return _CT_CACHE[key].copy()\n\n\ndef clifford_from_stabilizer(stabilizer_tableau):"), "memo.sound", "key does not determine"),
    Knockout("pivot-first-z", STABF, sub_once("tab_row_swap(tableau, pivot[0], z_list[-1])", "tab_row_swap(tableau, pivot[0], z_list[0])"), "pivot.choice", "Z-only pivot"),
    Knockout("consumed-input", RC, sub_once("    _, circuit = inverse_circuit(stabilizer_tableau.copy())", "    _, circuit = inverse_circuit(stabilizer_tableau)"),
             "effect.consumed-tableau", "clifford_from_stabilizer", on_fixed_only=True),
    Knockout("reverse-P", TR, sub_once("            if reverse:\n                tableau = phase_dagger_gate(tableau, ops[1])\n            else:\n                tableau = phase_gate(tableau, ops[1])",
                                        "            if reverse:\n                tableau = phase_gate(tableau, ops[1])\n            else:\n                tableau = phase_gate(tableau, ops[1])"),
             "reverse.table", "'P' reverse"),
    Knockout("forward-Y", TR, sub_once('        elif ops[0] == "Y":\n            tableau = y_gate(tableau, ops[1])', '        elif ops[0] == "Y":\n            tableau = x_gate(tableau, ops[1])'),
             "reverse.table", "'Y' forward"),
    Knockout("reverse-no-list-reverse", TR, sub_once("    if reverse:\n        circuit_list.reverse()\n", ""), "reverse.table", "not reversed"),
    Knockout("mirror-wrong-index", STABF, sub_once('                circuit_list.append(("CNOT", j, k))', '                circuit_list.append(("CNOT", k, j))'), "emit.mirror", "CNOT"),
    Knockout("mirror-missing-emit", STABF, sub_once('            circuit_list.append(("P", j))\n', ''), "emit.mirror", "phase_gate"),
    Knockout("mirror-wrong-tag", STABF, sub_once('                circuit_list.append(("CZ", j, k))', '                circuit_list.append(("CNOT", j, k))'), "emit.mirror", "control_z_gate"),
    Knockout("vocab-new-tag", STABF, sub_once('        circuit_list.append(("X", int(i)))', '        circuit_list.append(("S", int(i)))'), "vocab.gates", "'S'"),
    Knockout("replay-forward", RC, sub_once("return transform.run_circuit(clifford_tableau, circuit, reverse=True)", "return transform.run_circuit(clifford_tableau, circuit, reverse=False)"),
             "reverse.table", "clifford_from_stabilizer"),
    Knockout("rowops-add-rows", STABF, sub_once("                tableau = tab_row_sum(tableau, j, k)\n\n    # Eliminate phase", "                tableau.z_matrix = add_rows(tableau.z_matrix, j, k)\n\n    # Eliminate phase"),
             "own.rowops", "add_rows"),
]
