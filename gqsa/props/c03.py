"""C03 — emitter budget / height function (narrow structural claim, DESIGN §5.3)."""
from __future__ import annotations

import ast

from .. import flow, linear
from ..core import AnalysisError, call_attr, call_name, calls_in, func_params, get_kw, norm, parent, qualname, short, symbolic_return
from ..driver import Knockout, sub_nth, sub_once
from ..report import Ctx

TRS = "graphiq/solvers/time_reversed_solver.py"
HEIGHT = "graphiq/backends/stabilizer/functions/height.py"
STABF_ = "graphiq/backends/stabilizer/functions/stabilizer.py"

EXPLANATION = (
    "Narrow structural claim. In TimeReversedSolver.solve the main loop runs j over range(n_photon, 0, -1) and calls "
    "_add_photon_absorption(circuit, tableau, j - 1) unconditionally exactly once per iteration; _add_photon_absorption "
    "calls _add_emitter_photon_cnot exactly once on every path; the package has no other call site of the emission helper "
    "(flow.exactly-once: 'emits each photon exactly once'). self.n_emitter is determine_n_emitters(tableau) = "
    "max(height_func_list(rref(tableau))), the circuit is created with n_emitter=self.n_emitter and the solver never calls a "
    "register-adding API (provenance of the emitter budget). height_func_list re-reduces its input to echelon gauge before "
    "reading leftmost indices (a necessary condition of gauge independence) and computes, in linear normal form, "
    "n - (k + 1) - #{generators whose leftmost index > k} (height.formula). Does not decide that this equals the bipartite "
    "entropy, gauge independence in full, or minimality.")


def rule_height_max_whole(ctx: Ctx) -> None:
    """height.max-whole: height_max is the maximum of the height function over *every* cut position (that is the emitter budget).  It takes
    max over the whole dictionary height_dict returns — `h[max(h, key=h.get)]`, `max(h.values())`, `max(h[k] for k in h)` — not over a range
    of positions: the profile of a pure state is not mirror symmetric in the emission order (only S(A) = S(complement of A) holds, and the
    complement of a prefix is a suffix, not a prefix)."""
    repo = ctx.repo
    HF = "graphiq/backends/stabilizer/functions/height.py"
    m = repo.module(HF)
    fn = repo.anchor(HF, "height_max")
    ctx.touch(m, fn)
    hd = [a.targets[0].id for a in ast.walk(fn) if isinstance(a, ast.Assign) and isinstance(a.value, ast.Call) and (call_attr(a.value) or getattr(a.value.func, "id", "")) == "height_dict"
          and isinstance(a.targets[0], ast.Name)]
    if len(hd) != 1:
        raise AnalysisError("height_max: the dictionary returned by height_dict was not found")
    H = hd[0]
    # every value height_max returns is computed from the height function: a shortcut that answers from the shape of the graph alone (a
    # constant for trees, say) ignores the emission order, on which the cut ranks depend
    derived = {H}
    grew = True
    while grew:
        grew = False
        for a in ast.walk(fn):
            if isinstance(a, ast.Assign) and isinstance(a.targets[0], ast.Name) and a.targets[0].id not in derived \
                    and any(isinstance(x, ast.Name) and x.id in derived for x in ast.walk(a.value)):
                derived.add(a.targets[0].id)
                grew = True
    for r in [x for x in ast.walk(fn) if isinstance(x, ast.Return)]:
        if r.value is None or not any(isinstance(x, ast.Name) and x.id in derived for x in ast.walk(r.value)):
            g = parent(r)
            ctx.fail("height.max-whole", m, r,
                     f"height_max returns `{short(r.value) if r.value is not None else 'None'}`" + (f" under `{short(g.test, 70)}`" if isinstance(g, ast.If) else "") +
                     f" without consulting the height function: the emitter budget is the largest cut rank along the *given* vertex order (the path 0-2, 2-1, 1-3 "
                     f"is a tree and needs 2), which no property of the unordered graph determines", func="height_max",
                     construct="height_max: value not computed from the height function")
            return
    mx = [c for c in ast.walk(fn) if isinstance(c, ast.Call) and isinstance(c.func, ast.Name) and c.func.id == "max" and c.args]
    if len(mx) != 1:
        raise AnalysisError("height_max: a single max(...) expected")
    a0 = mx[0].args[0]
    whole = norm(a0) in (H, f"{H}.values()", f"{H}.keys()", f"list({H}.values())") or \
        (isinstance(a0, (ast.GeneratorExp, ast.ListComp)) and len(a0.generators) == 1 and not a0.generators[0].ifs
         and norm(a0.generators[0].iter) in (H, f"{H}.values()", f"{H}.keys()", f"{H}.items()"))
    if whole:
        ctx.ok("height.max-whole", m, mx[0], what="maximum over every cut position")
    else:
        ctx.fail("height.max-whole", m, mx[0],
                 f"height_max takes `{short(mx[0], 70)}`: the maximum over part of the cut positions; the widest cut may lie anywhere along the emission order "
                 f"(the 7-vertex graph 0-1, 1-2, 2-3, 3-4, 3-5, 4-5, 4-6, 5-6 has its maximum 2 past the midpoint), so the emitter budget is under-reported",
                 func="height_max", construct="height_max: maximum over a subset of the positions")


def run(ctx: Ctx) -> None:
    rule_height_max_whole(ctx)
    from .c02 import rule_index_space
    rule_index_space(ctx)   # the deterministic solver behind this property: emitter register numbers vs tableau positions
    from ..rules import tableau as _tbx
    _tbx.rule_xz_rowops(ctx, ["graphiq/backends/stabilizer/functions/linalg.py", "graphiq/backends/stabilizer/functions/stabilizer.py"])
    from ..rules import echelon as _echelon
    _echelon.arm(ctx)
    # generic rules first: an undecidable clause further down (AnalysisError) must not hide their findings
    from ..rules import memo
    _m3 = [HEIGHT, TRS, "graphiq/backends/stabilizer/functions/stabilizer.py", "graphiq/utils/relabel_module.py"]
    memo.rule_memo_sound(ctx, _m3)
    memo.rule_falsy_zero(ctx, _m3)
    memo.rule_arg_names(ctx, _m3)
    memo.rule_fixed_width(ctx, _m3)
    memo.rule_paste_incomplete(ctx, _m3)
    memo.rule_negative_start(ctx, _m3)
    memo.rule_elim_no_pivot(ctx, _m3)
    memo.rule_subject_drift(ctx, _m3)
    memo.rule_isinstance_on_class(ctx, _m3)
    memo.rule_zip_truncation(ctx, _m3)
    memo.rule_search_fallthrough(ctx, _m3)
    memo.rule_zip_pairing(ctx, _m3)
    repo = ctx.repo
    m = repo.module(TRS)
    sv = repo.anchor(TRS, "TimeReversedSolver.solve")
    ctx.touch(m, sv)
    loops = [n for n in ast.walk(sv) if isinstance(n, ast.For) and any(call_attr(c) == "_add_photon_absorption" for c in calls_in(n))]
    if len(loops) != 1:
        raise AnalysisError("solve(): main loop not found")
    lp = loops[0]
    jv = norm(lp.target)
    it = lp.iter
    if isinstance(it, ast.Call) and isinstance(it.func, ast.Name) and it.func.id == "range" and len(it.args) == 3 \
            and norm(it.args[0]) == "self.n_photon" and norm(it.args[1]) == "0" and norm(it.args[2]) == "-1":
        ctx.ok("flow.exactly-once", m, it, what="j runs n_photon .. 1")
    else:
        ctx.fail("flow.exactly-once", m, it, f"the main loop iterates `{short(it)}` instead of range(self.n_photon, 0, -1): not every photon "
                                             f"is absorbed exactly once", func="TimeReversedSolver.solve", construct=f"solve: loop range {short(it, 60)}")
    cnt = flow.count_on_paths(lp.body, lambda node: 0 if isinstance(node, (ast.If, ast.For, ast.While)) else sum(
        1 for c in ast.walk(node) if isinstance(c, ast.Call) and call_attr(c) == "_add_photon_absorption"))
    calls = [c for c in calls_in(lp) if call_attr(c) == "_add_photon_absorption"]
    lin_arg = linear.lin(calls[0].args[2]) if len(calls[0].args) > 2 else None
    if cnt == {1} and len(calls) == 1 and linear.equal(lin_arg, {jv: 1, "": -1}):
        ctx.ok("flow.exactly-once", m, calls[0], what="one absorption of photon j-1 per iteration")
    else:
        ctx.fail("flow.exactly-once", m, calls[0], f"_add_photon_absorption is called {sorted(cnt)} times per iteration (argument "
                                                   f"`{short(calls[0].args[2]) if len(calls[0].args) > 2 else ''}`); each photon {jv}-1 must be absorbed exactly once",
                 func="TimeReversedSolver.solve", construct=f"solve: absorption count {sorted(cnt)}")
    ab = repo.anchor(TRS, "TimeReversedSolver._add_photon_absorption")
    ctx.touch(m, ab)
    cnt = flow.count_on_paths(ab.body, lambda node: 0 if isinstance(node, (ast.If, ast.For, ast.While)) else sum(
        1 for c in ast.walk(node) if isinstance(c, ast.Call) and call_attr(c) == "_add_emitter_photon_cnot"))
    ec = [c for c in calls_in(ab) if call_attr(c) == "_add_emitter_photon_cnot"]
    ph = func_params(ab)[3]
    if cnt == {1} and len(ec) == 1 and norm(ec[0].args[2]) == ph:
        ctx.ok("flow.exactly-once", m, ec[0], what="exactly one emission CNOT per absorption, on this photon")
    else:
        ctx.fail("flow.exactly-once", m, ab, f"_add_photon_absorption emits {sorted(cnt)} emission CNOT(s) for its photon depending on the path",
                 func="TimeReversedSolver._add_photon_absorption", construct=f"_add_photon_absorption: emission count {sorted(cnt)}")
    sites = []
    for mod in repo.modules.values():
        for c in [x for x in ast.walk(mod.tree) if isinstance(x, ast.Call) and call_attr(x) == "_add_emitter_photon_cnot"]:
            sites.append((mod, c))
    if len(sites) == 1:
        ctx.ok("flow.exactly-once", sites[0][0], sites[0][1], what="single call site of the emission helper in the package")
    else:
        for mod, c in sites:
            fnq = next((qualname(a) for a in _anc(c) if isinstance(a, ast.FunctionDef)), "<module>")
            if fnq != "TimeReversedSolver._add_photon_absorption":
                ctx.fail("flow.exactly-once", mod, c, f"{fnq} also emits a photon through _add_emitter_photon_cnot: a photon can be emitted twice",
                         func=fnq, construct=f"{fnq}: extra emission call site")
    # emitter budget provenance
    init = repo.anchor(TRS, "TimeReversedSolver.__init__")
    a = [n for n in ast.walk(init) if isinstance(n, ast.Assign) and norm(n.targets[0]) == "self.n_emitter"]
    if len(a) == 1 and isinstance(a[0].value, ast.Call) and call_attr(a[0].value) == "determine_n_emitters":
        ctx.ok("budget.provenance", m, a[0], what="n_emitter = determine_n_emitters(target tableau)")
    else:
        ctx.fail("budget.provenance", m, init, "self.n_emitter is not set from determine_n_emitters(tableau)", func="TimeReversedSolver.__init__",
                 construct="__init__: n_emitter source")
    dn = repo.anchor(TRS, "TimeReversedSolver.determine_n_emitters")
    ctx.touch(m, dn)
    tp = func_params(dn)[0]
    import copy as _copy
    import re as _re
    rets = [r for r in ast.walk(dn) if isinstance(r, ast.Return) and r.value is not None]
    if not rets:
        raise AnalysisError("determine_n_emitters: no return")
    assigns = [n for n in ast.walk(dn) if isinstance(n, ast.Assign) and len(n.targets) == 1 and isinstance(n.targets[0], ast.Name)]

    def inline(expr, before_line, depth=0):
        class Sub(ast.NodeTransformer):
            def visit_Name(self, node):
                if isinstance(node.ctx, ast.Load) and depth < 6:
                    prev = [a for a in assigns if a.targets[0].id == node.id and a.lineno < before_line]
                    if prev:
                        a = max(prev, key=lambda x: x.lineno)
                        return inline(_copy.deepcopy(a.value), a.lineno, depth + 1)
                return node
        return Sub().visit(expr)

    pat = r"max\((?:\w+\.)?height_func_list\((?:\w+\.)?rref\(%s\)\.x_matrix, (?:\w+\.)?rref\(%s\)\.z_matrix\)\)" % (tp, tp)
    for r in rets:
        sym = norm(inline(_copy.deepcopy(r.value), r.lineno))
        if _re.fullmatch(pat, sym):
            ctx.ok("budget.provenance", m, r, what="max of the height function in echelon gauge")
        else:
            ctx.fail("budget.provenance", m, r, f"a return path of determine_n_emitters yields `{sym[:110]}`; on every path the budget must be "
                                                f"max(height_func_list(rref(tableau).x_matrix, rref(tableau).z_matrix)) — the maximum of the height function",
                     func="TimeReversedSolver.determine_n_emitters", construct="determine_n_emitters: returns " + sym[:120])
    cd = [c for c in calls_in(sv) if call_attr(c) == "CircuitDAG"]
    ne = get_kw(cd[0], "n_emitter") if cd else None
    if ne is not None and norm(ne) == "self.n_emitter":
        ctx.ok("budget.provenance", m, cd[0], what="circuit created with n_emitter=self.n_emitter")
    else:
        ctx.fail("budget.provenance", m, sv, "the circuit is not created with n_emitter=self.n_emitter", func="TimeReversedSolver.solve",
                 construct="solve: circuit emitter count")
    adders = {"add_emitter_register", "add_photonic_register", "add_classical_register", "_add_register", "expand_emitter_register",
              "expand_photonic_register", "_add_reg_if_absent"}
    cls = repo.cls("TimeReversedSolver", TRS)
    bad = [c for c in calls_in(cls.node) if call_attr(c) in adders]
    if not bad:
        ctx.ok_abstract("budget.provenance", "TimeReversedSolver never calls a register-adding API")
    else:
        ctx.fail("budget.provenance", m, bad[0], f"`{short(bad[0])}` adds a register after the emitter budget was fixed", func="TimeReversedSolver",
                 construct=f"TimeReversedSolver: calls {call_attr(bad[0])}")
    # height formula
    hm = repo.module(HEIGHT)
    hf = repo.anchor(HEIGHT, "height_func_list")
    ctx.touch(hm, hf)
    rr = [n for n in ast.walk(hf) if isinstance(n, ast.Assign) and isinstance(n.value, ast.Call) and call_attr(n.value) == "rref"]
    lm = [c for c in calls_in(hf) if call_attr(c) == "leftmost_nontrivial_index"]
    if rr and lm and all(norm(c.args[0]) == norm(rr[0].targets[0]) and c.lineno > rr[0].lineno for c in lm):
        uncond = flow.must_pass(hf.body, lambda nd: isinstance(nd, ast.Assign) and isinstance(nd.value, ast.Call) and call_attr(nd.value) == "rref")
        if uncond:
            ctx.ok("height.formula", hm, rr[0], what="input re-reduced to echelon gauge before reading leftmost indices")
        else:
            # a conditional reduction is correct iff its guard is a sound echelon-gauge test, which is a statement about runtime tableaux
            raise AnalysisError("height_func_list reduces its input to echelon gauge only conditionally; the checker cannot validate the guard "
                                "predicate, so gauge independence of the height function is undecided (neither pass nor violation)")
    else:
        ctx.fail("height.formula", hm, hf, "height_func_list reads leftmost indices from a tableau that was not passed through rref: the "
                                           "result would depend on the generating set", func="height_func_list", construct="height_func_list: no rref")
    # the value appended to the returned list (whatever the local is called)
    rname = next((r.value.id for r in ast.walk(hf) if isinstance(r, ast.Return) and isinstance(r.value, ast.Name)), None)
    app = [c for c in calls_in(hf) if call_attr(c) == "append" and isinstance(c.func.value, ast.Name) and c.func.value.id == rname and c.args]
    if rname is None or len(app) != 1:
        raise AnalysisError("height_func_list: `<list>.append(<height>)` / `return <list>` not found")
    hv = app[0].args[0]
    if isinstance(hv, ast.Name):
        ha = [n for n in ast.walk(hf) if isinstance(n, ast.Assign) and norm(n.targets[0]) == hv.id]
    else:
        ha = [ast.Assign(targets=[ast.Name(id="<appended>", ctx=ast.Store())], value=hv, lineno=app[0].lineno, col_offset=0)]
    cnt_a = [n for n in ast.walk(hf) if isinstance(n, ast.Assign) and isinstance(n.value, ast.Call) and call_attr(n.value) == "len"
             and isinstance(n.value.args[0], ast.ListComp)]
    good = False
    if len(ha) == 1 and cnt_a:
        cv = norm(cnt_a[0].targets[0])
        loop = next((l for l in _anc(ha[0]) if isinstance(l, ast.For)), None)
        kv = norm(loop.target) if loop is not None else "?"
        nq = next((norm(n.targets[0]) for n in ast.walk(hf) if isinstance(n, ast.Assign) and "shape" in norm(n.value)), "?")
        good = linear.equal(linear.lin(ha[0].value), {nq: 1, kv: -1, cv: -1, "": -1})
        lc = cnt_a[0].value.args[0]
        cond = lc.generators[0].ifs[0] if lc.generators[0].ifs else None
        xv = norm(lc.generators[0].target)
        cond_ok = False
        if isinstance(cond, ast.Compare) and len(cond.ops) == 1:
            d = linear.sub(linear.lin(cond.left) or {}, linear.lin(cond.comparators[0]) or {})
            if isinstance(cond.ops[0], ast.Gt):
                cond_ok = linear.clean(d) == {xv: 1, kv: -1}
            elif isinstance(cond.ops[0], ast.Lt):
                cond_ok = linear.clean(d) == {xv: -1, kv: 1}
        good = good and cond_ok
    if good:
        ctx.ok("height.formula", hm, ha[0], what="h(k) = n - (k+1) - #{leftmost > k}")
    else:
        ctx.fail("height.formula", hm, ha[0] if ha else hf,
                 "height_func_list does not compute n - (k + 1) - #{generators whose leftmost non-trivial index is > k}", func="height_func_list",
                 construct=f"height_func_list: {short(ha[0], 100) if ha else 'no height assignment'}")
    # every position receives the height computed for it: no early exit from the position loop, nothing else written to the list
    ploop = next((l for l in _anc(app[0]) if isinstance(l, ast.For)), None)
    if ploop is None:
        raise AnalysisError("height_func_list: the loop over positions was not found")
    nq_ = next((norm(n.targets[0]) for n in ast.walk(hf) if isinstance(n, ast.Assign) and "shape" in norm(n.value)), "?")
    it_ok = isinstance(ploop.iter, ast.Call) and call_name(ploop.iter) == "range" and len(ploop.iter.args) == 1 and norm(ploop.iter.args[0]) == nq_
    exits = [x for x in ast.walk(ploop) if isinstance(x, (ast.Break, ast.Continue, ast.Return))
             and next((a for a in _anc(x) if isinstance(a, (ast.For, ast.While))), None) is ploop]
    others = [c for c in calls_in(hf) if isinstance(c.func, ast.Attribute) and isinstance(c.func.value, ast.Name) and c.func.value.id == rname
              and c.func.attr in ("extend", "insert", "pop", "remove", "clear") ] + \
             [a for a in ast.walk(hf) if isinstance(a, ast.AugAssign) and norm(a.target) == rname] + \
             [a for a in ast.walk(hf) if isinstance(a, ast.Assign) and any(isinstance(t, ast.Subscript) and norm(t.value) == rname for t in a.targets)]
    uncond = flow.must_pass(ploop.body, lambda nd: nd is app[0] or (isinstance(nd, ast.Expr) and nd.value is app[0]))
    if it_ok and not exits and not others and uncond:
        ctx.ok("height.formula", hm, ploop, what="one computed height per position 0..n-1, no early exit, no padding")
    else:
        why = []
        if not it_ok:
            why.append(f"the positions iterate `{short(ploop.iter)}` instead of range({nq_})")
        if exits:
            why.append(f"the position loop is left early (`{short(exits[0])}` at line {exits[0].lineno})")
        if others:
            why.append(f"`{short(others[0])}` writes entries that were not computed by the formula")
        if not uncond:
            why.append("the computed height is appended only on some paths")
        ctx.fail("height.formula", hm, exits[0] if exits else (others[0] if others else ploop),
                 "height_func_list does not evaluate the height at every position: " + "; ".join(why) +
                 " — the height can rise again after it has come back to zero (a product cut inside the state)", func="height_func_list",
                 construct="height_func_list: positions not all evaluated")
    # node order of the graph entry point: the solver and every conversion index qubits by the graph's own node order
    hd0 = repo.anchor(HEIGHT, "height_dict")
    ctx.touch(hm, hd0)
    convs = [c for c in calls_in(hd0) if call_attr(c) in ("to_numpy_array", "adjacency_matrix")]
    if not convs:
        raise AnalysisError("height_dict: graph -> adjacency conversion not found")
    for c in convs:
        nl = get_kw(c, "nodelist")
        v = nl
        if isinstance(nl, ast.Name):
            src = [n.value for n in ast.walk(hd0) if isinstance(n, ast.Assign) and len(n.targets) == 1 and norm(n.targets[0]) == nl.id]
            v = src[-1] if src else nl
        default_order = v is None or (isinstance(v, ast.Constant) and v.value is None) or \
            (isinstance(v, ast.Call) and call_attr(v) == "sort")  # list.sort() returns None: networkx then uses the graph's own order
        if default_order:
            ctx.ok("height.formula", hm, c, what="height_dict(graph=...) uses the graph's own node order (as the solver's tableau does)")
        else:
            ctx.fail("height.formula", hm, c,
                     f"height_dict(graph=...) orders the qubits by `{short(v, 50)}`; the tableau the solver works on (and every other conversion) uses "
                     f"the graph's own node order, so for a graph whose nodes were not created in sorted order the height function — hence the "
                     f"reported emitter count — is that of a different emission order than the one the circuit uses",
                     func="height_dict", construct="height_dict: node order differs from the graph's own")
    # emitter_sorted: the count attached to an adjacency matrix is the height maximum of the graph of that whole matrix
    RELABEL_ = "graphiq/utils/relabel_module.py"
    rm_ = repo.module(RELABEL_)
    es = repo.anchor(RELABEL_, "emitter_sorted")
    ctx.touch(rm_, es)
    apps = [c for c in calls_in(es) if call_attr(c) == "append" and c.args and isinstance(c.args[0], ast.Tuple) and len(c.args[0].elts) == 2]
    if len(apps) != 1:
        raise AnalysisError("emitter_sorted: `(adjacency, n_emit)` append not found")
    adj_e, cnt_e = apps[0].args[0].elts
    cnt_defs = [a for a in ast.walk(es) if isinstance(a, ast.Assign) and len(a.targets) == 1 and norm(a.targets[0]) == norm(cnt_e)]
    def _whole(v):
        # height_max(graph=G) / height_max(x, z) with G = nx.from_numpy_array(<the adjacency>) (or the adjacency itself)
        if not (isinstance(v, ast.Call) and call_name(v) in ("height_max", "TimeReversedSolver.determine_n_emitters")):
            return False
        g = get_kw(v, "graph") or (v.args[-1] if v.args else None)
        for _ in range(2):
            if isinstance(g, ast.Name):
                src = [a.value for a in ast.walk(es) if isinstance(a, ast.Assign) and len(a.targets) == 1 and norm(a.targets[0]) == g.id]
                g = src[-1] if src else g
        return isinstance(g, ast.Call) and call_name(g) in ("nx.from_numpy_array", "nx.Graph", "nx.to_networkx_graph") and g.args and norm(g.args[0]) == norm(adj_e) \
            or (g is not None and norm(g) == norm(adj_e))
    if cnt_defs and all(_whole(a.value) for a in cnt_defs):
        ctx.ok("height.formula", rm_, apps[0], what="emitter_sorted: count = height maximum of the whole graph")
    else:
        badv = next((a for a in cnt_defs if not _whole(a.value)), None)
        if badv is not None and not any(isinstance(c, ast.Call) and call_name(c) in ("height_max", "TimeReversedSolver.determine_n_emitters", "height_func_list", "height_dict")
                                        for c in ast.walk(badv.value)):
            # a different algorithm altogether: whether it equals the height maximum is not visible in its shape
            raise AnalysisError(f"emitter_sorted takes the emitter count from `{short(badv.value, 60)}`, not from the height function; the checker has no "
                                f"summary of that computation, so this clause is undecided (neither pass nor violation)")
        ctx.fail("height.formula", rm_, badv or apps[0],
                 f"emitter_sorted pairs the adjacency matrix with `{short(badv.value, 60) if badv is not None else norm(cnt_e)}`, which is not the height "
                 f"maximum of the graph of that whole matrix: the height at a cut adds up over components (two interleaved pairs {{0-2, 1-3}} need 2 "
                 f"emitters, their pieces 1 each), so a per-piece maximum under-reports the emitters the solver then really uses",
                 func="emitter_sorted", construct="emitter_sorted: emitter count not taken from the whole graph")
    # advisory noted in DESIGN §5.3
    hd = repo.anchor(HEIGHT, "height_dict")
    for n in ast.walk(hd):
        if isinstance(n, ast.Assign) and isinstance(n.value, ast.Call) and call_attr(n.value) == "sort":
            ctx.fail("height.formula", hm, n, "`x = list(...).sort()` binds None (graph.nodes order is then used, as every other conversion does)",
                     func="height_dict", advisory=True)
    ctx.floor("flow.exactly-once", 3)
    ctx.floor("budget.provenance", 4)


def _anc(n):
    p = parent(n)
    while p is not None:
        yield p
        p = parent(p)


KNOCKOUTS = [
    Knockout("height-max-constant-for-trees", HEIGHT, sub_once("    h_dict = height_dict(x_matrix=x_matrix, z_matrix=z_matrix, graph=graph)\n    h_max =", "    if graph is not None and nx.is_tree(graph):\n        return 1\n    h_dict = height_dict(x_matrix=x_matrix, z_matrix=z_matrix, graph=graph)\n    h_max ="), "height.max-whole", "without consulting"),
    Knockout("height-max-over-first-half", "graphiq/backends/stabilizer/functions/height.py", sub_nth("    h_max = h_dict[max(h_dict, key=h_dict.get)]\n", "    h_max = max(h_dict[position] for position in range(-1, len(h_dict) // 2))\n", 0), "height.max-whole", "subset of the positions"),
    Knockout("rref-fast-path-clears-one-kind", STABF_, sub_once("    elif not pauli_y_list:  # pauli x and z exist in the column below pivot\n", "    elif not pauli_y_list:  # pauli x and z exist in the column below pivot\n        if pauli_x_list[0] == pivot[0] and pauli_z_list[0] == pivot[0] + 1:\n            for row_j in pauli_z_list[1:]:\n                tableau = tab_row_sum(tableau, pivot[0] + 1, row_j)\n            pivot = [pivot[0] + 2, pivot[1] + 1]\n            return tableau, pivot\n"), "rref.inline-step", "inline step"),
    Knockout("bit-packing-int64", "graphiq/utils/relabel_module.py", sub_once("        n_emit = height_max(graph=g)\n", "        n_emit = height_max(graph=g)\n        packed = adj.astype(int) @ (1 << np.arange(adj.shape[0]))\n"), "num.fixed-width", "emitter_sorted"),
    Knockout("height-stops-at-first-zero", HEIGHT, sub_once("        height_list.append(height)\n    return height_list", "        height_list.append(height)\n        if height == 0:\n            break\n    height_list.extend([0] * (n_qubits - len(height_list)))\n    return height_list"), "height.formula", "positions not all evaluated"),
    Knockout("rref-finder-skips-pivot-row", STABF_, sub_once("    for row_i in range(pivot[0], n_qubits):\n        if x_matrix[row_i, pivot[1]] == 1 and z_matrix[row_i, pivot[1]] == 0:", "    for row_i in range(pivot[0] + 1, n_qubits):\n        if x_matrix[row_i, pivot[1]] == 1 and z_matrix[row_i, pivot[1]] == 0:"), "rref.classify", "row range"),
    Knockout("rref-finder-y-as-z", STABF_, sub_once("        elif x_matrix[row_i, pivot[1]] == 1 and z_matrix[row_i, pivot[1]] == 1:\n            pauli_y_list.append(row_i)", "        elif x_matrix[row_i, pivot[1]] == 1 and z_matrix[row_i, pivot[1]] == 1:\n            pauli_z_list.append(row_i)"), "rref.classify", "misfiles"),
    Knockout("rref-dispatch-only-z-uses-y", STABF_, sub_once("        return _process_one_pauli(tableau, pivot, pauli_z_list)", "        return _process_one_pauli(tableau, pivot, pauli_y_list)"), "rref.dispatch", "Z:"),
    Knockout("rref-dispatch-yz-as-xz", STABF_, sub_once('        return _process_two_pauli(tableau, pivot, pauli_list_dict, "y", "z")', '        return _process_two_pauli(tableau, pivot, pauli_list_dict, "x", "z")'), "rref.dispatch", "YZ:"),
    Knockout("rref-dispatch-condition-weakened", STABF_, sub_once("    elif pauli_x_list and (not pauli_y_list) and (not pauli_z_list):  # only X", "    elif pauli_x_list and (not pauli_y_list):  # only X"), "rref.dispatch", "XZ:"),
    Knockout("rref-three-kinds-one-multiplication", STABF_, sub_once("            tableau = tab_row_sum(tableau, pivot[0] + 1, row_k)\n", ""), "rref.dispatch", "XYZ:"),
    Knockout("rref-step-direction", STABF_, sub_once("    for row_i in pauli_list:\n        # multiplying rows with similar pauli to eliminate them\n        tableau = tab_row_sum(tableau, pivot[0], row_i)", "    for row_i in pauli_list:\n        # multiplying rows with similar pauli to eliminate them\n        tableau = tab_row_sum(tableau, row_i, pivot[0])"), "rref.step", "_process_one_pauli"),
    Knockout("rref-step-second-kind-from-first-pivot", STABF_, sub_once("        tableau = tab_row_sum(tableau, pivot[0] + 1, row_j)", "        tableau = tab_row_sum(tableau, pivot[0], row_j)"), "rref.step", "_process_two_pauli"),
    Knockout("rref-step-advance", STABF_, sub_nth("    pivot = [pivot[0] + 2, pivot[1] + 1]\n    return tableau, pivot", "    pivot = [pivot[0] + 1, pivot[1] + 1]\n    return tableau, pivot", 0), "rref.step", "advance"),
    Knockout("rref-loop-stops-early", STABF_, sub_once("    while pivot[0] <= n_qubits - 1 and pivot[1] <= n_qubits - 1:", "    while pivot[0] < n_qubits - 1 and pivot[1] <= n_qubits - 1:"), "rref.loop", "loop condition"),
    Knockout("leftmost-takes-last", HEIGHT, sub_once("    return nonzero[0]", "    return nonzero[-1]"), "height.leftmost", "first"),
    Knockout("leftmost-x-only", HEIGHT, sub_once("    row_sum = tableau.x_matrix[generator_index] + tableau.z_matrix[generator_index]", "    row_sum = tableau.x_matrix[generator_index]"), "height.leftmost", "union"),
    Knockout("rref-any-over-indices", "graphiq/backends/stabilizer/functions/stabilizer.py", sub_once("    if not (pauli_x_list or pauli_y_list or pauli_z_list):", "    if not any(pauli_x_list + pauli_y_list + pauli_z_list):"), "falsy.zero", "truthiness"),
    Knockout("emitter-sorted-subgraph", "graphiq/utils/relabel_module.py", sub_once("        n_emit = height_max(graph=g)\n", "        n_emit = height_max(graph=g)\n        n_emit = max(height_max(graph=g.subgraph(c)) for c in nx.connected_components(g))\n"), "height.formula", "not taken from the whole graph"),
    Knockout("height-max-weak-cache", HEIGHT, sub_once("def height_max(x_matrix=None, z_matrix=None, graph=None):", "import weakref\n_HM = weakref.WeakKeyDictionary()\n\n\ndef height_max_cached(graph):\n    if graph in _HM:\n        return _HM[graph]\n    _HM[graph] = height_max(graph=graph)\n    return _HM[graph]\n\n\ndef height_max(x_matrix=None, z_matrix=None, graph=None):"), "memo.sound", "key does not determine"),
    Knockout("height-sorted-nodes", HEIGHT, sub_once("            node_list = list(graph.nodes()).sort()", "            node_list = sorted(graph.nodes())"), "height.formula", "node order differs"),
    Knockout("G11-double-emission", TRS,
             sub_once("        self._add_emitter_photon_cnot(circuit, emitter_index, photon_index)\n        transform.cnot_gate(tableau, self.n_photon + emitter_index, photon_index)\n",
                      "        self._add_emitter_photon_cnot(circuit, emitter_index, photon_index)\n        self._add_emitter_photon_cnot(circuit, emitter_index, photon_index)\n        transform.cnot_gate(tableau, self.n_photon + emitter_index, photon_index)\n"),
             "flow.exactly-once", "emission count"),
    Knockout("G11-conditional-absorption", TRS,
             sub_once("            # apply photon-absorption and update the stabilizer tableau\n            self._add_photon_absorption(circuit, stabilizer_tableau, j - 1)",
                      "            # apply photon-absorption and update the stabilizer tableau\n            if height_list[j] > 0:\n                self._add_photon_absorption(circuit, stabilizer_tableau, j - 1)"),
             "flow.exactly-once", "absorption count"),
    Knockout("G11-loop-range", TRS, sub_once("        for j in range(self.n_photon, 0, -1):", "        for j in range(self.n_photon, 1, -1):"), "flow.exactly-once", "loop range"),
    Knockout("G11-extra-call-site", TRS,
             sub_once("        self._add_measurement_cnot_and_reset(circuit, emitter_index, photon_index)\n", "        self._add_measurement_cnot_and_reset(circuit, emitter_index, photon_index)\n        self._add_emitter_photon_cnot(circuit, emitter_index, photon_index)\n"),
             "flow.exactly-once", "extra emission"),
    Knockout("budget-min", TRS, sub_once("        return max(height_list)", "        return max(height_list) + 1"), "budget.provenance", "determine_n_emitters"),
    Knockout("budget-circuit", TRS, sub_once("            n_emitter=self.n_emitter, n_photon=self.n_photon, n_classical=1", "            n_emitter=self.n_emitter + 1, n_photon=self.n_photon, n_classical=1"),
             "budget.provenance", "circuit emitter count"),
    Knockout("height-no-rref", HEIGHT, sub_once("    tableau = StabilizerTableau([x_matrix, z_matrix])\n    tableau = rref(tableau)\n", "    tableau = StabilizerTableau([x_matrix, z_matrix])\n"),
             "height.formula", "no rref"),
    Knockout("height-off-by-one", HEIGHT, sub_once("        height = n_qubits - (qubit_position + 1) - n_nontrivial_generators", "        height = n_qubits - qubit_position - n_nontrivial_generators"),
             "height.formula", "height_func_list"),
    Knockout("height-count-ge", HEIGHT, sub_once("[x for x in leftmost_nontrivial_list if x - qubit_position > 0]", "[x for x in leftmost_nontrivial_list if x - qubit_position >= 0]"),
             "height.formula", "height_func_list"),
]
