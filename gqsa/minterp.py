"""A small interpreter for index / list / set bookkeeping fragments, used to decide such a fragment on a finite model.

Some properties hinge on a dozen lines of pure bookkeeping (the duplicate filter of a result list, a representative chosen per
equivalence class): loops over index ranges, membership tests, appends and deletions, and one *oracle* call that compares two
entries.  The outcome of such a fragment depends only on which entries the oracle calls equal, i.e. on a partition of a handful
of entries, so it can be decided for every partition of every list up to a small length.  The fragment is read from the syntax
tree and interpreted here over plain integers, lists, sets and tuples; calls the interpreter does not know go to an oracle supplied
by the rule (which answers from the model) — nothing of graphiq is imported or executed.  Anything outside the supported subset
raises Unmodelled, which the rule turns into "undecided" (exit 2), never into a verdict."""
from __future__ import annotations

import ast
from typing import Callable, Dict, List, Optional

from .core import norm


class Unmodelled(Exception):
    pass


class _Break(Exception):
    pass


class _Continue(Exception):
    pass


class Return(Exception):
    def __init__(self, value):
        self.value = value


class ModelError(Exception):
    """the fragment itself fails in the model (IndexError, KeyError ...)"""


class Mat:
    """a small dense complex matrix for fragments that build operators entry by entry (rows as tuples); only what such fragments use"""
    def __init__(self, rows):
        self.rows = tuple(tuple(complex(v) for v in r) for r in rows)

    def __matmul__(self, o):
        return Mat([[sum(self.rows[i][k] * o.rows[k][j] for k in range(len(o.rows))) for j in range(len(o.rows[0]))] for i in range(len(self.rows))])

    def __mul__(self, o):
        if isinstance(o, Mat):
            return Mat([[a * b for a, b in zip(r1, r2)] for r1, r2 in zip(self.rows, o.rows)])
        return Mat([[v * o for v in r] for r in self.rows])
    __rmul__ = __mul__

    def __add__(self, o):
        return Mat([[a + b for a, b in zip(r1, r2)] for r1, r2 in zip(self.rows, o.rows)])

    def __sub__(self, o):
        return Mat([[a - b for a, b in zip(r1, r2)] for r1, r2 in zip(self.rows, o.rows)])

    def __neg__(self):
        return self * -1

    def close(self, o, tol=1e-9):
        return len(self.rows) == len(o.rows) and all(abs(a - b) < tol for r1, r2 in zip(self.rows, o.rows) for a, b in zip(r1, r2))


_BIN = {ast.MatMult: lambda a, b: a @ b, ast.Add: lambda a, b: a + b, ast.Sub: lambda a, b: a - b, ast.Mult: lambda a, b: a * b, ast.FloorDiv: lambda a, b: a // b,
        ast.Mod: lambda a, b: a % b, ast.BitOr: lambda a, b: a | b, ast.BitAnd: lambda a, b: a & b, ast.BitXor: lambda a, b: a ^ b}
_CMP = {ast.Eq: lambda a, b: a == b, ast.NotEq: lambda a, b: a != b, ast.Lt: lambda a, b: a < b, ast.LtE: lambda a, b: a <= b,
        ast.Gt: lambda a, b: a > b, ast.GtE: lambda a, b: a >= b, ast.In: lambda a, b: a in b, ast.NotIn: lambda a, b: a not in b,
        ast.Is: lambda a, b: a is b, ast.IsNot: lambda a, b: a is not b}
_PURE = {"len": len, "range": range, "list": list, "set": set, "sorted": sorted, "enumerate": lambda *a: list(enumerate(*a)), "reversed": lambda x: list(reversed(x)),
         "min": min, "max": max, "sum": sum, "any": any, "all": all, "zip": lambda *a: list(zip(*a)), "tuple": tuple, "int": int, "bool": bool, "abs": abs}
_METHODS = {"append", "add", "remove", "pop", "insert", "extend", "index", "copy", "discard", "update", "count", "sort", "reverse", "clear", "union"}


class Interp:
    def __init__(self, env: Dict[str, object], oracle: Optional[Callable] = None, budget: int = 20000):
        self.env = env
        self.oracle = oracle
        self.budget = budget

    def tick(self):
        self.budget -= 1
        if self.budget < 0:
            raise Unmodelled("the fragment does not finish within the step budget of the model")

    # ---------------------------------------------------------------- expressions
    def ev(self, e: ast.AST):
        self.tick()
        if isinstance(e, ast.Constant):
            return e.value
        if isinstance(e, ast.Name):
            if e.id in self.env:
                return self.env[e.id]
            if e.id in ("True", "False", "None"):
                return {"True": True, "False": False, "None": None}[e.id]
            raise Unmodelled(f"name `{e.id}` is not part of the model")
        if isinstance(e, ast.Attribute):
            k = norm(e)
            if k in self.env:          # object fields of the model are plain entries keyed by their text (`self.circuit_list`)
                return self.env[k]
            raise Unmodelled(f"attribute `{k}` is not part of the model")
        if isinstance(e, ast.BinOp) and type(e.op) in _BIN:
            return self._guard(_BIN[type(e.op)], self.ev(e.left), self.ev(e.right))
        if isinstance(e, ast.UnaryOp):
            v = self.ev(e.operand)
            if isinstance(e.op, ast.Not):
                return not v
            if isinstance(e.op, ast.USub):
                return -v
        if isinstance(e, ast.BoolOp):
            if isinstance(e.op, ast.And):
                v = True
                for x in e.values:
                    v = self.ev(x)
                    if not v:
                        return v
                return v
            v = False
            for x in e.values:
                v = self.ev(x)
                if v:
                    return v
            return v
        if isinstance(e, ast.Compare):
            left = self.ev(e.left)
            for op, r in zip(e.ops, e.comparators):
                right = self.ev(r)
                if not self._guard(_CMP[type(op)], left, right):
                    return False
                left = right
            return True
        if isinstance(e, ast.IfExp):
            return self.ev(e.body) if self.ev(e.test) else self.ev(e.orelse)
        if isinstance(e, (ast.List, ast.Tuple, ast.Set)):
            vals = [self.ev(x) for x in e.elts]
            return vals if isinstance(e, ast.List) else tuple(vals) if isinstance(e, ast.Tuple) else set(vals)
        if isinstance(e, ast.Subscript):
            base = self.ev(e.value)
            return self._guard(lambda b, i: b[i], base, self._index(e.slice))
        if isinstance(e, (ast.ListComp, ast.SetComp, ast.GeneratorExp)):
            out: List = []
            self._comp(e, 0, out)
            return set(out) if isinstance(e, ast.SetComp) else out
        if isinstance(e, ast.Call):
            return self._call(e)
        if isinstance(e, ast.Lambda) and not (e.args.vararg or e.args.kwarg or e.args.kwonlyargs or e.args.defaults):
            return self._lambda(e)
        raise Unmodelled(f"expression `{norm(e)[:60]}`")

    def _lambda(self, e: ast.Lambda):
        names = [a.arg for a in e.args.args]
        missing = object()

        def f(*vals):
            if len(vals) != len(names):
                raise ModelError("lambda called with the wrong number of arguments")
            saved = {n: self.env.get(n, missing) for n in names}
            try:
                for n, v in zip(names, vals):
                    self.env[n] = v
                return self.ev(e.body)
            finally:
                for n, v in saved.items():
                    if v is missing:
                        self.env.pop(n, None)
                    else:
                        self.env[n] = v
        return f

    def _index(self, s: ast.AST):
        if isinstance(s, ast.Slice):
            return slice(self.ev(s.lower) if s.lower else None, self.ev(s.upper) if s.upper else None, self.ev(s.step) if s.step else None)
        return self.ev(s)

    def _guard(self, f, *a):
        try:
            return f(*a)
        except (IndexError, KeyError, ValueError, TypeError, ZeroDivisionError) as ex:
            raise ModelError(f"{type(ex).__name__}: {ex}")

    def _comp(self, e, k: int, out: List):
        if k == len(e.generators):
            out.append(self.ev(e.elt))
            return
        g = e.generators[k]
        for v in list(self.ev(g.iter)):
            self.tick()
            self._bind(g.target, v)
            if all(self.ev(c) for c in g.ifs):
                self._comp(e, k + 1, out)

    def _call(self, c: ast.Call):
        if self.oracle is not None:
            r = self.oracle(c, self)
            if r is not NotImplemented:
                return r
        if isinstance(c.func, ast.Name) and c.func.id in _PURE and not c.keywords:
            return self._guard(_PURE[c.func.id], *[self.ev(a) for a in c.args])
        if isinstance(c.func, ast.Name) and c.func.id in ("sorted", "min", "max") and c.keywords and all(k.arg in ("reverse", "key") for k in c.keywords) \
                and (c.func.id == "sorted" or all(k.arg == "key" for k in c.keywords)):
            kw = {k.arg: self.ev(k.value) for k in c.keywords}
            if "reverse" in kw:
                kw["reverse"] = bool(kw["reverse"])
            return self._guard(lambda *a: _PURE[c.func.id](*a, **kw), *[self.ev(a) for a in c.args])
        if isinstance(c.func, ast.Attribute) and c.func.attr in ("keys", "values", "items") and not c.args and not c.keywords:
            recv = self.ev(c.func.value)
            if isinstance(recv, dict):
                return list(getattr(recv, c.func.attr)())
            raise Unmodelled(f"method `{c.func.attr}` on a value that is not a dict")
        if isinstance(c.func, ast.Attribute) and c.func.attr in _METHODS and not c.keywords:
            recv = self.ev(c.func.value)
            if not isinstance(recv, (list, set, tuple, dict)):
                raise Unmodelled(f"method `{c.func.attr}` on a value that is not a list / set")
            return self._guard(getattr(recv, c.func.attr), *[self.ev(a) for a in c.args])
        raise Unmodelled(f"call `{norm(c)[:60]}`")

    # ---------------------------------------------------------------- statements
    def _bind(self, t: ast.AST, v):
        if isinstance(t, ast.Name):
            self.env[t.id] = v
        elif isinstance(t, (ast.Tuple, ast.List)):
            vs = list(v)
            if len(vs) != len(t.elts):
                raise ModelError("unpacking length mismatch")
            for x, y in zip(t.elts, vs):
                self._bind(x, y)
        elif isinstance(t, ast.Subscript):
            base = self.ev(t.value)
            self._guard(lambda b, i, val: b.__setitem__(i, val), base, self._index(t.slice), v)
        elif isinstance(t, ast.Attribute):
            self.env[norm(t)] = v
        else:
            raise Unmodelled(f"assignment target `{norm(t)[:40]}`")

    def run(self, stmts: List[ast.stmt]):
        for st in stmts:
            self.tick()
            if isinstance(st, ast.Expr):
                if isinstance(st.value, ast.Constant):
                    continue
                self.ev(st.value)
            elif isinstance(st, ast.Assign):
                v = self.ev(st.value)
                for t in st.targets:
                    self._bind(t, v)
            elif isinstance(st, ast.AugAssign) and type(st.op) in _BIN:
                cur = self.ev(st.target)
                inc = self.ev(st.value)
                if isinstance(cur, list) and isinstance(st.op, ast.Add):
                    cur.extend(inc)      # in-place, as Python does
                else:
                    self._bind(st.target, self._guard(_BIN[type(st.op)], cur, inc))
            elif isinstance(st, ast.If):
                self.run(st.body if self.ev(st.test) else st.orelse)
            elif isinstance(st, ast.For):
                broke = False
                itv = self.ev(st.iter)
                for v in (self._live_iter(itv) if isinstance(itv, list) else list(itv)):
                    self._bind(st.target, v)
                    try:
                        self.run(st.body)
                    except _Break:
                        broke = True
                        break
                    except _Continue:
                        continue
                if not broke:
                    self.run(st.orelse)
            elif isinstance(st, ast.While):
                while self.ev(st.test):
                    try:
                        self.run(st.body)
                    except _Break:
                        break
                    except _Continue:
                        continue
            elif isinstance(st, ast.Delete):
                for t in st.targets:
                    if isinstance(t, ast.Subscript):
                        base = self.ev(t.value)
                        self._guard(lambda b, i: b.__delitem__(i), base, self._index(t.slice))
                    elif isinstance(t, ast.Name):
                        self.env.pop(t.id, None)
                    else:
                        raise Unmodelled("del target")
            elif isinstance(st, ast.Break):
                raise _Break()
            elif isinstance(st, ast.Continue):
                raise _Continue()
            elif isinstance(st, ast.Pass):
                continue
            elif isinstance(st, ast.Return):
                raise Return(self.ev(st.value) if st.value is not None else None)
            elif isinstance(st, ast.Assert):
                if not self.ev(st.test):
                    raise ModelError("assertion fails")
            else:
                raise Unmodelled(f"statement `{type(st).__name__}`")

    def _live_iter(self, lst: list):
        """iterate a list the way Python does: by position, seeing mutations made in the body"""
        i = 0
        while i < len(lst):
            self.tick()
            yield lst[i]
            i += 1


def partitions(n: int):
    """all set partitions of range(n) as restricted-growth strings"""
    def rec(prefix, mx):
        if len(prefix) == n:
            yield tuple(prefix)
            return
        for c in range(mx + 2):
            yield from rec(prefix + [c], max(mx, c))
    if n == 0:
        yield ()
        return
    yield from rec([0], 0)
