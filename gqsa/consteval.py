"""Constant folding of *closed* literal expressions (no variables): numbers, lists, small numpy matrix displays."""
from __future__ import annotations

import ast
from typing import Any

from .core import call_attr, dotted


class NotConstant(Exception):
    pass


def _is_mat(v) -> bool:
    return isinstance(v, list) and v and isinstance(v[0], list)


def _is_vec(v) -> bool:
    return isinstance(v, list) and (not v or not isinstance(v[0], list))


def _map(v, f):
    if isinstance(v, list):
        return [_map(x, f) for x in v]
    return f(v)


def fold(node: ast.AST, names: Any = None) -> Any:
    """closed-literal folding; `names` optionally maps local names to the (closed) expressions they are bound to"""
    if names is not None:
        return _fold_env(node, names, set())
    return _fold(node)


def _fold_env(node: ast.AST, names, busy) -> Any:
    # substitute names, then fold; matrix products and `% 2` are supported here (small GF(2) tables built from generators)
    if isinstance(node, ast.Name):
        if node.id in names and node.id not in busy:
            return _fold_env(names[node.id], names, busy | {node.id})
        raise NotConstant(f"name {node.id}")
    if isinstance(node, ast.BinOp) and isinstance(node.op, ast.MatMult):
        a, b = _fold_env(node.left, names, busy), _fold_env(node.right, names, busy)
        if _is_mat(a) and _is_mat(b) and len(a[0]) == len(b):
            return [[sum(a[i][k] * b[k][j] for k in range(len(b))) for j in range(len(b[0]))] for i in range(len(a))]
        raise NotConstant("matmul of non-matrices")
    if isinstance(node, ast.BinOp) and isinstance(node.op, ast.Mod):
        a, b = _fold_env(node.left, names, busy), _fold_env(node.right, names, busy)
        if not isinstance(b, list):
            return _map(a, lambda x: x % b)
        raise NotConstant("mod by array")
    if isinstance(node, ast.Call) and call_attr(node) == "astype" and isinstance(node.func, ast.Attribute):
        return _fold_env(node.func.value, names, busy)
    if isinstance(node, ast.Call) and call_attr(node) in ("array", "asarray") and node.args:
        return _fold_env(node.args[0], names, busy)
    if isinstance(node, ast.Call) and call_attr(node) in ("eye", "identity") and node.args:
        n = _fold_env(node.args[0], names, busy)
        if isinstance(n, int):
            return [[1 if i == j else 0 for j in range(n)] for i in range(n)]
    if isinstance(node, (ast.List, ast.Tuple)):
        return [_fold_env(e, names, busy) for e in node.elts]
    return _fold(node)


def _fold(node: ast.AST) -> Any:
    if isinstance(node, ast.Constant) and isinstance(node.value, (int, float, complex, str, bool)):
        return node.value
    if isinstance(node, (ast.List, ast.Tuple)):
        return [_fold(e) for e in node.elts]
    if isinstance(node, ast.UnaryOp) and isinstance(node.op, ast.USub):
        return _map(_fold(node.operand), lambda x: -x)
    if isinstance(node, ast.UnaryOp) and isinstance(node.op, ast.UAdd):
        return _fold(node.operand)
    if isinstance(node, ast.BinOp):
        a, b = _fold(node.left), _fold(node.right)
        if isinstance(node.op, ast.Div):
            if isinstance(b, list):
                raise NotConstant("division by array")
            return _map(a, lambda x: x / b)
        if isinstance(node.op, ast.Mult):
            if isinstance(a, list) and isinstance(b, list):
                raise NotConstant("elementwise array product")
            if isinstance(a, list):
                return _map(a, lambda x: x * b)
            return _map(b, lambda x: a * x)
        if isinstance(node.op, ast.Pow) and not isinstance(a, list) and not isinstance(b, list):
            return a ** b
        if isinstance(node.op, (ast.Add, ast.Sub)) and not isinstance(a, list) and not isinstance(b, list):
            return a + b if isinstance(node.op, ast.Add) else a - b
        raise NotConstant(ast.dump(node.op))
    if isinstance(node, ast.Call):
        name = call_attr(node)
        d = dotted(node.func) or ""
        head = d.split(".")[0]
        if head in ("np", "numpy") or "." not in d:
            if name in ("array", "asarray") and node.args:
                return _fold(node.args[0])
            if name == "sqrt" and len(node.args) == 1:
                v = _fold(node.args[0])
                if isinstance(v, list):
                    raise NotConstant("sqrt of array")
                return v ** 0.5
            if name == "diag" and len(node.args) == 1:
                v = _fold(node.args[0])
                if _is_vec(v):
                    n = len(v)
                    return [[v[i] if i == j else 0 for j in range(n)] for i in range(n)]
            if name in ("eye", "identity") and len(node.args) == 1:
                n = _fold(node.args[0])
                if isinstance(n, int):
                    return [[1.0 if i == j else 0.0 for j in range(n)] for i in range(n)]
        raise NotConstant(f"call {d}")
    raise NotConstant(type(node).__name__)


def fold_return(fn: ast.FunctionDef) -> Any:
    """Value of a function whose body is (docstring +) a single ``return <closed expr>``."""
    body = [s for s in fn.body if not (isinstance(s, ast.Expr) and isinstance(s.value, ast.Constant))]
    if len(body) == 1 and isinstance(body[0], ast.Return) and body[0].value is not None:
        return fold(body[0].value)
    raise NotConstant(f"{fn.name}: body is not a single return")


def to_complex_matrix(v):
    if not _is_mat(v):
        raise NotConstant("not a matrix")
    return [[complex(x) for x in row] for row in v]
