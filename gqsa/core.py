"""gqsa core: source loader, import tables, class hierarchy, anchors, AST helpers.

Pure standard library.  graphiq is never imported; everything is read from
``<repo>/graphiq/**/*.py`` on every run.
"""
from __future__ import annotations

import ast
import os
import re
import warnings

warnings.simplefilter("ignore", SyntaxWarning)
from dataclasses import dataclass, field
from typing import Dict, Iterable, Iterator, List, Optional, Set, Tuple


class AnalysisError(Exception):
    """The checker could not analyse the tree (vanished anchor, unknown shape).

    Mapped to ``ANALYSIS-ERROR`` / exit 2 by the CLI: never a pass, never a
    violation."""


# --------------------------------------------------------------------------- AST helpers


def norm(node) -> str:
    """Normalised source text of a node: formatting/comment independent."""
    if isinstance(node, str):
        return re.sub(r"\s+", " ", node).strip()
    try:
        return re.sub(r"\s+", " ", ast.unparse(node)).strip()
    except Exception:  # pragma: no cover
        return "<unparse-failed>"


def short(node, n: int = 160) -> str:
    s = norm(node)
    return s if len(s) <= n else s[: n - 3] + "..."


def normalise_tree(tree: ast.AST) -> None:
    """Views that every rule may rely on (applied once, in place, line numbers kept):
    `for k, x in enumerate(S): ...` whose counter k is never read (anywhere in the enclosing function) is the loop `for x in S: ...`.
    Rules are written against the plain form; a counter that *is* used keeps the tuple target and is dealt with by the rule concerned."""
    for fn in [f for f in ast.walk(tree) if isinstance(f, (ast.FunctionDef, ast.AsyncFunctionDef, ast.Module))]:
        own = list(ast.walk(fn))
        for lp in [l for l in own if isinstance(l, (ast.For, ast.comprehension))]:
            t, it = lp.target, lp.iter
            if isinstance(t, ast.Tuple) and len(t.elts) == 2 and isinstance(t.elts[0], ast.Name) and isinstance(it, ast.Call) \
                    and isinstance(it.func, ast.Name) and it.func.id == "enumerate" and len(it.args) == 1 and not it.keywords:
                k = t.elts[0].id
                scope = next((f for f in ast.walk(tree) if isinstance(f, (ast.FunctionDef, ast.AsyncFunctionDef)) and any(x is lp for x in ast.walk(f))), tree)
                uses = [x for x in ast.walk(scope) if isinstance(x, ast.Name) and x.id == k and isinstance(x.ctx, ast.Load)]
                if not uses:
                    lp.target = t.elts[1]
                    lp.iter = it.args[0]


def set_parents(tree: ast.AST) -> None:
    for parent in ast.walk(tree):
        for child in ast.iter_child_nodes(parent):
            child._parent = parent  # type: ignore[attr-defined]
    tree._parent = None  # type: ignore[attr-defined]


def parent(node):
    return getattr(node, "_parent", None)


class _Subst(ast.NodeTransformer):
    def __init__(self, mapping):
        self.mapping = mapping

    def visit_Name(self, node):
        if isinstance(node.ctx, ast.Load) and node.id in self.mapping:
            import copy as _copy
            return ast.copy_location(_copy.deepcopy(self.mapping[node.id]), node)
        return node


def inline_single_return_calls(fn, expr, module_find=None, depth: int = 0):
    """`expr` with every call of a *single-return* helper — a function nested in `fn`, or found by `module_find(name)` — replaced by the
    helper's return expression, the parameters substituted by the arguments.  Only helpers whose body is one `return E` (after an
    optional docstring) are inlined; anything else is left as it is."""
    import copy as _copy
    local = {f.name: f for f in ast.walk(fn) if isinstance(f, ast.FunctionDef) and f is not fn}

    class _Inline(ast.NodeTransformer):
        def visit_Call(self, node):
            self.generic_visit(node)
            if isinstance(node.func, ast.Name):
                h = local.get(node.func.id) or (module_find(node.func.id) if module_find is not None else None)
                if isinstance(h, ast.FunctionDef) and not node.keywords:
                    body = [b for b in h.body if not (isinstance(b, ast.Expr) and isinstance(b.value, ast.Constant))]
                    ps = [a.arg for a in h.args.args]
                    if len(body) == 1 and isinstance(body[0], ast.Return) and body[0].value is not None and len(ps) == len(node.args):
                        return ast.copy_location(_Subst(dict(zip(ps, node.args))).visit(_copy.deepcopy(body[0].value, {id(body[0]): body[0]})), node)
            return node
    out = _Inline().visit(_copy.deepcopy(expr, {id(getattr(expr, "_parent", None)): getattr(expr, "_parent", None)}))
    return ast.fix_missing_locations(out)


def deref(fn, e, depth: int = 0):
    """the expression a local name stands for: when `e` is a name bound exactly once in `fn` (a plain `name = <expr>`, not a parameter, not
    a loop / with / except target), the bound expression — followed through further such names.  Lets a rule read `t = g(x); f(t)` like
    `f(g(x))` without caring whether the value was given a name."""
    while isinstance(e, ast.Name) and depth < 4:
        ps = {a.arg for a in fn.args.args + fn.args.kwonlyargs + fn.args.posonlyargs} if isinstance(fn, (ast.FunctionDef, ast.AsyncFunctionDef)) else set()
        if e.id in ps:
            return e
        stores = [x for x in ast.walk(fn) if isinstance(x, ast.Name) and x.id == e.id and not isinstance(x.ctx, ast.Load)]
        binds = [a for a in ast.walk(fn) if isinstance(a, ast.Assign) and len(a.targets) == 1 and isinstance(a.targets[0], ast.Name) and a.targets[0].id == e.id]
        if len(stores) != 1 or len(binds) != 1:
            return e
        e = binds[0].value
        depth += 1
    return e


def expand(fn, e, depth: int = 3):
    """a copy of `e` in which every local name that is bound exactly once in `fn` (see deref) is replaced by the expression it names,
    repeatedly: the expression as it reads when no intermediate value was given a name.  Names bound in loops, parameters and names with
    several bindings stay."""
    import copy as _copy
    if depth <= 0:
        return e

    class _E(ast.NodeTransformer):
        def visit_Name(self, node):
            if isinstance(node.ctx, ast.Load):
                v = deref(fn, node)
                if v is not node:
                    return ast.copy_location(expand(fn, _copy.deepcopy(v, {id(getattr(v, "_parent", None)): getattr(v, "_parent", None)}), depth - 1), node)
            return node
    par = getattr(e, "_parent", None)
    return _E().visit(_copy.deepcopy(e, {id(par): par} if par is not None else {}))


def specialise_call(helper, call):
    """a copy of `helper` as it runs for this call: parameters bound to literal arguments (or literal defaults) are replaced by the
    literals, `if` statements whose test became a literal are pruned to the arm taken, and f-string slots that became string literals are
    folded into the text.  Parameters bound to non-literal arguments are replaced by the argument expression.  Line numbers are kept."""
    import copy as _copy
    par = getattr(helper, "_parent", None)
    h = _copy.deepcopy(helper, {id(par): par} if par is not None else {})
    ps = [a.arg for a in h.args.args]
    defaults = dict(zip(ps[len(ps) - len(h.args.defaults):], h.args.defaults))
    bind = {}
    for p_, a_ in zip(ps, call.args):
        bind[p_] = a_
    for k in call.keywords:
        if k.arg in ps:
            bind[k.arg] = k.value
    for p_, d_ in defaults.items():
        bind.setdefault(p_, d_)

    class _S(ast.NodeTransformer):
        def visit_FunctionDef(self, node):
            if node is not h:
                # a nested function that re-uses a bound name as its own parameter shadows it
                inner = {a.arg for a in node.args.args}
                saved = dict(bind)
                for k in inner:
                    bind.pop(k, None)
                self.generic_visit(node)
                bind.clear(); bind.update(saved)
                return node
            self.generic_visit(node)
            return node

        def visit_Name(self, node):
            if isinstance(node.ctx, ast.Load) and node.id in bind:
                return ast.copy_location(_copy.deepcopy(bind[node.id]), node)
            return node

        def visit_If(self, node):
            self.generic_visit(node)
            if isinstance(node.test, ast.Constant):
                return node.body if node.test.value else (node.orelse or [ast.copy_location(ast.Pass(), node)])
            return node

        def visit_JoinedStr(self, node):
            self.generic_visit(node)
            vals, buf = [], ""
            for v in node.values:
                if isinstance(v, ast.Constant) and isinstance(v.value, str):
                    buf += v.value
                elif isinstance(v, ast.FormattedValue) and isinstance(v.value, ast.Constant) and isinstance(v.value.value, str) and v.format_spec is None:
                    buf += v.value.value
                else:
                    if buf:
                        vals.append(ast.Constant(value=buf)); buf = ""
                    vals.append(v)
            if buf:
                vals.append(ast.Constant(value=buf))
            if len(vals) == 1 and isinstance(vals[0], ast.Constant):
                return ast.copy_location(vals[0], node)
            node.values = vals
            return node
    h = _S().visit(h)
    ast.fix_missing_locations(h)
    set_parents(h)
    h._parent = par
    return h


def unroll_literal_loops(fn):
    """a copy of the function in which every `for a, b in ((x1, y1), (x2, y2)): body` over a *literal* tuple / list is replaced by the
    bodies with a, b substituted — the table-driven form of two parallel blocks reads like the blocks themselves.  Loops whose body
    re-binds a loop variable, or contains break / continue, are left alone.  Line numbers are kept; parents are set on the copy."""
    import copy as _copy
    if not any(isinstance(l, ast.For) and isinstance(l.iter, (ast.Tuple, ast.List)) and l.iter.elts for l in ast.walk(fn)):
        return fn
    par = getattr(fn, "_parent", None)
    out = _copy.deepcopy(fn, {id(par): par} if par is not None else {})     # the copy stops at the function: the parent link is shared, not copied

    def expand(stmts):
        res = []
        for st in stmts:
            for blk in ("body", "orelse", "finalbody"):
                if isinstance(getattr(st, blk, None), list) and not isinstance(st, (ast.FunctionDef, ast.ClassDef, ast.AsyncFunctionDef)):
                    setattr(st, blk, expand(getattr(st, blk)))
            for h in getattr(st, "handlers", []) or []:
                h.body = expand(h.body)
            if isinstance(st, ast.For) and isinstance(st.iter, (ast.Tuple, ast.List)) and st.iter.elts and not st.orelse:
                names = [st.target.id] if isinstance(st.target, ast.Name) else \
                    [e.id for e in st.target.elts] if isinstance(st.target, (ast.Tuple, ast.List)) and all(isinstance(e, ast.Name) for e in st.target.elts) else None
                rows = []
                for el in st.iter.elts:
                    if isinstance(st.target, ast.Name):
                        rows.append([el])
                    elif isinstance(el, (ast.Tuple, ast.List)) and names is not None and len(el.elts) == len(names):
                        rows.append(list(el.elts))
                    else:
                        rows = None
                        break
                rebinding = any(isinstance(x, ast.Name) and isinstance(x.ctx, (ast.Store, ast.Del)) and names and x.id in names for b in st.body for x in ast.walk(b))
                jumps = any(isinstance(x, (ast.Break, ast.Continue)) for b in st.body for x in ast.walk(b))
                if names is not None and rows and not rebinding and not jumps:
                    for row in rows:
                        mp = dict(zip(names, row))
                        for b in st.body:
                            res.append(ast.fix_missing_locations(_Subst(mp).visit(_copy.deepcopy(b, {id(st): st}))))
                    continue
            res.append(st)
        return res
    out.body = expand(out.body)
    set_parents(out)
    out._parent = getattr(fn, "_parent", None)
    return out


def ancestors(node) -> Iterator[ast.AST]:
    p = parent(node)
    while p is not None:
        yield p
        p = parent(p)


def enclosing_function(node):
    for a in ancestors(node):
        if isinstance(a, (ast.FunctionDef, ast.AsyncFunctionDef, ast.Lambda)):
            return a
    return None


def enclosing_def(node):
    for a in ancestors(node):
        if isinstance(a, (ast.FunctionDef, ast.AsyncFunctionDef)):
            return a
    return None


def enclosing_class(node):
    for a in ancestors(node):
        if isinstance(a, ast.ClassDef):
            return a
    return None


def enclosing_stmt(node):
    """Innermost statement node containing ``node`` (or node itself)."""
    cur = node
    while cur is not None and not isinstance(cur, ast.stmt):
        cur = parent(cur)
    return cur


def qualname(node) -> str:
    parts: List[str] = []
    cur = node
    while cur is not None:
        if isinstance(cur, (ast.FunctionDef, ast.AsyncFunctionDef, ast.ClassDef)):
            parts.append(cur.name)
        elif isinstance(cur, ast.Lambda):
            parts.append("<lambda>")
        cur = parent(cur)
    return ".".join(reversed(parts)) or "<module>"


def dotted(node) -> Optional[str]:
    """``a.b.c`` for Name/Attribute chains, else None."""
    parts = []
    cur = node
    while isinstance(cur, ast.Attribute):
        parts.append(cur.attr)
        cur = cur.value
    if isinstance(cur, ast.Name):
        parts.append(cur.id)
        return ".".join(reversed(parts))
    return None


def call_name(call: ast.Call) -> Optional[str]:
    return dotted(call.func)


def call_attr(call: ast.Call) -> Optional[str]:
    """Last component of the callee (method or function name)."""
    f = call.func
    if isinstance(f, ast.Attribute):
        return f.attr
    if isinstance(f, ast.Name):
        return f.id
    return None


def walk_no_nested(node, include_self: bool = False) -> Iterator[ast.AST]:
    """Walk a function body without descending into nested defs/lambdas/classes."""
    stack = [node] if include_self else list(ast.iter_child_nodes(node))
    while stack:
        n = stack.pop()
        yield n
        if isinstance(n, (ast.FunctionDef, ast.AsyncFunctionDef, ast.Lambda, ast.ClassDef)) and n is not node:
            continue
        stack.extend(ast.iter_child_nodes(n))


def calls_in(node, nested: bool = True) -> List[ast.Call]:
    it = ast.walk(node) if nested else walk_no_nested(node, include_self=True)
    out = [n for n in it if isinstance(n, ast.Call)]
    out.sort(key=lambda c: (c.lineno, c.col_offset))
    return out


def names_in(node) -> Set[str]:
    return {n.id for n in ast.walk(node) if isinstance(n, ast.Name)}


def get_kw(call: ast.Call, name: str):
    for kw in call.keywords:
        if kw.arg == name:
            return kw.value
    return None


def arg_or_kw(call: ast.Call, pos: int, name: str):
    """Argument bound to positional index ``pos`` / keyword ``name``."""
    v = get_kw(call, name)
    if v is not None:
        return v
    if pos < len(call.args) and not any(isinstance(a, ast.Starred) for a in call.args[: pos + 1]):
        return call.args[pos]
    return None


def func_params(fn) -> List[str]:
    a = fn.args
    return [x.arg for x in a.posonlyargs + a.args]


def const_value(node):
    if isinstance(node, ast.Constant):
        return node.value
    raise ValueError("not a constant")


def is_const(node, value=None) -> bool:
    if not isinstance(node, ast.Constant):
        return False
    return value is None or (node.value == value and type(node.value) is type(value))


def stmt_ends_in_raise(body: List[ast.stmt]) -> bool:
    return bool(body) and isinstance(body[-1], ast.Raise)


# --------------------------------------------------------------------------- modules


@dataclass
class Module:
    name: str  # dotted, e.g. graphiq.circuit.ops
    path: str  # absolute
    rel: str  # relative to repo root, e.g. graphiq/circuit/ops.py
    src: str
    tree: ast.Module
    imports: Dict[str, str] = field(default_factory=dict)  # local name -> dotted target
    star_imports: List[str] = field(default_factory=list)

    def top_defs(self) -> Dict[str, ast.AST]:
        d: Dict[str, ast.AST] = {}
        for st in self.tree.body:
            if isinstance(st, (ast.FunctionDef, ast.AsyncFunctionDef, ast.ClassDef)):
                d[st.name] = st
        return d

    def find(self, qual: str):
        """Find class / function / method by qualified name, or None."""
        parts = qual.split(".")
        scope = self.tree.body
        node = None
        for p in parts:
            node = None
            for st in scope:
                if isinstance(st, (ast.FunctionDef, ast.AsyncFunctionDef, ast.ClassDef)) and st.name == p:
                    node = st  # last definition wins (as in Python)
            if node is None:
                return None
            scope = node.body
        return node

    def functions(self) -> Iterator[ast.FunctionDef]:
        for n in ast.walk(self.tree):
            if isinstance(n, (ast.FunctionDef, ast.AsyncFunctionDef)):
                yield n


@dataclass
class ClassInfo:
    name: str
    module: Module
    node: ast.ClassDef
    base_exprs: List[str]
    bases: List["ClassInfo"] = field(default_factory=list)

    @property
    def key(self) -> str:
        return f"{self.module.name}.{self.name}"

    def methods(self) -> Dict[str, ast.FunctionDef]:
        d = {}
        for st in self.node.body:
            if isinstance(st, (ast.FunctionDef, ast.AsyncFunctionDef)):
                d[st.name] = st  # last wins (property setters overwrite; fine for our use)
        return d

    def class_attrs(self) -> Dict[str, ast.expr]:
        d = {}
        for st in self.node.body:
            if isinstance(st, ast.Assign):
                for t in st.targets:
                    if isinstance(t, ast.Name):
                        d[t.id] = st.value
            elif isinstance(st, ast.AnnAssign) and isinstance(st.target, ast.Name) and st.value is not None:
                d[st.target.id] = st.value
        return d


_TREE_CACHE: Dict[Tuple[str, str], ast.Module] = {}


class Repo:
    """All of ``<root>/graphiq/**/*.py`` parsed, with import tables and the class hierarchy."""

    PKG = "graphiq"

    def __init__(self, root: str, overrides: Optional[Dict[str, str]] = None):
        self.root = os.path.abspath(root)
        self.overrides = overrides or {}
        self.modules: Dict[str, Module] = {}
        self.by_rel: Dict[str, Module] = {}
        self.parse_errors: List[str] = []
        self._load()
        self._imports()
        self.classes: Dict[str, List[ClassInfo]] = {}
        self._classes()

    # ---- loading
    def _load(self) -> None:
        pkg_dir = os.path.join(self.root, self.PKG)
        if not os.path.isdir(pkg_dir):
            raise AnalysisError(f"package directory missing: {pkg_dir}")
        for dp, dn, fn in os.walk(pkg_dir):
            dn[:] = sorted(d for d in dn if d != "__pycache__")
            for f in sorted(fn):
                if not f.endswith(".py"):
                    continue
                path = os.path.join(dp, f)
                rel = os.path.relpath(path, self.root)
                modname = rel[:-3].replace(os.sep, ".")
                if modname.endswith(".__init__"):
                    modname = modname[: -len(".__init__")]
                if rel in self.overrides:
                    src = self.overrides[rel]
                else:
                    with open(path, encoding="utf-8") as fh:
                        src = fh.read()
                tree = _TREE_CACHE.get((rel, src))
                if tree is None:
                    try:
                        tree = ast.parse(src, filename=path)
                    except SyntaxError as e:
                        raise AnalysisError(f"cannot parse {rel}: {e}")
                    normalise_tree(tree)
                    set_parents(tree)
                    _TREE_CACHE[(rel, src)] = tree
                m = Module(modname, path, rel, src, tree)
                self.modules[modname] = m
                self.by_rel[rel] = m

    def _imports(self) -> None:
        for m in self.modules.values():
            for st in ast.walk(m.tree):
                if isinstance(st, ast.Import):
                    for a in st.names:
                        if a.asname:
                            m.imports[a.asname] = a.name
                        else:
                            m.imports[a.name.split(".")[0]] = a.name.split(".")[0]
                elif isinstance(st, ast.ImportFrom):
                    base = st.module or ""
                    if st.level:
                        pkg = m.name.split(".")
                        if not m.path.endswith("__init__.py"):
                            pkg = pkg[:-1]
                        pkg = pkg[: len(pkg) - (st.level - 1)]
                        base = ".".join(pkg + ([st.module] if st.module else []))
                    for a in st.names:
                        if a.name == "*":
                            m.star_imports.append(base)
                        else:
                            m.imports[a.asname or a.name] = f"{base}.{a.name}"

    def _classes(self) -> None:
        for m in self.modules.values():
            for n in ast.walk(m.tree):
                if isinstance(n, ast.ClassDef):
                    ci = ClassInfo(n.name, m, n, [dotted(b) or norm(b) for b in n.bases])
                    self.classes.setdefault(n.name, []).append(ci)
        for lst in self.classes.values():
            for ci in lst:
                for b in ci.base_exprs:
                    r = self.resolve_class(ci.module, b)
                    if r is not None:
                        ci.bases.append(r)

    # ---- lookups
    def module(self, rel_or_name: str) -> Module:
        m = self.by_rel.get(rel_or_name) or self.modules.get(rel_or_name)
        if m is None:
            raise AnalysisError(f"anchor module missing: {rel_or_name}")
        return m

    def anchor(self, rel: str, qual: str):
        node = self.module(rel).find(qual)
        if node is None:
            raise AnalysisError(f"anchor missing: {rel}::{qual}")
        return node

    def try_anchor(self, rel: str, qual: str):
        m = self.by_rel.get(rel)
        return m.find(qual) if m else None

    def resolve_dotted(self, m: Module, name: str) -> Optional[str]:
        """Resolve a dotted expression used in module ``m`` to a fully qualified dotted name."""
        head, _, rest = name.partition(".")
        if head in m.imports:
            tgt = m.imports[head]
            return tgt + ("." + rest if rest else "")
        if head in m.top_defs():
            return f"{m.name}.{name}"
        for sm in m.star_imports:
            mod = self.modules.get(sm)
            if mod and head in mod.top_defs():
                return f"{sm}.{name}"
        return None

    def resolve_class(self, m: Module, name: str) -> Optional[ClassInfo]:
        full = self.resolve_dotted(m, name)
        last = name.split(".")[-1]
        cands = self.classes.get(last, [])
        if full:
            for c in cands:
                if c.key == full:
                    return c
            # from pkg import name re-exported: fall through on unique simple name
        if len(cands) == 1 and (full is None or full.startswith(self.PKG)):
            # only accept a by-name match for package classes
            if full is None and last not in m.top_defs() and "." not in name:
                # an unresolved bare name (e.g. ABC) is not a package class
                return None
            return cands[0]
        return None

    def cls(self, name: str, rel: Optional[str] = None) -> ClassInfo:
        cands = self.classes.get(name, [])
        if rel:
            cands = [c for c in cands if c.module.rel == rel]
        if len(cands) != 1:
            raise AnalysisError(f"anchor class missing or ambiguous: {name} ({rel}) -> {len(cands)} candidates")
        return cands[0]

    def mro(self, ci: ClassInfo) -> List[ClassInfo]:
        out: List[ClassInfo] = []
        seen: Set[str] = set()

        def rec(c: ClassInfo):
            if c.key in seen:
                return
            seen.add(c.key)
            out.append(c)
            for b in c.bases:
                rec(b)

        rec(ci)
        return out

    def is_subclass(self, sub: ClassInfo, sup: ClassInfo) -> bool:
        return any(c.key == sup.key for c in self.mro(sub))

    def subclasses(self, sup: ClassInfo, strict: bool = False) -> List[ClassInfo]:
        out = []
        for lst in self.classes.values():
            for c in lst:
                if self.is_subclass(c, sup) and not (strict and c.key == sup.key):
                    out.append(c)
        return sorted(out, key=lambda c: c.key)

    def lookup_method(self, ci: ClassInfo, name: str) -> Optional[Tuple[ClassInfo, ast.FunctionDef]]:
        for c in self.mro(ci):
            ms = c.methods()
            if name in ms:
                return c, ms[name]
        return None

    def all_functions(self, rels: Optional[Iterable[str]] = None) -> Iterator[Tuple[Module, ast.FunctionDef]]:
        mods = [self.module(r) for r in rels] if rels is not None else list(self.modules.values())
        for m in mods:
            for f in m.functions():
                yield m, f

    def loc(self, m: Module, node) -> str:
        return f"{m.rel}:{getattr(node, 'lineno', 0)}"


def module_of(repo: Repo, node) -> Module:
    cur = node
    while parent(cur) is not None:
        cur = parent(cur)
    for m in repo.modules.values():
        if m.tree is cur:
            return m
    raise AnalysisError("node does not belong to a loaded module")


def symbolic_return(fn) -> Optional[str]:
    """For a straight-line function body (assignments then one return): the returned expression with local names
    replaced by the expressions they were assigned (in order), as normalised text.  None if the body has another shape."""
    import copy as _copy

    env: Dict[str, ast.AST] = {}

    class Sub(ast.NodeTransformer):
        def visit_Name(self, node):
            if isinstance(node.ctx, ast.Load) and node.id in env:
                return _copy.deepcopy(env[node.id])
            return node

    for st in fn.body:
        if isinstance(st, ast.Expr) and isinstance(st.value, ast.Constant):
            continue
        if isinstance(st, ast.Assign) and len(st.targets) == 1 and isinstance(st.targets[0], ast.Name):
            env[st.targets[0].id] = Sub().visit(_copy.deepcopy(st.value))
            continue
        if isinstance(st, ast.Return) and st.value is not None:
            return norm(Sub().visit(_copy.deepcopy(st.value)))
        return None
    return None
