"""Driver: runs one property's rule set, prints the verdict lines, writes evidence."""
from __future__ import annotations

import argparse
import importlib
import json
import os
import sys
import time
import traceback
from concurrent.futures import ProcessPoolExecutor
from dataclasses import dataclass
from typing import Callable, Dict, List, Optional

from .core import AnalysisError, Repo
from .report import Ctx, Finding, load_known, match_known, write_evidence, write_replay

PROPS = [f"C{i:02d}" for i in range(1, 21)]


@dataclass
class Knockout:
    """One self-validation variant: a single edit that breaks one rule instance."""

    name: str
    rel: str  # file to edit (relative to repo root)
    edit: Callable[[str], str]  # source -> source; raise LookupError if the anchor text is gone
    rule: str  # rule expected to fire
    expect: str = ""  # substring expected in the finding key / message
    on_fixed_only: bool = False


def sub_once(old: str, new: str) -> Callable[[str], str]:
    def f(src: str) -> str:
        if src.count(old) != 1:
            raise LookupError(f"knock-out anchor text occurs {src.count(old)} times: {old[:60]!r}")
        return src.replace(old, new)

    return f


def sub_nth(old: str, new: str, n: int = 0) -> Callable[[str], str]:
    def f(src: str) -> str:
        parts = src.split(old)
        if len(parts) - 1 <= n:
            raise LookupError(f"knock-out anchor text occurs {len(parts) - 1} times: {old[:60]!r}")
        return old.join(parts[: n + 1]) + new + old.join(parts[n + 1:])

    return f


def load_prop(pid: str):
    return importlib.import_module(f"gqsa.props.{pid.lower()}")


_GUARDED = False


def guard_rules() -> None:
    """Wrap every `rule_*` function of the rule and property modules so that an AnalysisError raised by one rule is recorded on the
    context (ctx.analysis_errors) and the remaining rules still run: a violation found by another rule is then reported (exit 1)
    instead of being hidden behind the first unrecognised shape (exit 2)."""
    global _GUARDED
    if _GUARDED:
        return
    import functools, pkgutil
    import gqsa.rules as _r
    import gqsa.props as _p
    mods = []
    for pkg in (_r, _p):
        for mi in pkgutil.iter_modules(pkg.__path__):
            mods.append(importlib.import_module(f"{pkg.__name__}.{mi.name}"))
    for mod in mods:
        for name, fn in list(vars(mod).items()):
            if name.startswith("rule_") and callable(fn) and not getattr(fn, "_guarded", False) and getattr(fn, "__module__", None) == mod.__name__:
                def make(f):
                    @functools.wraps(f)
                    def wrapped(*a, **k):
                        ctx = a[0] if a and isinstance(a[0], Ctx) else k.get("ctx")
                        if ctx is None:
                            return f(*a, **k)
                        try:
                            return f(*a, **k)
                        except AnalysisError as e:
                            if not hasattr(ctx, "analysis_errors"):
                                ctx.analysis_errors = []
                            ctx.analysis_errors.append(str(e))
                            return None
                    wrapped._guarded = True
                    return wrapped
                w = make(fn)
                # re-bind in every module that imported the function by name
                for m2 in mods:
                    for n2, f2 in list(vars(m2).items()):
                        if f2 is fn:
                            setattr(m2, n2, w)
    _GUARDED = True


def analyse(pid: str, repo: Repo, tier: str, seed: int) -> Ctx:
    mod = load_prop(pid)
    ctx = Ctx(repo, pid, tier, seed)
    mod.run(ctx)
    ctx.check_floors()
    return ctx


def _run_knockout(args) -> Dict:
    pid, root, ko_index, tier = args
    mod = load_prop(pid)
    ko: Knockout = mod.KNOCKOUTS[ko_index]
    path = os.path.join(root, ko.rel)
    try:
        with open(path, encoding="utf-8") as fh:
            src = fh.read()
        new = ko.edit(src)
    except (LookupError, OSError, ValueError) as e:      # str.index raises ValueError when the anchor text is gone
        return {"name": ko.name, "status": "not-applicable", "why": str(e)}
    if new == src:
        return {"name": ko.name, "status": "not-applicable", "why": "edit is a no-op"}
    try:
        guard_rules()
        repo = Repo(root, overrides={ko.rel: new})
        ctx = Ctx(repo, pid, tier, 0)
        try:
            mod.run(ctx)
        except AnalysisError as e_run:
            if not hasattr(ctx, "analysis_errors"):
                ctx.analysis_errors = []
            ctx.analysis_errors.append(str(e_run))
        fired = [f for f in ctx.findings if f.rule == ko.rule and (ko.expect in f.key or ko.expect in f.message)]
        if fired:
            return {"name": ko.name, "status": "fired", "rule": ko.rule, "finding": fired[0].key[:200]}
        errs = getattr(ctx, "analysis_errors", [])
        if errs:
            return {"name": ko.name, "status": "analysis-error", "rule": ko.rule, "why": errs[0][:200]}
        return {"name": ko.name, "status": "missed", "rule": ko.rule,
                "others": [f.key[:120] for f in ctx.findings][:5]}
    except AnalysisError as e:
        # an edit that makes the anchor unrecognisable is also detected (exit 2 path)
        return {"name": ko.name, "status": "analysis-error", "rule": ko.rule, "why": str(e)[:200]}
    except Exception as e:  # an internal error of a rule on the edited source: reported, never a traceback flood
        return {"name": ko.name, "status": "analysis-error", "rule": ko.rule, "why": f"internal error: {type(e).__name__}: {str(e)[:160]}"}


def selftest(pid: str, root: str, tier: str, base_keys: set) -> Dict:
    mod = load_prop(pid)
    kos: List[Knockout] = getattr(mod, "KNOCKOUTS", [])
    if not kos:
        return {"variants": 0, "fired": 0, "missed": 0, "results": []}
    jobs = [(pid, root, i, tier) for i in range(len(kos))]
    results: List[Dict] = []
    workers = min(16, len(jobs))
    try:
        with ProcessPoolExecutor(max_workers=workers) as ex:
            results = list(ex.map(_run_knockout, jobs))
    except Exception:  # fall back to serial
        results = [_run_knockout(j) for j in jobs]
    fired = sum(1 for r in results if r["status"] == "fired")
    missed = [r for r in results if r["status"] == "missed"]
    return {
        "variants": len(results),
        "fired": fired,
        "missed": len(missed),
        "analysis_error": sum(1 for r in results if r["status"] == "analysis-error"),
        "not_applicable": sum(1 for r in results if r["status"] == "not-applicable"),
        "results": results,
    }


def main(argv: Optional[List[str]] = None) -> int:
    ap = argparse.ArgumentParser(prog="check")
    ap.add_argument("property")
    ap.add_argument("--tier", default=os.environ.get("VERIF_TIER") or "quick", choices=["quick", "thorough"])
    ap.add_argument("--repo", default=os.environ.get("GQSA_REPO", "/repo"))
    ap.add_argument("--replay", default=None, help="re-run the single obligation recorded in a replay file")
    ap.add_argument("--no-evidence", action="store_true")
    ap.add_argument("--evidence-path", default=None)
    ap.add_argument("--known", default=None, help="known-findings file (default /verif/known_findings.json)")
    ap.add_argument("--json", action="store_true", help="print findings as JSON (for tooling)")
    args = ap.parse_args(argv)

    pid = args.property.upper()
    if pid not in PROPS:
        print(f"ANALYSIS-ERROR unknown property {pid}")
        return 2
    try:
        seed = int(os.environ.get("VERIF_SEED", "0") or 0)
    except ValueError:
        seed = 0
    t0 = time.time()
    replay_key = None
    if args.replay:
        with open(args.replay) as fh:
            replay_key = json.load(fh).get("key")

    try:
        guard_rules()
        mod = load_prop(pid)
        repo = Repo(args.repo)
        ctx = Ctx(repo, pid, args.tier, seed)
        try:
            mod.run(ctx)
        except AnalysisError as e_run:
            # raised by an inline clause of run() itself (not a guarded rule_*): the rules that already ran keep their findings
            if not hasattr(ctx, "analysis_errors"):
                ctx.analysis_errors = []
            ctx.analysis_errors.append(str(e_run))
        errs = getattr(ctx, "analysis_errors", [])
        if not ctx.findings:
            if errs:
                raise AnalysisError(errs[0] + (f" (+{len(errs) - 1} more)" if len(errs) > 1 else ""))
            # instance floors guard against a vacuous pass; a run that has findings reports them
            ctx.check_floors()
        else:
            for e_ in errs:
                print(f"NOTE property={pid} a rule could not be evaluated on this tree (reported findings come from the other rules): {e_}")
    except AnalysisError as e:
        print(f"ANALYSIS-ERROR property={pid} {e}")
        _evidence_on_error(pid, args, seed, t0, str(e))
        return 2
    except Exception as e:  # tracebacks exit 2, never 1
        prior = getattr(locals().get("ctx"), "analysis_errors", None)
        if prior:
            # a rule that could not be evaluated returned nothing and its caller tripped over that: report the original reason
            print(f"ANALYSIS-ERROR property={pid} {prior[0]}")
            _evidence_on_error(pid, args, seed, t0, prior[0])
            return 2
        traceback.print_exc()
        print(f"ANALYSIS-ERROR property={pid} internal error: {type(e).__name__}: {e}")
        _evidence_on_error(pid, args, seed, t0, f"internal error {type(e).__name__}: {e}")
        return 2

    known = load_known(args.known)
    known_matched: List[str] = []
    violations: List[Finding] = []
    for f in ctx.findings:
        if replay_key is not None and f.key != replay_key:
            continue
        k = match_known(f, known)
        if k is not None:
            known_matched.append(f.key)
            print(f"KNOWN-FINDING: property={pid} {k.get('what', f.message)} [{f.rule} {f.file}::{f.func} :: {f.construct[:100]}]")
        else:
            violations.append(f)
    for a in ctx.advisories:
        print(f"ADVISORY property={pid} {a.rule} {a.file}:{a.line} {a.func}: {a.message}")

    st = None
    rc = 0
    if args.tier == "thorough" and replay_key is None:
        st = selftest(pid, repo.root, args.tier, {f.key for f in ctx.findings})
        for r in st["results"]:
            print(f"SELFTEST {pid} {r['name']}: {r['status']}" + (f" ({r.get('why', '')})" if r.get("why") else ""))
        print(f"SELFTEST {pid} variants={st['variants']} fired={st['fired']} missed={st['missed']} "
              f"analysis_error={st.get('analysis_error', 0)} not_applicable={st.get('not_applicable', 0)}")
        if st["missed"]:
            print(f"ANALYSIS-ERROR property={pid} self-validation: {st['missed']} knock-out variant(s) not detected")
            rc = 2

    for f in violations:
        path = write_replay(f, repo.root)
        print(f"{f.file}:{f.line}: [{f.rule}] in {f.func}: {f.message}")
        print(f"    construct: {f.construct}")
        for c in f.chain:
            print(f"    because: {c}")
        print(f"VIOLATION property={pid} replay={path}")
    if violations:
        rc = 1
    elif errs:
        # every finding of this run is a listed known finding, and some rule could not be evaluated: the run is undecided, not clean
        print(f"ANALYSIS-ERROR property={pid} {errs[0]}" + (f" (+{len(errs) - 1} more)" if len(errs) > 1 else ""))
        rc = 2

    n_ob = sum(s.obligations for s in ctx.rules.values())
    print(f"SUMMARY property={pid} tier={args.tier} rules={len(ctx.rules)} obligations={n_ob} "
          f"violations={len(violations)} known={len(known_matched)} advisories={len(ctx.advisories)} "
          f"modules={len(ctx.modules_analysed)} wall={time.time() - t0:.2f}s")
    if args.json:
        print("JSON " + json.dumps([f.to_json() for f in ctx.findings]))
    if not args.no_evidence and replay_key is None:
        write_evidence(ctx, time.time() - t0, len(violations), known_matched, st,
                       explanation=getattr(mod, "EXPLANATION", ""), path=args.evidence_path)
    return rc


def _evidence_on_error(pid, args, seed, t0, msg):
    if args.no_evidence:
        return
    try:
        from .report import VERIF

        d = os.path.join(VERIF, "evidence")
        os.makedirs(d, exist_ok=True)
        ev = {
            "property_id": pid, "tier": args.tier, "seed": seed, "level": "other",
            "coverage": {"explanation": "ANALYSIS-ERROR: " + msg, "evaluations": 0, "distinct_nontrivial": 0,
                         "samples": []},
            "wall_s": round(time.time() - t0, 3), "violations": 0,
        }
        with open(args.evidence_path or os.path.join(d, f"{pid}.json"), "w") as fh:
            json.dump(ev, fh, indent=1)
    except Exception:
        pass


if __name__ == "__main__":
    sys.exit(main())
