"""Linear normal forms  sum(c_i * sym_i) + k  for index expressions over names / attributes."""
from __future__ import annotations

import ast
from typing import Dict, Optional

from .core import dotted, norm

Lin = Dict[str, int]  # symbol -> coefficient; "" -> constant


def lin(e: ast.AST, env: Optional[Dict[str, ast.AST]] = None, depth: int = 0) -> Optional[Lin]:
    """Linear form of ``e``; names bound in ``env`` (single-assignment locals) are substituted. None if not linear."""
    env = env or {}
    if isinstance(e, ast.Constant) and isinstance(e.value, int) and not isinstance(e.value, bool):
        return {"": e.value}
    if isinstance(e, ast.Name):
        if e.id in env and depth < 4:
            r = lin(env[e.id], env, depth + 1)
            if r is not None:
                return r
        return {e.id: 1}
    if isinstance(e, ast.Attribute):
        d = dotted(e)
        return {d: 1} if d else None
    if isinstance(e, ast.Subscript):
        return {norm(e): 1}
    if isinstance(e, ast.UnaryOp) and isinstance(e.op, ast.USub):
        r = lin(e.operand, env, depth)
        return None if r is None else {k: -v for k, v in r.items()}
    if isinstance(e, ast.BinOp):
        a, b = lin(e.left, env, depth), lin(e.right, env, depth)
        if a is None or b is None:
            return None
        if isinstance(e.op, ast.Add):
            return _add(a, b, 1)
        if isinstance(e.op, ast.Sub):
            return _add(a, b, -1)
        if isinstance(e.op, ast.Mult):
            if set(a) <= {""}:
                return {k: v * a.get("", 0) for k, v in b.items()}
            if set(b) <= {""}:
                return {k: v * b.get("", 0) for k, v in a.items()}
        return None
    return None


def _add(a: Lin, b: Lin, s: int) -> Lin:
    out = dict(a)
    for k, v in b.items():
        out[k] = out.get(k, 0) + s * v
    return {k: v for k, v in out.items() if v != 0 or k == ""}


def sub(a: Lin, b: Lin) -> Lin:
    return _add(a, b, -1)


def clean(a: Lin) -> Lin:
    return {k: v for k, v in a.items() if v != 0}


def equal(a: Optional[Lin], b: Optional[Lin]) -> bool:
    return a is not None and b is not None and clean(a) == clean(b)


def show(a: Lin) -> str:
    parts = []
    for k, v in sorted(a.items()):
        if v == 0:
            continue
        parts.append(f"{v}" if k == "" else (k if v == 1 else f"{v}*{k}"))
    return " + ".join(parts) or "0"
