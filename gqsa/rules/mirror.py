"""order.mirror (DESIGN §3 F3): in TimeReversedSolver every transformation applied to the working tableau is matched by
its inverse inserted at the front of the same wire of the circuit."""
from __future__ import annotations

import ast
from dataclasses import dataclass
from typing import Dict, List, Optional, Tuple

from .. import clifford as cl
from .. import linear
from ..chains import extract_chains
from ..core import (AnalysisError, Module, Repo, call_attr, call_name, calls_in, func_params, norm, parent, qualname, short)
from ..report import Ctx
from . import gatesum

TRS = "graphiq/solvers/time_reversed_solver.py"

ONEQ_HELPER = "_add_one_qubit_gate"
EE_CNOT = "_add_one_emitter_cnot"  # (circuit, control_emitter, target_emitter): emitter-register indices
EP_CNOT = "_add_emitter_photon_cnot"  # (circuit, emitter_index, photon_index)
MCR = "_add_measurement_cnot_and_reset"  # (circuit, emitter_index, photon_index)
NPH = "self.n_photon"


@dataclass
class Ev:
    kind: str  # 'T1' tableau one-qubit, 'T2' tableau cnot, 'C1' circuit one-qubit, 'C2ee', 'C2ep', 'Cmcr', 'APP' list append
    node: ast.AST
    name: str  # transform function / helper
    idx: List[ast.AST]
    classes: Optional[List[str]] = None


def _events(block: List[ast.stmt], tab_names: set) -> List[Ev]:
    out: List[Ev] = []
    for st in block:
        c = None
        if isinstance(st, ast.Expr) and isinstance(st.value, ast.Call):
            c = st.value
        elif isinstance(st, ast.Assign) and isinstance(st.value, ast.Call):
            c = st.value
        if c is None:
            continue
        d = call_name(c) or ""
        a = call_attr(c)
        if d.startswith("transform.") and c.args and norm(c.args[0]) in tab_names:
            try:
                kind, _ = gatesum.PRIMITIVES.get(a) or gatesum.DENOTES[a]
            except KeyError:
                raise AnalysisError(f"{TRS}: transform.{a} is not a known gate function")
            out.append(Ev("T1" if kind == "1" else "T2", st, a, list(c.args[1:])))
        elif d == f"self.{ONEQ_HELPER}" and len(c.args) == 3:
            lst = c.args[1]
            if isinstance(lst, ast.List) and all(isinstance(e, ast.Attribute) for e in lst.elts):
                out.append(Ev("C1", st, a, [c.args[2]], [e.attr for e in lst.elts]))
            # a Name list comes from _change_pauli_type and is handled by the call-site rule
        elif d == f"self.{EE_CNOT}" and len(c.args) == 3:
            out.append(Ev("C2ee", st, a, list(c.args[1:])))
        elif d == f"self.{EP_CNOT}" and len(c.args) == 3:
            out.append(Ev("C2ep", st, a, list(c.args[1:])))
        elif d == f"self.{MCR}" and len(c.args) == 3:
            out.append(Ev("Cmcr", st, a, list(c.args[1:])))
        elif a == "append" and isinstance(c.func, ast.Attribute) and isinstance(c.func.value, ast.Name) and c.args \
                and isinstance(c.args[0], ast.Attribute) and norm(c.args[0].value) == "ops":
            out.append(Ev("APP", st, "append", [], [c.args[0].attr]))
    return out


def _lin_eq(a: ast.AST, b: ast.AST, offset: Optional[str] = None) -> bool:
    la, lb = linear.lin(a), linear.lin(b)
    if la is None or lb is None:
        return norm(a) == norm(b)
    if offset:
        lb = dict(lb)
        lb[offset] = lb.get(offset, 0) + 1
    return linear.equal(la, lb)


def _one_qubit_product(classes: List[str]):
    ms = []
    for cname in classes:
        if cname not in cl.OPCLASS:
            raise AnalysisError(f"{TRS}: gate class ops.{cname} is not an elementary Clifford")
        ms.append(cl.OPCLASS[cname])
    return cl.prod(ms)


def _transformed_names(fn: ast.AST) -> set:
    """local names handed (first argument) to a tableau transformation `transform.<gate>(name, ...)` — the working tableau(x)"""
    out = set()
    for c in calls_in(fn):
        cn = call_name(c) or ""
        if cn.startswith("transform.") and c.args and isinstance(c.args[0], ast.Name):
            out.add(c.args[0].id)
    return out


def _tableau_product(repo: Repo, names: List[str]):
    u = cl.I2
    for n in names:
        r = gatesum.summarise_or_none(repo, n)
        if r is None:
            raise AnalysisError(f"transform.{n}: sign update is not a Pauli conjugation (reported by effect.derived-gate)")
        u = cl.mm(r[1], u)
    return u


def check_block(ctx: Ctx, repo: Repo, m: Module, fnq: str, block: List[ast.stmt], tab_names: set, column_param: Optional[str]) -> int:
    evs = _events(block, tab_names)
    if not evs:
        return 0
    T = [e for e in evs if e.kind in ("T1", "T2")]
    C = [e for e in evs if e.kind not in ("T1", "T2")]
    if not T and all(e.kind == "APP" for e in C) is False and not T and not C:
        return 0
    n = 1
    # frozen pattern: time-reversed measurement  H(e) ; measure-CNOT-and-reset(e, p) ; CNOT(e, p)   (DESIGN §5.2, one instance)
    kinds = [e.kind for e in evs]
    if "Cmcr" in kinds:
        names = [(e.kind, e.name) for e in evs]
        if names == [("T1", "hadamard_gate"), ("Cmcr", MCR), ("T2", "cnot_gate")] \
                and _lin_eq(evs[0].idx[0], evs[1].idx[0], NPH) and _lin_eq(evs[2].idx[0], evs[1].idx[0], NPH) \
                and _lin_eq(evs[2].idx[1], evs[1].idx[1]):
            ctx.ok("order.mirror", m, evs[1].node, what=f"{fnq}: time-reversed measurement pattern H(e); MCR(e,p); CNOT(e,p)")
        else:
            ctx.fail("order.mirror", m, evs[0].node,
                     f"{fnq}: the time-reversed measurement must be exactly hadamard_gate(n_photon+e); _add_measurement_cnot_and_reset(e, p); "
                     f"cnot_gate(n_photon+e, p) on the same emitter/photon — found {[x[1] for x in names]}", func=fnq,
                     construct=f"{fnq}: measurement pattern {[x[1] for x in names]}")
        return n
    # list appends of this block form one circuit event on the function's column parameter
    apps = [e for e in C if e.kind == "APP"]
    others = [e for e in C if e.kind != "APP"]
    if apps:
        if column_param is None:
            raise AnalysisError(f"{fnq}: gate_list.append outside _change_pauli_type")
        merged = Ev("C1", apps[0].node, "append", [ast.Name(id=column_param, ctx=ast.Load())], [c for e in apps for c in e.classes])
        others = [merged] + others
    C = others
    ti = 0
    for ce in C:
        if ce.kind == "C1":
            L = _one_qubit_product(ce.classes)
            names: List[str] = []
            matched = False
            while ti < len(T) and T[ti].kind == "T1" and _lin_eq(T[ti].idx[0], ce.idx[0]):
                names.append(T[ti].name)
                ti += 1
                u = _tableau_product(repo, names)
                if cl.key(cl.mm(L, u)) == cl.key(cl.I2):
                    matched = True
                    break
            if matched:
                ctx.ok("order.mirror", m, ce.node, what=f"{fnq}: [{', '.join(ce.classes)}] = inverse of {' ; '.join(names)}")
            else:
                ctx.fail("order.mirror", m, ce.node,
                         f"{fnq}: the circuit receives the one-qubit gate list [{', '.join(ce.classes)}] (a matrix product) on index "
                         f"`{norm(ce.idx[0])}`, but the tableau is transformed there by {names or 'nothing'}; the inserted gate must be the "
                         f"inverse of the tableau transformation (finite Clifford model)", func=fnq,
                         construct=f"{fnq}: [{', '.join(ce.classes)}] vs {names or 'no tableau gate'}")
        elif ce.kind in ("C2ee", "C2ep"):
            if ti < len(T) and T[ti].kind == "T2" and T[ti].name == "cnot_gate":
                t = T[ti]
                ti += 1
                ok = _lin_eq(t.idx[0], ce.idx[0], NPH) and (_lin_eq(t.idx[1], ce.idx[1], NPH) if ce.kind == "C2ee" else _lin_eq(t.idx[1], ce.idx[1]))
                if ok:
                    ctx.ok("order.mirror", m, ce.node, what=f"{fnq}: {ce.name}({', '.join(norm(i) for i in ce.idx)}) mirrors cnot_gate")
                else:
                    ctx.fail("order.mirror", m, ce.node,
                             f"{fnq}: `{short(ce.node, 90)}` and `{short(t.node, 90)}` act on different control/target qubits "
                             f"(helper indices are {'emitter registers, tableau indices are n_photon + register' if ce.kind == 'C2ee' else '(emitter register, photon)'})",
                             func=fnq, construct=f"{fnq}: {ce.name}({', '.join(norm(i) for i in ce.idx)}) vs cnot_gate({', '.join(norm(i) for i in t.idx)})")
            else:
                ctx.fail("order.mirror", m, ce.node, f"{fnq}: `{short(ce.node, 90)}` inserts a CNOT in the circuit without the matching "
                                                     f"transform.cnot_gate on the tableau", func=fnq, construct=f"{fnq}: {ce.name} without tableau cnot")
    if ti < len(T):
        for t in T[ti:]:
            ctx.fail("order.mirror", m, t.node,
                     f"{fnq}: `{short(t.node, 90)}` transforms the working tableau but no inverse gate is inserted in the circuit for it; the "
                     f"circuit then no longer generates the target", func=fnq, construct=f"{fnq}: {t.name}({', '.join(norm(i) for i in t.idx)}) not mirrored")
    return n


def rule_mirror(ctx: Ctx) -> None:
    repo = ctx.repo
    m = repo.module(TRS)
    cls = repo.cls("TimeReversedSolver", TRS)
    blocks = 0
    for name, fn in cls.methods().items():
        ctx.touch(m, fn)
        fnq = f"TimeReversedSolver.{name}"
        ps = func_params(fn)
        tab_names = {p for p in ps if "tableau" in p} | _transformed_names(fn)
        col = "column" if name == "_change_pauli_type" and "column" in ps else None
        if name == "_change_pauli_type" and col is None:
            col = ps[3] if len(ps) > 3 else None
        for node in ast.walk(fn):
            for attr in ("body", "orelse"):
                blk = getattr(node, attr, None)
                if isinstance(blk, list) and blk and isinstance(blk[0], ast.stmt):
                    blocks += check_block(ctx, repo, m, fnq, blk, tab_names, col)
    if blocks < 10:
        raise AnalysisError(f"order.mirror: only {blocks} event blocks recognised in TimeReversedSolver (expected >= 10)")
    # call sites of _change_pauli_type feed _add_one_qubit_gate on the same index
    sites = 0
    for name, fn in cls.methods().items():
        fnq = f"TimeReversedSolver.{name}"
        for st in ast.walk(fn):
            if isinstance(st, ast.Assign) and isinstance(st.value, ast.Call) and call_name(st.value) == "self._change_pauli_type":
                sites += 1
                v = norm(st.targets[0])
                colx = st.value.args[2] if len(st.value.args) > 2 else None
                body = parent(st).body if st in getattr(parent(st), "body", []) else parent(st).orelse
                i = body.index(st)
                use = None
                for nxt in body[i + 1: i + 3]:
                    for c in calls_in(nxt):
                        if call_name(c) == f"self.{ONEQ_HELPER}" and len(c.args) == 3 and norm(c.args[1]) == v:
                            use = c
                    if use is not None:
                        break
                if use is not None and colx is not None and _lin_eq(use.args[2], colx):
                    ctx.ok("order.mirror", m, use, what=f"{fnq}: gates of _change_pauli_type inserted on the transformed qubit")
                else:
                    ctx.fail("order.mirror", m, st,
                             f"{fnq}: the gate list returned by `{short(st.value, 80)}` (inverse of what was applied to tableau column "
                             f"`{norm(colx) if colx is not None else '?'}`) is not inserted by _add_one_qubit_gate on that same qubit right after",
                             func=fnq, construct=f"{fnq}: _change_pauli_type({norm(colx) if colx is not None else '?'}) result not inserted on it")
    if sites < 3:
        raise AnalysisError("order.mirror: fewer than three _change_pauli_type call sites")
    # _add_gates_from_str: per tag the tableau events implement the tag's gate (it replays inverse_circuit's list)
    fn = cls.methods().get("_add_gates_from_str")
    if fn is None:
        raise AnalysisError("anchor missing: TimeReversedSolver._add_gates_from_str")
    tag_gate = {"H": ("1", cl.H), "P": ("1", cl.P), "X": ("1", cl.X), "Y": ("1", cl.Y), "Z": ("1", cl.Z), "P_dag": ("1", cl.PD),
                "CNOT": ("2", cl.CNOT), "CZ": ("2", cl.CZ)}
    handled = set()
    for ch in extract_chains(repo, m, fn):
        for b in ch:
            if not (b.parsed and b.subject and b.subject.endswith("[0]") and len(b.literals) == 1):
                continue
            tag = next(iter(b.literals))
            handled.add(tag)
            evs = [e for e in _events(b.body, {p_ for p_ in func_params(fn) if "tableau" in p_} | _transformed_names(fn)) if e.kind in ("T1", "T2")]
            kind, want = tag_gate.get(tag, (None, None))
            if want is None:
                ctx.fail("order.mirror", m, b.node, f"_add_gates_from_str handles unknown tag '{tag}'", func="TimeReversedSolver._add_gates_from_str")
                continue
            sub = b.subject[:-3]
            if kind == "1":
                u = _tableau_product(repo, [e.name for e in evs])
                ok = all(norm(e.idx[0]) == f"{sub}[1]" for e in evs) and cl.key(u) == cl.key(want)
            else:
                u = cl.eye(4)
                ok = True
                for e in evs:
                    k2, g = gatesum.summarise(repo, e.name)
                    if k2 == "1":
                        which = norm(e.idx[0])
                        full = cl.on_first(g) if which == f"{sub}[1]" else cl.on_second(g) if which == f"{sub}[2]" else None
                        ok = ok and full is not None
                        if full is not None:
                            u = cl.mm(full, u)
                    else:
                        ok = ok and [norm(i) for i in e.idx] == [f"{sub}[1]", f"{sub}[2]"]
                        u = cl.mm(g, u)
                ok = ok and cl.key(u) == cl.key(want)
            if ok:
                ctx.ok("order.mirror", m, b.node, what=f"_add_gates_from_str: tag '{tag}' applies its own gate to the tableau")
            else:
                ctx.fail("order.mirror", m, b.node,
                         f"_add_gates_from_str applies {[e.name for e in evs]} to the tableau for tag '{tag}', which is not the gate the tag "
                         f"denotes in inverse_circuit's list", func="TimeReversedSolver._add_gates_from_str",
                         construct=f"_add_gates_from_str: tag '{tag}' -> {[e.name for e in evs]}")
    return handled



# one named exception, read before arming (Engler et al.: the unchecked path relies on a shape invariant)
GUARDED_FIRST_INVARIANT = (
    "the first emitter index is taken unguarded, but the generator handed to the index helper is itself the first element of a "
    "length-checked index array (`possible_generators`: rows that are trivial on all photons): a valid tableau has no identity row, so "
    "such a row acts on at least one emitter")


def rule_guarded_first(ctx: Ctx) -> None:
    """guarded-first: the first element of an index array obtained from np.nonzero / np.where / a helper returning one is
    only taken after its length was checked (the solver does so for `possible_generators`; an unguarded sibling raises
    IndexError when no emitter participates — e.g. for a photon that is an isolated vertex of the target)."""
    repo = ctx.repo
    m = repo.module(TRS)
    cls = repo.cls("TimeReversedSolver", TRS)
    array_helpers = set()
    for name, fn in cls.methods().items():
        rets = [r for r in ast.walk(fn) if isinstance(r, ast.Return) and r.value is not None]
        if rets and all(isinstance(r.value, ast.Subscript) and isinstance(r.value.value, ast.Call) and call_attr(r.value.value) in ("nonzero", "where")
                        for r in rets):
            array_helpers.add(name)
    n = 0
    for name, fn in cls.methods().items():
        fnq = f"TimeReversedSolver.{name}"
        arrays = {}
        for st in ast.walk(fn):
            if isinstance(st, ast.Assign) and len(st.targets) == 1 and isinstance(st.targets[0], ast.Name):
                v = st.value
                src = v.value if isinstance(v, ast.Subscript) else v
                if isinstance(src, ast.Call) and (call_attr(src) in ("nonzero", "where", "setdiff1d") or call_attr(src) in array_helpers):
                    arrays[st.targets[0].id] = st
        firsts = {}
        for st in ast.walk(fn):
            if isinstance(st, ast.Assign) and len(st.targets) == 1 and isinstance(st.targets[0], ast.Name):
                v = st.value
                while isinstance(v, ast.Call) and call_name(v) in ("int",) and v.args:
                    v = v.args[0]
                if isinstance(v, ast.Subscript) and isinstance(v.value, ast.Name) and v.value.id in arrays and norm(v.slice) == "0":
                    a0 = v.value.id
                    firsts[st.targets[0].id] = any(isinstance(g, (ast.Assert, ast.If, ast.While)) and f"len({a0})" in norm(g.test) and g.lineno <= st.lineno
                                                   for g in ast.walk(fn))
        for node in ast.walk(fn):
            if isinstance(node, ast.Subscript) and isinstance(node.value, ast.Name) and node.value.id in arrays \
                    and isinstance(node.slice, ast.Constant) and node.slice.value == 0 and isinstance(node.ctx, ast.Load):
                n += 1
                arr = node.value.id
                guarded = False
                for g in ast.walk(fn):
                    if isinstance(g, (ast.Assert, ast.If, ast.While)) and f"len({arr})" in norm(g.test) and g.lineno <= node.lineno:
                        guarded = True
                    if isinstance(g, ast.For) and norm(g.iter) == arr and any(node is x for x in ast.walk(g)):
                        guarded = True
                srcv = arrays[arr].value
                srcc = srcv.value if isinstance(srcv, ast.Subscript) else srcv
                callee = call_attr(srcc) or "?"
                # shape invariant: every name argument of the helper call is the first element of a length-checked index array
                inv = False
                if call_attr(srcc) in array_helpers:
                    for a_ in srcc.args:
                        if isinstance(a_, ast.Name) and a_.id in firsts and firsts[a_.id]:
                            inv = True
                if guarded:
                    ctx.ok("guarded-first", m, node, what=f"{fnq}: {arr}[0] after a length check")
                elif inv:
                    ctx.fail("guarded-first", m, node, GUARDED_FIRST_INVARIANT, func=fnq, advisory=True)
                    ctx.ok("guarded-first", m, node, what="non-empty by a shape invariant (named exception)")
                else:
                    ctx.fail("guarded-first", m, node,
                             f"{fnq} takes `{arr}[0]` of the index array `{short(arrays[arr].value, 60)}` without checking that it is non-empty; "
                             f"the sibling site `possible_generators[0]` asserts its length first. When no emitter takes part in the chosen "
                             f"generator (a photon that is an isolated vertex of the target) this raises IndexError", func=fnq,
                             construct=f"{fnq}: unguarded first element of {callee}(...)")
    if n == 0:
        raise AnalysisError("guarded-first: no first-element access found")
