"""Effect / aliasing rules (DESIGN §3 D1, D2, D5, F1 noise order, F5, A3, B6)."""
from __future__ import annotations

import ast
from typing import Dict, Iterable, List, Optional, Set, Tuple

from .. import flow
from ..callgraph import CallGraph, FuncKey
from ..chains import Branch, chain_of, parse_test
from ..core import (AnalysisError, Module, Repo, call_attr, call_name, calls_in, dotted, func_params, get_kw, norm, parent,
                    qualname, short)
from ..report import Ctx
from . import order

DAG = "graphiq/circuit/circuit_dag.py"
CBASE = "graphiq/backends/compiler_base.py"
MC = "graphiq/noise/monte_carlo_noise.py"
NM = "graphiq/noise/noise_models.py"
METRICS = "graphiq/metrics.py"
CMP = "graphiq/utils/circuit_comparison.py"
SB = "graphiq/solvers/solver_base.py"
TRS = "graphiq/solvers/time_reversed_solver.py"
EVO = "graphiq/solvers/evolutionary_solver.py"
HYB = "graphiq/solvers/hybrid_solvers.py"
ATS = "graphiq/solvers/alternate_target_solver.py"
PL = "graphiq/utils/photon_loss.py"
OPS = "graphiq/circuit/ops.py"

# In-place mutators of circuits / states (frozen from the CircuitDAG / QuantumState API, confirmed by reading)
CIRCUIT_MUTATORS = {"add", "insert_at", "remove_op", "replace_op", "unwrap_nodes", "remove_identity", "group_one_qubit_gates",
                    "initialize_parameters"}
STATE_MUTATORS = {"partial_trace", "convert_representation", "apply_unitary", "apply_channel", "apply_measurement",
                  "apply_circuit", "reset_qubit", "remove_qubit", "trace_out_qubits"}
MUTATORS = CIRCUIT_MUTATORS | STATE_MUTATORS


def _anc(n):
    p = parent(n)
    while p is not None:
        yield p
        p = parent(p)


def read_only_roots(repo: Repo) -> List[FuncKey]:
    roots: List[FuncKey] = []
    mb = repo.cls("MetricBase", METRICS)
    for c in repo.subclasses(mb):
        ev = c.methods().get("evaluate")
        if ev is not None and c.module.rel == METRICS:
            roots.append((METRICS, qualname(ev)))
    for q in ("compare_circuits", "direct", "ged", "ged_adaptive", "circuit_is_isomorphic", "remove_redundant_circuits",
              "check_redundant_circuit"):
        roots.append((CMP, q))
    roots += [(PL, "photon_survival_rate"), (CBASE, "CompilerBase.compile"), (DAG, "CircuitDAG.assign_noise"),
              (MC, "MonteCarloNoise.__init__"), (MC, "MonteCarloNoise.one_run"), (MC, "MonteCarloNoise.assign_noise"),
              (MC, "MonteCarloNoise.run"),
              (TRS, "TimeReversedSolver.__init__"), (TRS, "TimeReversedSolver.solve"),
              (EVO, "EvolutionarySolver.__init__"), (EVO, "EvolutionarySolver.solve"),
              (HYB, "HybridEvolutionarySolver.__init__"), (HYB, "HybridEvolutionarySolver.population_initialization"),
              (ATS, "AlternateTargetSolver.__init__"), (ATS, "AlternateTargetSolver.solve"),
              (ATS, "AlternateTargetSolver.noise_score")]
    for rel, q in roots:
        repo.anchor(rel, q)
    return roots


# --------------------------------------------------------------------------- D1


def _rebound_to_copy(fn: ast.FunctionDef, name: str) -> Optional[int]:
    """Line after which parameter ``name`` is re-bound to its own copy at the top level of the function."""
    for st in fn.body:
        if isinstance(st, ast.Assign) and any(isinstance(t, ast.Name) and t.id == name for t in st.targets) \
                and isinstance(st.value, ast.Call) and call_attr(st.value) in ("copy", "deepcopy"):
            return st.lineno
    return None


def mutation_summaries(repo: Repo, cg: CallGraph) -> Dict[FuncKey, Set[int]]:
    """function -> indices (self excluded for methods? no: positional index in the def) of parameters it mutates in place."""
    summ: Dict[FuncKey, Set[int]] = {k: set() for k in cg.funcs}
    # direct
    for k, fn in cg.funcs.items():
        ps = func_params(fn)
        for c in calls_in(fn, nested=False):
            if call_attr(c) in MUTATORS and isinstance(c.func, ast.Attribute) and isinstance(c.func.value, ast.Name) \
                    and c.func.value.id in ps and c.func.value.id != "self":
                rb = _rebound_to_copy(fn, c.func.value.id)
                if rb is None or c.lineno < rb:
                    summ[k].add(ps.index(c.func.value.id))
    changed = True
    while changed:
        changed = False
        for k, fn in cg.funcs.items():
            ps = func_params(fn)
            m = cg.mod_of[k]
            for c in calls_in(fn, nested=False):
                ks, kind = cg.resolve(m, c)
                if kind != "exact":
                    continue
                for callee in ks:
                    cps = func_params(cg.funcs[callee])
                    off = 1 if cps and cps[0] in ("self", "cls") and isinstance(c.func, ast.Attribute) else 0
                    for i, a in enumerate(c.args):
                        if isinstance(a, ast.Name) and a.id in ps and a.id != "self" and (i + off) in summ[callee]:
                            rb = _rebound_to_copy(fn, a.id)
                            if (rb is None or c.lineno < rb) and ps.index(a.id) not in summ[k]:
                                summ[k].add(ps.index(a.id))
                                changed = True
    return summ


# named exception (DESIGN §5.13): in-place conversion of the solver's target is state-preserving on the property's domain
D1_ADVISORY = {("graphiq/solvers/time_reversed_solver.py", "TimeReversedSolver.__init__", "convert_representation"):
               "converts the caller's target QuantumState to the stabilizer representation in place; the state is preserved for "
               "graph-state targets (sibling HybridEvolutionarySolver.__init__ copies first)"}


def rule_inplace_on_input(ctx: Ctx) -> None:
    repo = ctx.repo
    cg = CallGraph(repo)
    summ = mutation_summaries(repo, cg)
    n = 0
    for rel, q in read_only_roots(repo):
        fn = cg.funcs[(rel, q)]
        m = cg.mod_of[(rel, q)]
        ctx.touch(m, fn)
        ps = [p for p in func_params(fn) if p not in ("self", "cls")]
        inputs = set(ps)
        for c in calls_in(fn, nested=False):
            a = call_attr(c)
            recv = c.func.value if isinstance(c.func, ast.Attribute) else None
            hit = None
            if a in MUTATORS and recv is not None:
                t = norm(recv)
                if isinstance(recv, ast.Name) and t in inputs:
                    rb = _rebound_to_copy(fn, t)
                    if rb is None or c.lineno < rb:
                        hit = t
                elif t in ("self.circuit", "self.target", "self._circuit", "self.target_graph"):
                    hit = t
                if isinstance(recv, ast.Name) or t.startswith("self."):
                    n += 1
            ks, kind = cg.resolve(m, c)
            if hit is None and kind == "exact":
                for callee in ks:
                    cps = func_params(cg.funcs[callee])
                    off = 1 if cps and cps[0] in ("self", "cls") and isinstance(c.func, ast.Attribute) else 0
                    for i, arg in enumerate(c.args):
                        t = norm(arg)
                        if (i + off) in summ[callee] and ((isinstance(arg, ast.Name) and t in inputs and (
                                _rebound_to_copy(fn, t) is None or c.lineno < _rebound_to_copy(fn, t))) or t in ("self.circuit", "self.target")):
                            hit = t
                            a = f"{call_attr(c)} (mutates its argument {i})"
                    n += 1
            if hit is None:
                continue
            key = (rel, q, call_attr(c))
            if key in D1_ADVISORY:
                ctx.fail("effect.inplace-on-input", m, c, D1_ADVISORY[key], func=q, advisory=True)
                ctx.ok("effect.inplace-on-input", m, c, what="named exception (advisory)")
                continue
            ctx.fail("effect.inplace-on-input", m, c,
                     f"{q} applies the in-place operation `{a}` to `{hit}`, an object passed in by the caller; the call changes the "
                     f"caller's circuit / state", func=q, construct=f"{q}: {call_attr(c)} on input {hit}")
        ctx.ok_abstract("effect.inplace-on-input", f"{rel}::{q}: analysed")
    if n == 0:
        raise AnalysisError("effect.inplace-on-input: no mutator call site found in the read-only API")


# --------------------------------------------------------------------------- D2


def _ops_from_circuit(fn: ast.FunctionDef) -> Dict[str, ast.AST]:
    """Names bound to operation objects *drawn from an existing circuit* in ``fn`` -> binding node."""
    seq_names: Set[str] = set()
    for n in ast.walk(fn):
        if isinstance(n, ast.Assign) and isinstance(n.value, ast.Call) and call_attr(n.value) in ("sequence", "_slim_seq") \
                and isinstance(n.targets[0], ast.Name):
            seq_names.add(n.targets[0].id)
    out: Dict[str, ast.AST] = {}
    for n in ast.walk(fn):
        if isinstance(n, ast.For) and isinstance(n.target, ast.Name):
            it = n.iter
            src = any(isinstance(x, ast.Call) and call_attr(x) in ("sequence", "_slim_seq") for x in ast.walk(it)) or \
                any(isinstance(x, ast.Name) and x.id in seq_names for x in ast.walk(it))
            if src:
                out[n.target.id] = n
        if isinstance(n, ast.Assign) and isinstance(n.targets[0], ast.Name) and isinstance(n.value, ast.Subscript) \
                and isinstance(n.value.slice, ast.Constant) and n.value.slice.value == "op":
            out[n.targets[0].id] = n
    return out


def rule_shared_op_store(ctx: Ctx) -> None:
    repo = ctx.repo
    cg = CallGraph(repo)
    clo = cg.closure(read_only_roots(repo), exact_only=True)
    n = 0
    for k in sorted(clo):
        fn = cg.funcs[k]
        m = cg.mod_of[k]
        opn = _ops_from_circuit(fn)
        if not opn:
            continue
        ctx.touch(m, fn)
        for name, bind in opn.items():
            scope = bind if isinstance(bind, ast.For) else fn
            stores = [s for s in ast.walk(scope) if isinstance(s, (ast.Assign, ast.AugAssign)) and any(
                isinstance(t, ast.Attribute) and isinstance(t.value, ast.Name) and t.value.id == name
                for t in (s.targets if isinstance(s, ast.Assign) else [s.target]))]
            if not stores:
                ctx.ok_abstract("effect.shared-op-store", f"{k[0]}::{k[1]}: `{name}` (drawn from a circuit) is never written")
                n += 1
                continue
            # fresh: the name is re-bound to a copy before any store, inside the loop body
            fresh_line = None
            for s in ast.walk(scope):
                if isinstance(s, ast.Assign) and any(isinstance(t, ast.Name) and t.id == name for t in s.targets) \
                        and isinstance(s.value, ast.Call) and call_attr(s.value) in ("copy", "deepcopy"):
                    fresh_line = s.lineno if fresh_line is None else min(fresh_line, s.lineno)
            for s in stores:
                n += 1
                attr = [t for t in (s.targets if isinstance(s, ast.Assign) else [s.target]) if isinstance(t, ast.Attribute)][0].attr
                if fresh_line is not None and s.lineno > fresh_line:
                    ctx.ok("effect.shared-op-store", m, s, what="store on a fresh copy")
                    continue
                if _in_save_restore(s, name, attr):
                    ctx.ok("effect.shared-op-store", m, s, what="temporary swap closed by a restore on every path")
                    continue
                ctx.fail("effect.shared-op-store", m, s,
                         f"{k[1]} assigns `{name}.{attr}` on an operation object drawn from the input circuit (`{short(bind.iter if isinstance(bind, ast.For) else bind.value, 50)}`); "
                         f"the caller's circuit shares that object, so the 'read-only' call changes it",
                         func=k[1], construct=f"{k[1]}: {name}.{attr} = {short(s.value, 50)}")
    if n == 0:
        raise AnalysisError("effect.shared-op-store: nothing analysed")


def _in_save_restore(store: ast.stmt, name: str, attr: str) -> bool:
    """``store`` lies in a block of the shape  saved = name.attr; ...; name.attr = saved  (restore is the last store)."""
    blk = parent(store)
    body = getattr(blk, "body", None)
    if isinstance(blk, ast.If) and store in blk.orelse:
        body = blk.orelse
    if not body or store not in body:
        return False
    saved = None
    for st in body:
        if isinstance(st, ast.Assign) and isinstance(st.targets[0], ast.Name) and norm(st.value) == f"{name}.{attr}":
            saved = st.targets[0].id
            break
    if saved is None:
        return False

    def step(node, s):
        if isinstance(node, ast.Assign) and any(norm(t) == f"{name}.{attr}" for t in node.targets):
            return "clean" if norm(node.value) == saved else "dirty"
        return s

    o = flow.run(body, step, {"clean"})
    return (o.fall | o.ret) <= {"clean"}


# --------------------------------------------------------------------------- D5


def stores_reference(repo: Repo, cls_name: str, rel: str) -> bool:
    """<cls>.__init__ stores its data argument by reference (self.X = data, no copy)."""
    ci = repo.cls(cls_name, rel)
    r = repo.lookup_method(ci, "__init__")
    if r is None:
        return False
    init = r[1]
    dp = func_params(init)[1]
    for n in ast.walk(init):
        if isinstance(n, ast.Assign) and isinstance(n.targets[0], ast.Attribute) and norm(n.targets[0].value) == "self" \
                and isinstance(n.value, ast.Name) and n.value.id == dp:
            return True
        if isinstance(n, ast.Tuple) and any(isinstance(e, ast.Name) and e.id == dp for e in n.elts) and isinstance(parent(n), ast.List):
            return True
    return False


def _mixture_is_container(repo: Repo) -> bool:
    """MixedStabilizer keeps a list of (p, tableau) pairs handed to it (isinstance(data, list) branch storing the list)."""
    ci = repo.cls("MixedStabilizer", "graphiq/backends/stabilizer/state.py")
    init = ci.methods().get("__init__")
    if init is None:
        return False
    for n in ast.walk(init):
        if isinstance(n, ast.If) and "isinstance(data, list)" in norm(n.test):
            return True
    return False


def rule_alias_into_state(ctx: Ctx) -> None:
    repo = ctx.repo
    m = repo.module(CBASE)
    fn = repo.anchor(CBASE, "CompilerBase.compile")
    ctx.touch(m, fn)
    ps = func_params(fn)
    qs = [c for c in calls_in(fn) if call_attr(c) == "QuantumState"]
    if len(qs) != 1:
        raise AnalysisError("compile: QuantumState(...) construction not found")
    d = get_kw(qs[0], "data") or (qs[0].args[0] if qs[0].args else None)
    if not isinstance(d, ast.Name):
        raise AnalysisError("compile: data argument of QuantumState is not a name")
    sr = [c for c in ("Stabilizer", "MixedStabilizer") if stores_reference(repo, c, "graphiq/backends/stabilizer/state.py")]
    ctx.note(f"representation constructors that keep a reference to their data argument: {sr} "
             f"(and the transform.* gate functions update a tableau in place)")
    for a in [n for n in ast.walk(fn) if isinstance(n, ast.Assign) and norm(n.targets[0]) == d.id]:
        v = a.value
        roots = {x.id for x in ast.walk(v) if isinstance(x, ast.Name)}
        param_derived = bool(roots & set(ps[2:])) and isinstance(v, ast.Attribute)
        copied = isinstance(v, ast.Call) and call_attr(v) in ("copy", "deepcopy")
        shallow = isinstance(v, ast.Call) and call_attr(v) == "copy" and isinstance(v.func, ast.Attribute) \
            and dotted(v.func.value) not in ("copy",) and bool(roots & set(ps[2:]))
        if shallow and _mixture_is_container(repo):
            ctx.fail("effect.alias-into-state", m, a,
                     f"`{short(a)}` copies the caller's data with `.copy()`; for the mixed stabilizer representation the data is a *list* of "
                     f"(probability, tableau) pairs, so this copy is shallow: the tableaux are still shared and the in-place gate updates "
                     f"change the caller's initial state (use copy.deepcopy)",
                     func="CompilerBase.compile", construct=f"compile: {norm(a.targets[0])} = {norm(v)} (shallow copy of a container)")
            continue
        if param_derived and not copied and sr:
            ctx.fail("effect.alias-into-state", m, a,
                     f"`{short(a)}` hands the caller's own data object to the working QuantumState; {sr[0]}.__init__ keeps the reference "
                     f"and the gate functions update the tableau in place, so compiling mutates `{ps[2]}` and the returned state aliases it "
                     f"(a second compile from the same initial state starts from the first result)",
                     func="CompilerBase.compile", construct=f"compile: {norm(a.targets[0])} = {norm(v)} (no copy)")
        else:
            ctx.ok("effect.alias-into-state", m, a, what="fresh / scalar initial data")


# --------------------------------------------------------------------------- F1 noise list order


def rule_noise_order(ctx: Ctx) -> None:
    """The per-gate noise list of a wrapper is aligned with `operations` (unwrap() pairs noise[i] with operations[i])."""
    repo = ctx.repo
    # consumer: unwrap pairs by the same index
    om = repo.module(OPS)
    uw = repo.anchor(OPS, "OneQubitGateWrapper.unwrap")
    from ..props.c13 import unwrap_model
    _fn, bad, _cases = unwrap_model(repo)
    pairing = [b for b in bad if "per-gate noise" in b]
    if pairing:
        ctx.fail("order.wrapper", om, uw, "unwrap no longer pairs noise[i] with operations[i]: " + pairing[0], func="OneQubitGateWrapper.unwrap")
    else:
        ctx.ok("order.wrapper", om, uw, what="unwrap pairs noise[i] with operations[i] (wrapper model)")
    for rel, q in ((DAG, "CircuitDAG._noisy_gates"), (MC, "MonteCarloNoise._noisy_gates")):
        m = repo.module(rel)
        fn = repo.anchor(rel, q)
        ctx.touch(m, fn)
        calls = [c for c in calls_in(fn) if call_attr(c) == "_find_wrapped_noise"]
        if not calls:
            raise AnalysisError(f"{q}: _find_wrapped_noise call not found")
        for c in calls:
            a = c.args[0]
            src = a
            if isinstance(a, ast.Name):
                for n in ast.walk(fn):
                    if isinstance(n, ast.Assign) and norm(n.targets[0]) == a.id:
                        src = n.value
            # direction relative to `.operations`
            d = None
            it = src.generators[0].iter if isinstance(src, ast.ListComp) else src
            base, dirn = order.iter_direction(it)
            if base is not None and base.endswith(".operations"):
                d = dirn
            elif base is not None and base.endswith(".unwrap()"):
                d = -dirn
            if d == 1:
                ctx.ok("order.wrapper", m, c, what=f"{q}: noise list in `operations` order")
            elif d == -1:
                ctx.fail("order.wrapper", m, c,
                         f"{q} builds a wrapper's noise list by walking `{short(it)}` (application order, i.e. the reversed list) but "
                         f"OneQubitGateWrapper.unwrap() pairs noise[i] with operations[i]: the noise mapped to one gate is attached to another",
                         func=q, construct=f"{q}: wrapper noise list follows {short(it, 40)}")
            else:
                raise AnalysisError(f"{q}: source of the wrapper's gate-type list not recognised: {short(src)}")
        # the helper keeps its input order
        h = repo.anchor(rel, q.rsplit(".", 1)[0] + "._find_wrapped_noise")
        accs = [x for v in _returned_names(h) for x in order.loop_accumulations(h, v)]
        if accs and all(dd * s == 1 for _, _, dd, s in accs):
            ctx.ok("order.wrapper", m, h, what="_find_wrapped_noise preserves order")
        else:
            ctx.fail("order.wrapper", m, h, "_find_wrapped_noise does not preserve the order of its input list",
                     func=qualname(h), construct=f"{qualname(h)}: order")
    sm = repo.module(SB)
    w = repo.anchor(SB, "SolverBase._wrap_noise")
    accs = [x for v in _returned_names(w) for x in order.loop_accumulations(w, v)]
    if accs and all(d * s == 1 for _, _, d, s in accs):
        ctx.ok("order.wrapper", sm, w, what="_wrap_noise: noise list in operation-list order")
    else:
        ctx.fail("order.wrapper", sm, w, "SolverBase._wrap_noise does not build the noise list in the order of the operation list",
                 func="SolverBase._wrap_noise", construct="_wrap_noise: order")


# --------------------------------------------------------------------------- F5 order.noise-off


def _returned_names(fn: ast.AST) -> List[str]:
    out: List[str] = []
    for r in ast.walk(fn):
        if isinstance(r, ast.Return) and isinstance(r.value, ast.Name) and r.value.id not in out:
            out.append(r.value.id)
    return out


def rule_noise_off(ctx: Ctx) -> None:
    repo = ctx.repo
    m = repo.module(CBASE)
    fn = repo.anchor(CBASE, "CompilerBase.compile")
    ctx.touch(m, fn)
    # the flag is the bare name tested by the `if` whose true arm calls compile_one_gate (whatever it is called)
    sim_names = {n.targets[0].id for n in ast.walk(fn) if isinstance(n, ast.Assign) and len(n.targets) == 1 and isinstance(n.targets[0], ast.Name)
                 and any(isinstance(x, ast.Attribute) and x.attr in ("_noise_simulation", "noise_simulation") for x in ast.walk(n.value))}
    cand = [n for n in ast.walk(fn) if isinstance(n, ast.If) and isinstance(n.test, ast.Name) and n.test.id in sim_names and n.orelse
            and any(call_name(c) == "self.compile_one_gate" for st in n.body for c in calls_in(st))]
    if len(cand) != 1:
        raise AnalysisError("compile: the `if <noise-free flag>:` that selects the ideal-gate arm was not found")
    FLAG = cand[0].test.id
    assigns = [n for n in ast.walk(fn) if isinstance(n, ast.Assign) and norm(n.targets[0]) == FLAG]
    if not assigns:
        raise AnalysisError("compile: noise-free flag is never assigned")
    assigns.sort(key=lambda n: n.lineno)
    first = assigns[0]
    if norm(first.value) == "not self._noise_simulation":
        ctx.ok("order.noise-off", m, first, what="no_noise starts as `not self._noise_simulation`")
    else:
        ctx.fail("order.noise-off", m, first, f"`{short(first)}`: with noise simulation switched off the flag must start True",
                 func="CompilerBase.compile", construct=f"compile: no_noise = {norm(first.value)}")
    for a in assigns[1:]:
        v = a.value
        mono = isinstance(v, ast.BoolOp) and isinstance(v.op, ast.Or) and any(norm(x) == FLAG for x in v.values)
        if mono:
            ctx.ok("order.noise-off", m, a, what="monotone update (… or no_noise)")
        else:
            ctx.fail("order.noise-off", m, a, f"`{short(a)}` can turn the flag off again: noise code becomes reachable although noise "
                                              f"simulation is switched off", func="CompilerBase.compile", construct=f"compile: {short(a, 80)}")
    # the `if no_noise:` arm contains only compile_one_gate
    ifs = cand
    arm_calls = [call_name(c) for st in ifs[0].body for c in calls_in(st) if (call_name(c) or "").startswith("self.")]
    if arm_calls == ["self.compile_one_gate"]:
        ctx.ok("order.noise-off", m, ifs[0], what="noise-free arm applies only the ideal gate")
    else:
        ctx.fail("order.noise-off", m, ifs[0], f"the noise-free arm calls {arm_calls}; it must apply exactly the ideal gate",
                 func="CompilerBase.compile", construct=f"compile: noise-free arm {arm_calls}")
    # empty map: per-gate noise defaults to NoNoise and NoNoise feeds the flag
    for rel, q in ((DAG, "CircuitDAG._noisy_gates"), (DAG, "CircuitDAG._find_wrapped_noise")):
        f = repo.anchor(rel, q)
        dm_ = repo.module(rel)
        if any(isinstance(c.func, ast.Name) and c.func.id == "NoNoise" or call_name(c) == "nm.NoNoise" for c in calls_in(f)):
            ctx.ok("order.noise-off", dm_, f, what=f"{q}: unmapped gate -> NoNoise()")
        else:
            ctx.fail("order.noise-off", dm_, f, f"{q} has no NoNoise() default for gates absent from the noise map", func=q,
                     construct=f"{q}: no NoNoise default")
    import re as _re
    if any(_re.search(r"isinstance\(\w+\.noise, nm\.NoNoise\)", norm(a.value)) for a in assigns) and \
            any(_re.search(r"isinstance\(\w+\.noise\[0\], nm\.NoNoise\)", norm(a.value)) for a in assigns):
        ctx.ok_abstract("order.noise-off", "NoNoise on a gate makes the compile loop take the noise-free arm")
    else:
        ctx.fail("order.noise-off", m, fn, "a gate whose noise is NoNoise no longer selects the noise-free arm", func="CompilerBase.compile",
                 construct="compile: NoNoise does not feed no_noise")


# --------------------------------------------------------------------------- A3 backend cover, B6 factors

SUPPORTED_MODELS = ["DepolarizingNoise", "PauliError", "PhotonLoss"]
NOISE_REPS = [("DensityMatrix", "graphiq/backends/density_matrix/state.py"),
              ("MixedStabilizer", "graphiq/backends/stabilizer/state.py"),
              ("Stabilizer", "graphiq/backends/stabilizer/state.py")]


def _apply_chain(repo: Repo, m: Module, fn: ast.FunctionDef) -> Tuple[str, List[Branch]]:
    subj = None
    for n in ast.walk(fn):
        if isinstance(n, ast.Assign) and norm(n.value).endswith(".rep_data") and isinstance(n.targets[0], ast.Name):
            subj = n.targets[0].id
    if subj is None:
        raise AnalysisError(f"{qualname(fn)}: `<x> = state.rep_data` not found")
    for st in fn.body:
        if isinstance(st, ast.If):
            brs = []
            ok = True
            for test, body, node in chain_of(st):
                b = Branch(test, body, node)
                if test is not None:
                    b.parsed = parse_test(repo, m, test, b)
                    ok = ok and b.parsed and b.subject == subj
                brs.append(b)
            if ok and len(brs) >= 3:
                return subj, brs
    raise AnalysisError(f"{qualname(fn)}: representation dispatch chain on `{subj}` not found")


def _raises_only(body: List[ast.stmt]) -> bool:
    real = [s for s in body if not (isinstance(s, ast.Expr) and isinstance(s.value, ast.Constant))]
    return bool(real) and isinstance(real[0], ast.Raise)


def rule_backend_cover(ctx: Ctx) -> None:
    repo = ctx.repo
    m = repo.module(NM)
    # which representations can the compile loop hand to a noise model?  mixed -> MixedStabilizer, Monte-Carlo -> Stabilizer
    for model in SUPPORTED_MODELS:
        fn = repo.anchor(NM, f"{model}.apply")
        ctx.touch(m, fn)
        subj, chain = _apply_chain(repo, m, fn)
        for rname, rrel in NOISE_REPS:
            rc = repo.cls(rname, rrel)
            hit = None
            for b in chain:
                if b.test is None or rc.key in b.classes(repo):
                    hit = b
                    break
            if hit is None or _raises_only(hit.body):
                ctx.fail("dispatch.backend-cover", m, fn,
                         f"{model}.apply has no handling branch for a {rname} representation (it reaches "
                         f"`{short(hit.body[0], 70) if hit is not None else 'nothing'}`); the compile loop hands it one when "
                         f"{'noise simulation runs on the stabilizer backend' if rname == 'MixedStabilizer' else 'that backend is used'}",
                         chain=[f"{rname} is not a subclass of the classes tested by the earlier branches"],
                         func=f"{model}.apply", construct=f"{model}.apply: no branch for {rname}")
            else:
                ctx.ok_abstract("dispatch.backend-cover", f"{model}.apply handles {rname} via `{short(hit.test, 60) if hit.test is not None else 'else'}`")


def rule_noise_factor(ctx: Ctx) -> None:
    repo = ctx.repo
    m = repo.module(NM)
    # PhotonLoss: every non-raising branch scales by (1 - loss_rate)
    fn = repo.anchor(NM, "PhotonLoss.apply")
    subj, chain = _apply_chain(repo, m, fn)
    lr = None
    for n in ast.walk(fn):
        if isinstance(n, ast.Assign) and "loss rate" in norm(n.value) and isinstance(n.targets[0], ast.Name):
            lr = n.targets[0].id
    if lr is None:
        raise AnalysisError("PhotonLoss.apply: loss-rate binding not found")
    want = f"1 - {lr}"
    for b in chain:
        if _raises_only(b.body):
            continue
        facs = {norm(x) for st in b.body for x in ast.walk(st) if isinstance(x, ast.BinOp) and isinstance(x.op, ast.Sub)}
        uses_rate = any(lr in {y.id for y in ast.walk(st) if isinstance(y, ast.Name)} for st in b.body)
        if facs == {want}:
            ctx.ok("sibling.noise-factor", m, b.node, what=f"PhotonLoss {short(b.test, 50) if b.test is not None else 'else'}: weight x ({want})")
        else:
            ctx.fail("sibling.noise-factor", m, b.node,
                     f"PhotonLoss.apply scales the `{short(b.test, 50) if b.test is not None else 'else'}` representation by "
                     f"{sorted(facs) if facs else ('`' + lr + '` itself' if uses_rate else 'nothing')}; the sibling branches use "
                     f"({want}), so the two backends would report different total weights", func="PhotonLoss.apply",
                     construct=f"PhotonLoss.apply: {short(b.test, 40) if b.test is not None else 'else'} factor {sorted(facs)}")
    # Depolarizing: one shared `factors` array, identity first, used by both backends
    fn = repo.anchor(NM, "DepolarizingNoise.apply")
    # the shared weight array: the top-level assignment of `[...] + k * [...]`; probability / count names are read off their definitions
    def _strip(v):
        while isinstance(v, ast.Call) and call_name(v) in ("np.array", "np.asarray", "list") and v.args:
            v = v.args[0]
        return v
    fa = [n for n in fn.body if isinstance(n, ast.Assign) and len(n.targets) == 1 and isinstance(n.targets[0], ast.Name)
          and isinstance(_strip(n.value), ast.BinOp) and isinstance(_strip(n.value).op, ast.Add) and isinstance(_strip(n.value).left, ast.List)]
    if len(fa) != 1:
        raise AnalysisError("DepolarizingNoise.apply: shared weight array `[1 - p] + (n - 1) * [p / (n - 1)]` not found")
    FACT = fa[0].targets[0].id
    pn = [n.targets[0].id for n in fn.body if isinstance(n, ast.Assign) and isinstance(n.targets[0], ast.Name) and "'Depolarizing probability'" in norm(n.value)]
    kn = [n.targets[0].id for n in fn.body if isinstance(n, ast.Assign) and isinstance(n.targets[0], ast.Name) and norm(n.value).startswith("4 ** len(")]
    if len(pn) != 1 or len(kn) != 1:
        raise AnalysisError("DepolarizingNoise.apply: probability / Kraus-count definitions not found")
    P_, K_ = pn[0], kn[0]
    txt = norm(_strip(fa[0].value))
    if txt in (f"[1 - {P_}] + ({K_} - 1) * [{P_} / ({K_} - 1)]", f"[1 - {P_}] + [{P_} / ({K_} - 1)] * ({K_} - 1)"):
        ctx.ok("sibling.noise-factor", m, fa[0], what="factors = [1-p] + (n-1)*[p/(n-1)]")
    else:
        ctx.fail("sibling.noise-factor", m, fa[0], f"depolarizing factors `{short(fa[0].value)}` are not [1-p] followed by equal shares p/(n-1)",
                 func="DepolarizingNoise.apply", construct="DepolarizingNoise: factors")
    subj, chain = _apply_chain(repo, m, fn)
    for b in chain:
        if _raises_only(b.body):
            continue
        uses = [x for st in b.body for x in ast.walk(st) if isinstance(x, ast.Subscript) and norm(x.value) == FACT]
        lists = [x for st in b.body for x in ast.walk(st) if isinstance(x, ast.Assign) and isinstance(x.value, ast.List) and len(x.value.elts) == 4]
        first_id = all("identity" in norm(l.value.elts[0]) for l in lists) and bool(lists)
        # the four per-qubit error operations must be the four Paulis, identity first (X, Y, Z share one weight, so their order is free)
        paulis = _branch_paulis(repo, m, b, lists)
        if paulis is not None:
            what, names = paulis
            if names[0] == "I" and sorted(names) == ["I", "X", "Y", "Z"]:
                ctx.ok("noise.pauli-set", m, b.node, what=f"{what}: {names}")
                first_id = True
            else:
                ctx.fail("noise.pauli-set", m, b.node,
                         f"the per-qubit error operations of this DepolarizingNoise branch ({what}) denote {names}; they must be I first and then X, Y, Z "
                         f"in some order ('?' = not the action of any Pauli): the depolarizing channel mixes the state with exactly those four",
                         func="DepolarizingNoise.apply", construct=f"DepolarizingNoise: Pauli set {names}")
                continue
        if uses and first_id:
            ctx.ok("sibling.noise-factor", m, b.node, what="branch uses the shared factors, identity first")
        else:
            ctx.fail("sibling.noise-factor", m, b.node,
                     "a DepolarizingNoise branch does not weight its Pauli list with the shared `factors` array (identity first): the "
                     "backends would disagree on the no-error weight", func="DepolarizingNoise.apply",
                     construct=f"DepolarizingNoise: branch {short(b.test, 40) if b.test is not None else 'else'}")



def _branch_paulis(repo, m, b, lists):
    """(description, [Pauli letter or '?'] * 4) of the per-qubit operations a DepolarizingNoise branch iterates over, or None."""
    from .. import clifford as cl
    from . import gatesum, bitform
    keys = {cl.key(cl.I2): "I", cl.key(cl.X): "X", cl.key(cl.Y): "Y", cl.key(cl.Z): "Z"}
    if lists:
        out = []
        for e in lists[0].value.elts:
            try:
                if isinstance(e, ast.Call):
                    mat = gatesum.dm_matrix_of(repo, e, m)
                    out.append(keys.get(cl.key(mat), "?") if mat is not None else "?")
                else:
                    name = (norm(e)).split(".")[-1]
                    if name == "identity":
                        out.append("I")
                        continue
                    sm = gatesum.summarise_or_none(repo, name)
                    out.append(keys.get(cl.key(sm[1]), "?") if sm is not None and sm[0] == "1" else "?")
            except (AnalysisError, ValueError, KeyError, gatesum.Unsummarisable):
                out.append("?")
        return (f"list `{norm(lists[0].targets[0])}`", out)
    # sign-mask form: a helper returning, per qubit, the rows each error negates
    helpers = bitform._helper_semantics(repo)
    for st in b.body:
        for c in [x for x in ast.walk(st) if isinstance(x, ast.Call) and isinstance(x.func, ast.Name)]:
            hf = m.find(c.func.id)
            if isinstance(hf, ast.FunctionDef):
                try:
                    q, masks = bitform.mask_list(hf, helpers)
                except (bitform.Unmodelled, KeyError):
                    continue
                if len(masks) == 4:
                    return (f"sign masks of `{hf.name}`", [bitform.pauli_of_mask(p, q) or "?" for p in masks])
    return None


# --------------------------------------------------------------------------- stale read inside a temporary swap


def rule_stale_swap_read(ctx: Ctx) -> None:
    """effect.stale-swap-read: inside a save / overwrite / restore region (`saved = x.a; x.a = tmp; ...; x.a = saved`) the
    function itself must not read `x.a` again after the first overwrite — it would see the temporary value, not the
    original it saved (callees that are *meant* to see the temporary are not affected)."""
    repo = ctx.repo
    m = repo.module(CBASE)
    fn = repo.anchor(CBASE, "CompilerBase.compile")
    ctx.touch(m, fn)
    regions = 0
    for blk_owner in ast.walk(fn):
        for attr in ("body", "orelse"):
            body = getattr(blk_owner, attr, None)
            if not (isinstance(body, list) and body and isinstance(body[0], ast.stmt)):
                continue
            saves = [(i, st) for i, st in enumerate(body) if isinstance(st, ast.Assign) and isinstance(st.targets[0], ast.Name)
                     and isinstance(st.value, ast.Attribute) and isinstance(st.value.value, ast.Name)]
            for i, sv in saves:
                field = norm(sv.value)
                saved = sv.targets[0].id
                writes = [j for j, st in enumerate(body) if j > i and isinstance(st, ast.Assign) and any(norm(t) == field for t in st.targets)]
                restores = [j for j in writes if norm(body[j].value) == saved]
                if not writes or not restores:
                    continue
                regions += 1
                first, last = writes[0], restores[-1]
                bad = []
                for j in range(first + 1, last):
                    st = body[j]
                    for n in ast.walk(st):
                        if isinstance(n, ast.Attribute) and isinstance(n.ctx, ast.Load) and norm(n) == field:
                            # a read of the swapped field by this function itself (arguments passed by object are not reads)
                            p_ = parent(n)
                            if isinstance(p_, ast.Subscript) or isinstance(p_, (ast.Assign, ast.List, ast.Tuple, ast.Compare)):
                                bad.append((st, n))
                if bad:
                    st, n = bad[0]
                    ctx.fail("effect.stale-swap-read", m, st,
                             f"`{short(st)}` reads `{field}` after it was temporarily overwritten (saved as `{saved}` in this block): it sees the "
                             f"temporary value, so the second half of the swap is built from the wrong noise (the entry that should be applied "
                             f"{'after' if 'after' in norm(blk_owner.test if isinstance(blk_owner, ast.If) else ast.Constant(0)) else 'on the other side of'} the gate is lost)",
                             func="CompilerBase.compile", construct=f"compile: {short(st, 70)} inside swap of {field}")
                else:
                    ctx.ok("effect.stale-swap-read", m, body[first], what=f"swap of {field}: later halves built from the saved copy")
    # companion: every temporary overwrite of a field of the circuit's own operation object is undone in the same block
    loops_ = [l for l in ast.walk(fn) if isinstance(l, ast.For) and isinstance(l.target, ast.Name)
              and any(call_name(c) == "self.compile_one_gate" for c in calls_in(l))]
    if not loops_:
        raise AnalysisError("compile: the loop over the circuit's operations was not found")
    opv = loops_[0].target.id
    unrestored = 0
    writes_total = 0
    for blk_owner in ast.walk(loops_[0]):
        for attr in ("body", "orelse"):
            body = getattr(blk_owner, attr, None)
            if not (isinstance(body, list) and body and isinstance(body[0], ast.stmt)):
                continue
            fields = {}
            for j, st in enumerate(body):
                if isinstance(st, ast.Assign):
                    for t in st.targets:
                        if isinstance(t, ast.Attribute) and isinstance(t.value, ast.Name) and t.value.id == opv:
                            fields.setdefault(norm(t), []).append(j)
            # element stores into a field of the operation (op.noise[k] = ...): the saved name must then be a copy, not an alias
            for j, st in enumerate(body):
                if isinstance(st, (ast.Assign, ast.AugAssign)):
                    tg = st.targets if isinstance(st, ast.Assign) else [st.target]
                    for t in tg:
                        if isinstance(t, ast.Subscript) and isinstance(t.value, ast.Attribute) and isinstance(t.value.value, ast.Name) and t.value.value.id == opv:
                            field = norm(t.value)
                            writes_total += 1
                            aliases = [s2 for s2 in body[:j] if isinstance(s2, ast.Assign) and isinstance(s2.targets[0], ast.Name) and norm(s2.value) == field]
                            unrestored += 1
                            ctx.fail("effect.stale-swap-read", m, st,
                                     f"compile() stores into `{short(t, 40)}`, an element of a list owned by the circuit's operation"
                                     + (f"; `{aliases[-1].targets[0].id} = {field}` saved only a second name for the same list, so putting it back restores "
                                        f"the edited list" if aliases else "") +
                                     ": after compiling, the operation carries the masked noise, and compiling the same circuit again applies different noise",
                                     func="CompilerBase.compile", construct=f"compile: in-place store into {field}[...]")
            for field, js in fields.items():
                writes_total += len(js)
                saved = {st.targets[0].id for j, st in enumerate(body[: js[0]]) if isinstance(st, ast.Assign) and isinstance(st.targets[0], ast.Name)
                         and norm(st.value) == field}
                last = body[js[-1]]
                if isinstance(last.value, ast.Name) and last.value.id in saved:
                    ctx.ok("effect.stale-swap-read", m, last, what=f"{field} restored from its saved value at the end of the block")
                else:
                    unrestored += 1
                    ctx.fail("effect.stale-swap-read", m, last,
                             f"compile() overwrites `{field}` of the circuit's own operation and the block ends with `{short(last, 60)}` instead of putting "
                             f"the saved original back: the circuit object keeps the temporary value, so compiling the same circuit again (or on the "
                             f"other backend) applies different noise", func="CompilerBase.compile", construct=f"compile: {field} not restored after temporary overwrite")
    if regions == 0 and writes_total == 0:
        ctx.ok_abstract("effect.stale-swap-read", "compile() never overwrites a field of the circuit's operations")
    elif regions == 0 and unrestored == 0:
        raise AnalysisError("effect.stale-swap-read: overwrites of an operation field found but no save/overwrite/restore region recognised in CompilerBase.compile")



# --------------------------------------------------------------------------- weight.preserve


def rule_weight_preserve(ctx: Ctx) -> None:
    """Photon loss is book-kept as a sub-normalised state (trace / total mixture weight = survival probability).  No unitary,
    channel or partial-trace step may rescale the state: in the density-matrix representation only a projective measurement
    divides by a probability, and the mixed-stabilizer gate methods must carry every branch probability through unchanged."""
    repo = ctx.repo
    dms = "graphiq/backends/density_matrix/state.py"
    m = repo.module(dms)
    ci = repo.cls("DensityMatrix", dms)
    n = 0
    for name in ("apply_unitary", "apply_channel", "partial_trace"):
        fn = ci.methods().get(name)
        if fn is None:
            raise AnalysisError(f"DensityMatrix.{name} missing")
        ctx.touch(m, fn)
        n += 1
        bad = [x for x in ast.walk(fn) if (isinstance(x, ast.BinOp) and isinstance(x.op, ast.Div) and "trace" in norm(x.right).lower())
               or (isinstance(x, ast.AugAssign) and isinstance(x.op, ast.Div) and "trace" in norm(x.value).lower())
               or (isinstance(x, ast.Call) and call_attr(x) in ("normalize", "normalise", "renormalize"))]
        if bad:
            ctx.fail("weight.preserve", m, bad[0],
                     f"DensityMatrix.{name} divides the state by its trace (`{short(bad[0], 70)}`): a state made sub-normalised by an earlier "
                     f"PhotonLoss is silently renormalised, so the trace no longer equals the product of photon survival probabilities",
                     func=f"DensityMatrix.{name}", construct=f"DensityMatrix.{name}: renormalises by the trace")
        else:
            ctx.ok("weight.preserve", m, fn, what=f"DensityMatrix.{name} does not rescale the state")
    # a projective measurement divides by the *conditional* probability of the outcome, p(outcome) / Tr(rho), so that the weight of a
    # state made sub-normalised by photon loss is carried through the measurement (the mixed-stabilizer backend keeps it)
    fn = ci.methods().get("apply_measurement")
    if fn is None:
        raise AnalysisError("DensityMatrix.apply_measurement missing")
    ctx.touch(m, fn)
    env_ = {}
    for a_ in ast.walk(fn):
        if isinstance(a_, ast.Assign) and len(a_.targets) == 1:
            t_ = a_.targets[0]
            if isinstance(t_, ast.Name):
                env_[t_.id] = a_.value
            elif isinstance(t_, ast.Tuple) and isinstance(a_.value, ast.Tuple) and len(t_.elts) == len(a_.value.elts):
                for x_, y_ in zip(t_.elts, a_.value.elts):
                    if isinstance(x_, ast.Name):
                        env_[x_.id] = y_
    divs = [x for x in ast.walk(fn) if isinstance(x, ast.BinOp) and isinstance(x.op, ast.Div) and any(isinstance(y, ast.BinOp) and isinstance(y.op, ast.MatMult) for y in ast.walk(x.left))]
    if not divs:
        raise AnalysisError("DensityMatrix.apply_measurement: post-measurement normalisation not found")
    for dv in divs:
        n += 1
        d_ = dv.right
        for _ in range(3):
            if isinstance(d_, ast.Name) and d_.id in env_:
                d_ = env_[d_.id]
        cond = isinstance(d_, ast.BinOp) and isinstance(d_.op, ast.Div) and any(
            (isinstance(c_, ast.Call) and call_attr(c_) in ("sum", "trace")) for c_ in ast.walk(d_.right))
        if cond:
            ctx.ok("weight.preserve", m, dv, what="measurement divides by p(outcome) / total weight")
        else:
            ctx.fail("weight.preserve", m, dv,
                     f"DensityMatrix.apply_measurement divides the projected state by `{short(d_, 50)}`, the unconditional probability of the outcome: "
                     f"for a state made sub-normalised by an earlier PhotonLoss (trace = survival probability) this resets the trace to 1, while the "
                     f"mixed-stabilizer backend keeps the weight — the two backends disagree after any measurement that follows a loss "
                     f"(divide by p(outcome) / sum of the outcome probabilities instead)", func="DensityMatrix.apply_measurement",
                     construct="DensityMatrix.apply_measurement: renormalises a sub-normalised state")
    ss = "graphiq/backends/stabilizer/state.py"
    sm = repo.module(ss)
    ms = repo.cls("MixedStabilizer", ss)
    for name, fn in ms.methods().items():
        if not (name.startswith("apply_") or name in ("reset_qubit", "remove_qubit", "trace_out_qubits", "partial_trace")):
            continue
        for lc in [x for x in ast.walk(fn) if isinstance(x, ast.ListComp) and isinstance(x.elt, ast.Tuple) and len(x.elt.elts) == 2]:
            tgt = lc.generators[0].target
            pname = norm(tgt.elts[0]) if isinstance(tgt, ast.Tuple) else None
            n += 1
            if pname is not None and norm(lc.elt.elts[0]) == pname:
                ctx.ok("weight.preserve", sm, lc, what=f"MixedStabilizer.{name} keeps each branch probability")
            else:
                ctx.fail("weight.preserve", sm, lc, f"MixedStabilizer.{name} rebuilds the mixture with probability `{norm(lc.elt.elts[0])}` instead "
                                                    f"of the branch's own `{pname}`: the total weight changes under a gate", func=f"MixedStabilizer.{name}")
        for st in [x for x in ast.walk(fn) if isinstance(x, ast.Assign) and isinstance(x.targets[0], ast.Subscript)
                   and norm(x.targets[0].value) == "self._mixture" and isinstance(x.value, ast.Tuple) and len(x.value.elts) == 2]:
            n += 1
            # names bound to the probability slot of the branch being rewritten
            pnames = set()
            for b_ in ast.walk(fn):
                if isinstance(b_, ast.Assign) and isinstance(b_.targets[0], ast.Tuple) and len(b_.targets[0].elts) == 2 \
                        and isinstance(b_.value, ast.Subscript) and norm(b_.value.value) == "self._mixture" \
                        and norm(b_.value.slice) == norm(st.targets[0].slice):
                    pnames.add(norm(b_.targets[0].elts[0]))
                if isinstance(b_, ast.For) and any(st is x for x in ast.walk(b_)):
                    t_ = b_.target
                    if isinstance(b_.iter, ast.Call) and call_name(b_.iter) == "enumerate" and norm(b_.iter.args[0]) == "self._mixture" \
                            and isinstance(t_, ast.Tuple) and len(t_.elts) == 2 and isinstance(t_.elts[1], ast.Tuple) \
                            and norm(t_.elts[0]) == norm(st.targets[0].slice):
                        pnames.add(norm(t_.elts[1].elts[0]))
            if norm(st.value.elts[0]) in pnames:
                ctx.ok("weight.preserve", sm, st, what=f"MixedStabilizer.{name} keeps p_i")
            else:
                ctx.fail("weight.preserve", sm, st, f"MixedStabilizer.{name} stores `{norm(st.value.elts[0])}` as the branch probability", func=f"MixedStabilizer.{name}")
    if n < 10:
        raise AnalysisError("weight.preserve: too few sites analysed")



# --------------------------------------------------------------------------- consumed tableau


def _applies_gates_to_param(repo: Repo, cg: CallGraph) -> Dict[FuncKey, Set[int]]:
    """function -> parameter indices on which it applies a *state-changing* gate in place (transform.* on the parameter,
    also after `p = g(p)` re-bindings, which return the same object in this code base), to a fixpoint over exact calls."""
    TR = "graphiq/backends/stabilizer/functions/transformation.py"
    gate_fns = {k for k in cg.funcs if k[0] == TR and k[1] not in ("identity",)}
    summ: Dict[FuncKey, Set[int]] = {k: set() for k in cg.funcs}
    for k in gate_fns:
        summ[k].add(0)
    changed = True
    while changed:
        changed = False
        for k, fn in cg.funcs.items():
            if k in gate_fns:
                continue
            ps = func_params(fn)
            m = cg.mod_of[k]
            for c in calls_in(fn, nested=False):
                ks, kind = cg.resolve(m, c)
                if kind != "exact":
                    continue
                for callee in ks:
                    cps = func_params(cg.funcs[callee])
                    off = 1 if cps and cps[0] in ("self", "cls") and isinstance(c.func, ast.Attribute) else 0
                    for i, a in enumerate(c.args):
                        if isinstance(a, ast.Name) and a.id in ps and a.id not in ("self", "cls") and (i + off) in summ[callee]:
                            j = ps.index(a.id)
                            if j not in summ[k]:
                                summ[k].add(j)
                                changed = True
    return summ


def rule_consumed_tableau(ctx: Ctx, rels: List[str]) -> None:
    """effect.consumed-tableau: a function that applies gates to its tableau argument in place *and returns the transformed
    tableau* (inverse_circuit) is called with a live object while the returned tableau is discarded (`_, gates = f(t)`):
    the caller keeps using `t` (or hands it back to its own caller) although it has been reduced to another state."""
    repo = ctx.repo
    cg = CallGraph(repo)
    summ = _applies_gates_to_param(repo, cg)
    n = 0
    for rel in rels:
        m = repo.module(rel)
        for fn in m.functions():
            ps = [p for p in func_params(fn) if p not in ("self", "cls")]
            for st in ast.walk(fn):
                if not (isinstance(st, ast.Assign) and isinstance(st.value, ast.Call) and isinstance(st.targets[0], ast.Tuple)):
                    continue
                c = st.value
                ks, kind = cg.resolve(m, c)
                if kind != "exact":
                    continue
                for callee in ks:
                    idxs = summ.get(callee, set())
                    cps = func_params(cg.funcs[callee])
                    off = 1 if cps and cps[0] in ("self", "cls") and isinstance(c.func, ast.Attribute) else 0
                    for i, a in enumerate(c.args):
                        if (i + off) not in idxs:
                            continue
                        n += 1
                        ctx.touch(m, fn)
                        first = st.targets[0].elts[0]
                        discarded = isinstance(first, ast.Name) and (first.id == "_" or not any(
                            isinstance(x, ast.Name) and x.id == first.id and isinstance(x.ctx, ast.Load) for x in ast.walk(fn)))
                        rebinding = isinstance(first, ast.Name) and isinstance(a, ast.Name) and first.id == a.id
                        fresh = isinstance(a, ast.Call) and call_attr(a) in ("copy", "deepcopy", "to_stabilizer")
                        if fresh or rebinding or not discarded or not isinstance(a, ast.Name):
                            ctx.ok("effect.consumed-tableau", m, st, what=f"{qualname(fn)}: {call_attr(c)} on a copy / re-bound result")
                            continue
                        later = [x for x in ast.walk(fn) if isinstance(x, ast.Name) and x.id == a.id and isinstance(x.ctx, ast.Load)
                                 and getattr(x, "lineno", 0) > st.lineno]
                        is_param = a.id in ps
                        if later or is_param:
                            ctx.fail("effect.consumed-tableau", m, st,
                                     f"`{short(st)}`: {call_attr(c)} applies its gates to `{a.id}` in place (it reduces the tableau towards |0..0>) "
                                     f"and the transformed tableau it returns is discarded, but `{a.id}` is " +
                                     ("the caller's own object (an argument of this function)" if is_param else "used again afterwards") +
                                     ": it no longer holds the state the caller thinks it holds — pass a copy",
                                     func=qualname(fn), construct=f"{qualname(fn)}: {call_attr(c)}({a.id}) result discarded")
                        else:
                            ctx.ok("effect.consumed-tableau", m, st)
    if n == 0:
        raise AnalysisError("effect.consumed-tableau: no call of a gate-applying function with tuple result found")


# --------------------------------------------------------------------------- in-place edits through a property getter


def rule_getter_alias(ctx: Ctx, consumer_rels: List[str], state_classes: List[Tuple[str, str]]) -> None:
    """effect.getter-alias: code that edits in place what a property getter handed out (`m = rep.mixture; m[i] = ...`) and never
    assigns it back relies on the getter returning the stored object itself.  Each such (consumer, getter) pair is checked: the
    getter must `return self.<field>`; a getter that returns a copy (list(...), .copy(), a slice, a comprehension) makes the
    consumer's update vanish."""
    repo = ctx.repo
    getters: Dict[str, List[Tuple[str, ast.FunctionDef, Module]]] = {}
    for rel, cname in state_classes:
        ci = repo.cls(cname, rel)
        for st in ci.node.body:
            if isinstance(st, ast.FunctionDef) and any(isinstance(d, ast.Name) and d.id == "property" for d in st.decorator_list):
                getters.setdefault(st.name, []).append((cname, st, repo.module(rel)))
    sites = 0
    for rel in consumer_rels:
        m = repo.module(rel)
        for fn in [f for f in ast.walk(m.tree) if isinstance(f, ast.FunctionDef)]:
            for a in [n for n in ast.walk(fn) if isinstance(n, ast.Assign) and len(n.targets) == 1 and isinstance(n.targets[0], ast.Name)
                      and isinstance(n.value, ast.Attribute) and n.value.attr in getters]:
                local, recv, attr = a.targets[0].id, norm(a.value.value), a.value.attr
                stores = [s_ for s_ in ast.walk(fn) if isinstance(s_, (ast.Assign, ast.AugAssign))
                          and any(isinstance(t, ast.Subscript) and isinstance(t.value, ast.Name) and t.value.id == local
                                  for t in (s_.targets if isinstance(s_, ast.Assign) else [s_.target]))]
                stores += [c for c in calls_in(fn) if isinstance(c.func, ast.Attribute) and isinstance(c.func.value, ast.Name) and c.func.value.id == local
                           and c.func.attr in ("append", "extend", "insert", "pop", "remove", "clear", "sort", "reverse")]
                if not stores:
                    continue
                written_back = any(isinstance(w, ast.Assign) and any(isinstance(t, ast.Attribute) and t.attr == attr and norm(t.value) == recv for t in w.targets)
                                   for w in ast.walk(fn))
                if written_back:
                    continue
                # which classes can the receiver be?  use the isinstance guard that dominates the site when there is one
                guard_cls = None
                p_ = parent(a)
                while p_ is not None and p_ is not fn:
                    if isinstance(p_, ast.If):
                        for c in ast.walk(p_.test):
                            if isinstance(c, ast.Call) and call_name(c) == "isinstance" and norm(c.args[0]) == recv and any(a is x for b_ in p_.body for x in ast.walk(b_)):
                                guard_cls = norm(c.args[1]).split(".")[-1]
                    p_ = parent(p_)
                for cname, g, gm in getters[attr]:
                    if guard_cls is not None and cname != guard_cls:
                        continue
                    sites += 1
                    ctx.touch(m, fn)
                    rets = [r for r in ast.walk(g) if isinstance(r, ast.Return) and r.value is not None]
                    same = rets and all(isinstance(r.value, ast.Attribute) and isinstance(r.value.value, ast.Name) and r.value.value.id == "self" for r in rets)
                    if same:
                        ctx.ok("effect.getter-alias", m, stores[0], what=f"{qualname(fn)} edits {cname}.{attr} in place; the getter returns the stored object")
                    else:
                        ctx.fail("effect.getter-alias", gm, g,
                                 f"{qualname(fn)} updates `{recv}.{attr}` in place (`{short(stores[0], 60)}`) and never assigns it back, but {cname}.{attr} "
                                 f"returns `{short(rets[0].value, 50) if rets else '?'}` — a new object: the update is lost (e.g. photon loss no longer "
                                 f"reduces the total weight of a mixed stabilizer state, so the two backends disagree)", func=f"{cname}.{attr}",
                                 construct=f"{cname}.{attr}: getter returns a copy but {qualname(fn)} edits it in place")
    # zero sites is caught by the caller's instance floor (findings of other rules take precedence over it)



# --------------------------------------------------------------------------- weight.fidelity


def rule_weighted_fidelity(ctx: Ctx) -> None:
    """weight.fidelity: for a mixed stabilizer state the fidelity with a pure target is sum_i p_i F(T_i, T): every per-branch
    fidelity that enters the result is multiplied by that branch's probability — also when there is only one branch (after photon
    loss a single branch has weight < 1)."""
    repo = ctx.repo
    rel = "graphiq/metrics.py"
    m = repo.module(rel)
    fn = repo.anchor(rel, "Infidelity.evaluate")
    ctx.touch(m, fn)
    env = {}
    for a in ast.walk(fn):
        if isinstance(a, ast.Assign) and len(a.targets) == 1 and isinstance(a.targets[0], ast.Name):
            env.setdefault(a.targets[0].id, a.value)

    def is_mixture(e: ast.AST, depth: int = 0) -> bool:
        if isinstance(e, ast.Attribute) and e.attr in ("mixture", "_mixture"):
            return True
        if isinstance(e, ast.Name) and e.id in env and depth < 3:
            return is_mixture(env[e.id], depth + 1)
        return False

    n = 0
    for c in [x for x in ast.walk(fn) if isinstance(x, ast.Call) and call_name(x) in ("sfm.fidelity", "fidelity")]:
        if len(c.args) < 2:
            continue
        t = c.args[1]
        prob = None
        # (a) comprehension / loop variable pair over the mixture
        p_ = parent(c)
        while p_ is not None and p_ is not fn:
            gens = p_.generators if isinstance(p_, (ast.ListComp, ast.GeneratorExp)) else ([p_] if isinstance(p_, ast.For) else [])
            for g in gens:
                tgt = g.target
                if is_mixture(g.iter) and isinstance(tgt, ast.Tuple) and len(tgt.elts) == 2 and norm(tgt.elts[1]) == norm(t):
                    prob = norm(tgt.elts[0])
            p_ = parent(p_)
        # (b) mixture[k][1]
        if prob is None and isinstance(t, ast.Subscript) and norm(t.slice) == "1" and isinstance(t.value, ast.Subscript) and is_mixture(t.value.value):
            prob = f"{norm(t.value)}[0]"
        if prob is None:
            continue
        n += 1
        par = parent(c)
        weighted = isinstance(par, ast.BinOp) and isinstance(par.op, ast.Mult) and prob in (norm(par.left), norm(par.right))
        if weighted:
            ctx.ok("weight.fidelity", m, c, what="branch fidelity weighted by the branch probability")
        else:
            ctx.fail("weight.fidelity", m, c,
                     f"Infidelity.evaluate takes `{short(c)}` for a branch of the mixture without multiplying by the branch's probability `{prob}`: a "
                     f"mixture with one branch is not a normalised pure state after photon loss (its weight is the survival probability), so the "
                     f"reported fidelity is too large by 1/weight and differs from the density-matrix backend's", func="Infidelity.evaluate",
                     construct="Infidelity.evaluate: branch fidelity not weighted by its probability")
    # a per-branch *overlap* (inner_product) is not a fidelity: the square is missing
    for c in [x for x in ast.walk(fn) if isinstance(x, ast.Call) and (call_name(x) or "").split(".")[-1] == "inner_product" and len(x.args) >= 2]:
        t = c.args[1]
        over_mixture = False
        p_ = parent(c)
        while p_ is not None and p_ is not fn:
            gens = p_.generators if isinstance(p_, (ast.ListComp, ast.GeneratorExp)) else ([p_] if isinstance(p_, ast.For) else [])
            for g in gens:
                if is_mixture(g.iter):
                    over_mixture = True
            p_ = parent(p_)
        sq = parent(c)
        squared = isinstance(sq, ast.BinOp) and isinstance(sq.op, ast.Pow) or (isinstance(sq, ast.Call) and (call_name(sq) or "") in ("np.abs", "abs")
                                                                              and isinstance(parent(sq), ast.BinOp) and isinstance(parent(sq).op, ast.Pow))
        if over_mixture and not squared:
            n += 1
            ctx.fail("weight.fidelity", m, c,
                     f"Infidelity.evaluate sums `{short(c)}` over the branches of the mixture: that is the overlap |<t|psi_i>|, not the fidelity "
                     f"|<t|psi_i>|^2 — a branch with overlap 1/sqrt2 contributes 0.707 p_i instead of 0.5 p_i", func="Infidelity.evaluate",
                     construct="Infidelity.evaluate: branch overlap not squared")
    # every walk over the branches that feeds the fidelity takes F(target, branch) of each branch: a branch is in general neither equal nor
    # orthogonal to the target (an imperfect circuit scored under noise), so selecting / counting branches is not the fidelity
    fid_names = {a.targets[0].id for a in ast.walk(fn) if isinstance(a, ast.Assign) and len(a.targets) == 1 and isinstance(a.targets[0], ast.Name)
                 and any(isinstance(x, ast.Call) and (call_name(x) or "").split(".")[-1] == "fidelity" for x in ast.walk(a.value))}
    for g_owner in [x for x in ast.walk(fn) if isinstance(x, (ast.ListComp, ast.GeneratorExp, ast.For))]:
        gens = g_owner.generators if not isinstance(g_owner, ast.For) else [g_owner]
        if not any(is_mixture(g.iter) for g in gens):
            continue
        # does this walk feed a fidelity value?  (assigned to / accumulated into the name that also holds backend fidelities, or summed)
        feeds = False
        q = g_owner
        while q is not None and q is not fn:
            if isinstance(q, (ast.Assign, ast.AugAssign)):
                tg = q.targets[0] if isinstance(q, ast.Assign) else q.target
                if isinstance(tg, ast.Name) and tg.id in fid_names:
                    feeds = True
            q = parent(q)
        if isinstance(g_owner, ast.For):
            feeds = feeds or any(isinstance(a, ast.AugAssign) and isinstance(a.target, ast.Name) and a.target.id in fid_names for a in ast.walk(g_owner))
        if not feeds:
            continue
        has_f = any(isinstance(x, ast.Call) and (call_name(x) or "").split(".")[-1] in ("fidelity", "inner_product") for x in ast.walk(g_owner))
        if not has_f:
            n += 1
            elt = g_owner.elt if not isinstance(g_owner, ast.For) else g_owner
            ctx.fail("weight.fidelity", m, g_owner,
                     f"Infidelity.evaluate walks the branches of the mixture and takes `{short(elt, 60)}` per branch instead of p_i * F(target, branch_i): "
                     f"a branch that is neither equal nor orthogonal to the target (target Bell, branch |00>: F = 1/2) is then counted as 0 or 1",
                     func="Infidelity.evaluate", construct="Infidelity.evaluate: branch contribution is not p_i * F(target, branch)")
    if n == 0:
        raise AnalysisError("Infidelity.evaluate: no per-branch stabilizer fidelity found")


# --------------------------------------------------------------------------- num.saturating-strength


def _affine(e: ast.AST, var: str):
    """(a, b) with e = a * var + b, or None"""
    if isinstance(e, ast.Constant) and isinstance(e.value, (int, float)) and not isinstance(e.value, bool):
        return (0.0, float(e.value))
    if isinstance(e, ast.Name):
        return (1.0, 0.0) if e.id == var else None
    if isinstance(e, ast.UnaryOp) and isinstance(e.op, ast.USub):
        r = _affine(e.operand, var)
        return None if r is None else (-r[0], -r[1])
    if isinstance(e, ast.BinOp):
        l_, r_ = _affine(e.left, var), _affine(e.right, var)
        if l_ is None or r_ is None:
            return None
        if isinstance(e.op, ast.Add):
            return (l_[0] + r_[0], l_[1] + r_[1])
        if isinstance(e.op, ast.Sub):
            return (l_[0] - r_[0], l_[1] - r_[1])
        if isinstance(e.op, ast.Mult):
            if l_[0] == 0:
                return (l_[1] * r_[0], l_[1] * r_[1])
            if r_[0] == 0:
                return (r_[1] * l_[0], r_[1] * l_[1])
            return None
        if isinstance(e.op, ast.Div) and r_[0] == 0 and r_[1] != 0:
            return (l_[0] / r_[1], l_[1] / r_[1])
    return None


def rule_saturating_strength(ctx: Ctx) -> None:
    """num.saturating-strength: a noise model's strength (a name read from noise_parameters[<...prob... / ...rate...>]) ranges over the
    whole interval [0, 1].  A clamp (np.clip / min / max / np.minimum / np.maximum) applied to an affine function of the strength may
    not be active anywhere inside that interval: where it is, the channel silently stops following its parameter (the density-matrix
    and the stabilizer backends then simulate different strengths)."""
    repo = ctx.repo
    m = repo.module(NM)
    scanned = hits = 0
    for fn in [f for f in ast.walk(m.tree) if isinstance(f, ast.FunctionDef) and f.name == "apply"]:
        strengths = {}
        for a in ast.walk(fn):
            if isinstance(a, ast.Assign) and len(a.targets) == 1 and isinstance(a.targets[0], ast.Name) and isinstance(a.value, ast.Subscript) \
                    and norm(a.value.value) == "self.noise_parameters" and isinstance(a.value.slice, ast.Constant) and isinstance(a.value.slice.value, str) \
                    and any(w in a.value.slice.value.lower() for w in ("prob", "rate")):
                strengths[a.targets[0].id] = a.value.slice.value
        if not strengths:
            continue
        scanned += 1
        ctx.touch(m, fn)
        for c in [x for x in ast.walk(fn) if isinstance(x, ast.Call)]:
            cn = call_name(c) or ""
            lo = hi = None
            subj = None
            if cn in ("np.clip", "numpy.clip") and len(c.args) == 3:
                subj, lo, hi = c.args
            elif cn in ("min", "np.minimum") and len(c.args) == 2:
                subj, hi = (c.args if not isinstance(c.args[0], ast.Constant) else c.args[::-1])
            elif cn in ("max", "np.maximum") and len(c.args) == 2:
                subj, lo = (c.args if not isinstance(c.args[0], ast.Constant) else c.args[::-1])
            else:
                continue
            used = [v for v in strengths if any(isinstance(x, ast.Name) and x.id == v for x in ast.walk(subj))]
            if len(used) != 1:
                continue
            v = used[0]
            af = _affine(subj, v)
            bounds = [(_affine(b, v) if b is not None else None) for b in (lo, hi)]
            if af is None or any(b is not None and b[0] != 0 for b in bounds if b is not None) or any(b is None and src is not None for b, src in zip(bounds, (lo, hi))):
                raise AnalysisError(f"{qualname(fn)}: clamp `{short(c)}` of the noise strength is not an affine expression with constant bounds")
            hits += 1
            rng = sorted((af[1], af[0] + af[1]))
            lo_v = bounds[0][1] if bounds[0] is not None else float("-inf")
            hi_v = bounds[1][1] if bounds[1] is not None else float("inf")
            eps = 1e-12
            if rng[0] < lo_v - eps or rng[1] > hi_v + eps:
                # where does it start to bite
                at = None
                if af[0] != 0:
                    cand = [((b - af[1]) / af[0]) for b in (lo_v, hi_v) if b not in (float("-inf"), float("inf"))]
                    cand = [x for x in cand if 0 < x < 1]
                    at = cand[0] if cand else None
                ctx.fail("num.saturating-strength", m, c,
                         f"{qualname(fn)} clamps `{short(subj)}` to [{lo_v}, {hi_v}] although it ranges over [{rng[0]:.4g}, {rng[1]:.4g}] for '{strengths[v]}' in [0, 1]"
                         + (f": beyond {at:.4g} the simulated channel no longer follows its parameter" if at is not None else ""),
                         func=qualname(fn), construct=f"{qualname(fn)}: clamp active inside the strength's domain")
            else:
                ctx.ok("num.saturating-strength", m, c, what="clamp inactive on [0, 1]")
    ctx.ok_abstract("num.saturating-strength", f"{scanned} apply methods with a strength parameter scanned, {hits} clamps of a strength")


# --------------------------------------------------------------------------- noise.pauli-tags


def rule_pauli_tags(ctx: Ctx) -> None:
    """noise.pauli-tags: PauliError("K").apply applies the Pauli K — in every backend branch.  The tag is a string with five relevant values
    (X, Y, Z, I, anything else); for each backend branch and each value the tests on the tag are folded with the tag bound to that
    value and the statement that is reached is resolved to an element of the Clifford model: a density-matrix gate function
    (matrix folded), a gate tag handed to apply_circuit, or an apply_sigma* method (the transform.* function it calls).  The element
    must be K; any other tag must raise."""
    from .. import clifford as cl
    from . import gatesum
    repo = ctx.repo
    m = repo.module(NM)
    fn = repo.anchor(NM, "PauliError.apply")
    ctx.touch(m, fn)
    tagv = next((norm(a.targets[0]) for a in fn.body if isinstance(a, ast.Assign) and isinstance(a.value, ast.Subscript)
                 and isinstance(a.value.slice, ast.Constant) and a.value.slice.value == "Pauli error"), None)
    if tagv is None:
        raise AnalysisError("PauliError.apply: the tag variable was not found")
    subj, chain = _apply_chain(repo, m, fn)
    want = {"X": cl.X, "Y": cl.Y, "Z": cl.Z, "I": cl.I2}
    n = 0

    class _R(Exception):
        pass

    def truth(e, tag):
        if isinstance(e, ast.Compare) and len(e.ops) == 1:
            l, r = e.left, e.comparators[0]
            if isinstance(l, ast.Constant) and isinstance(r, ast.Name):
                l, r = r, l
            if isinstance(l, ast.Name) and l.id == tagv:
                if isinstance(r, ast.Constant) and isinstance(e.ops[0], (ast.Eq, ast.NotEq, ast.Is, ast.IsNot)):
                    v = (tag == r.value)
                    return v if isinstance(e.ops[0], (ast.Eq, ast.Is)) else not v
                if isinstance(r, (ast.Tuple, ast.List, ast.Set)) and isinstance(e.ops[0], (ast.In, ast.NotIn)):
                    v = tag in [x.value for x in r.elts if isinstance(x, ast.Constant)]
                    return v if isinstance(e.ops[0], ast.In) else not v
        if isinstance(e, ast.UnaryOp) and isinstance(e.op, ast.Not):
            return not truth(e.operand, tag)
        if isinstance(e, ast.BoolOp):
            vs = [truth(v, tag) for v in e.values]
            return all(vs) if isinstance(e.op, ast.And) else any(vs)
        raise AnalysisError(f"PauliError.apply: test `{short(e)}` is not a test on the tag")

    def reached(stmts, tag):
        out = []
        for st in stmts:
            if isinstance(st, ast.If) and any(isinstance(x, ast.Name) and x.id == tagv for x in ast.walk(st.test)):
                out += reached(st.body if truth(st.test, tag) else st.orelse, tag)
            elif isinstance(st, ast.Raise):
                raise _R()
            else:
                out.append(st)
        return out

    def element(stmts):
        """the single Clifford element the reached statements apply (identity if none)"""
        els = []
        for st in stmts:
            for c in [x for x in ast.walk(st) if isinstance(x, ast.Call)]:
                cn = call_name(c) or ""
                a = call_attr(c)
                if cn.endswith("get_one_qubit_gate") and len(c.args) == 3:
                    els.append(gatesum.dm_matrix_of(repo, c.args[2], m))
                elif a == "append" and c.args and isinstance(c.args[0], ast.Tuple) and c.args[0].elts and isinstance(c.args[0].elts[0], ast.Constant):
                    g = cl.GATE1.get(c.args[0].elts[0].value)
                    if g is None:
                        raise AnalysisError(f"PauliError.apply: unknown gate tag {c.args[0].elts[0].value!r}")
                    els.append(g)
                elif a and a.startswith("apply_sigma") or a in ("apply_hadamard", "apply_phase"):
                    tname = gatesum.stab_method_element(repo, "MixedStabilizer", a)[0]
                    els.append(gatesum.summarise(repo, tname)[1])
        if len(els) > 1:
            raise AnalysisError("PauliError.apply: more than one gate applied for one tag")
        return els[0] if els else cl.I2
    for b in chain:
        if _raises_only(b.body) or b.test is None:
            continue
        for tag in ("X", "Y", "Z", "I", "?"):
            n += 1
            try:
                sts = reached(b.body, tag)
            except _R:
                if tag == "?":
                    ctx.ok("noise.pauli-tags", m, b.node, what=f"{short(b.test, 40)}: unknown tag raises")
                else:
                    ctx.fail("noise.pauli-tags", m, b.node, f"PauliError('{tag}') raises in the branch `{short(b.test, 50)}`", func="PauliError.apply",
                             construct=f"PauliError[{short(b.test, 30)}]: tag {tag} raises")
                continue
            if tag == "?":
                ctx.fail("noise.pauli-tags", m, b.node, f"an unknown Pauli tag is silently accepted in the branch `{short(b.test, 50)}`", func="PauliError.apply",
                         construct=f"PauliError[{short(b.test, 30)}]: unknown tag accepted")
                continue
            try:
                el = element(sts)
            except (ValueError, KeyError, gatesum.Unsummarisable) as e:
                raise AnalysisError(f"PauliError.apply: cannot resolve the gate applied for tag {tag}: {e}")
            if cl.key(el) == cl.key(want[tag]):
                ctx.ok("noise.pauli-tags", m, b.node, what=f"{short(b.test, 40)}: '{tag}' applies {tag}")
            else:
                got = {cl.key(v): k for k, v in want.items()}.get(cl.key(el), "another gate")
                ctx.fail("noise.pauli-tags", m, b.node, f"PauliError('{tag}') applies {got} in the branch `{short(b.test, 50)}`", func="PauliError.apply",
                         construct=f"PauliError[{short(b.test, 30)}]: tag {tag} applies {got}")
    if n < 10:
        raise AnalysisError("noise.pauli-tags: backend branches of PauliError.apply not found")
