"""The row-reduced echelon form of a stabilizer tableau (New J. Phys. 7, 170): case tables and step shapes.

The height function, and with it the emitter budget, is read off this form.  The algorithm is a case analysis on which Pauli kinds
occur in the pivot column at or below the pivot row.  Its tests are boolean combinations of the emptiness of three lists, so the
dispatch is a finite decision table: it is unfolded over the eight emptiness patterns (boolean evaluation of the tests, nothing of
graphiq is run) and each pattern must reach the handler for exactly the kinds that are present."""
from __future__ import annotations

import ast
import itertools
from typing import Dict, List, Optional, Tuple

from .. import linear
from ..core import AnalysisError, Module, Repo, call_attr, call_name, calls_in, func_params, norm, parent, short
from ..report import Ctx

STABF = "graphiq/backends/stabilizer/functions/stabilizer.py"
HEIGHT = "graphiq/backends/stabilizer/functions/height.py"


class _Unk(Exception):
    pass


def _truth(e: ast.AST, env: Dict[str, bool]) -> bool:
    if isinstance(e, ast.Name):
        if e.id in env:
            return env[e.id]
        raise _Unk(f"name `{e.id}`")
    if isinstance(e, ast.UnaryOp) and isinstance(e.op, ast.Not):
        return not _truth(e.operand, env)
    if isinstance(e, ast.BoolOp):
        vals = [_truth(v, env) for v in e.values]
        return all(vals) if isinstance(e.op, ast.And) else any(vals)
    if isinstance(e, ast.Compare) and len(e.ops) == 1 and isinstance(e.comparators[0], ast.Constant) and e.comparators[0].value == 0 \
            and isinstance(e.left, ast.Call) and call_name(e.left) == "len" and isinstance(e.left.args[0], ast.Name):
        t = _truth(e.left.args[0], env)
        if isinstance(e.ops[0], (ast.Eq, ast.LtE)):
            return not t
        if isinstance(e.ops[0], (ast.Gt, ast.NotEq)):
            return t
    if isinstance(e, ast.Constant) and isinstance(e.value, bool):
        return e.value
    raise _Unk(f"test `{short(e)}`")


def _select(body: List[ast.stmt], env: Dict[str, bool]) -> List[ast.stmt]:
    """Statements executed for one truth assignment, up to and including the first return (If statements resolved)."""
    out: List[ast.stmt] = []
    for st in body:
        if isinstance(st, ast.If):
            sub = _select(st.body if _truth(st.test, env) else st.orelse, env)
            out += sub
            if sub and isinstance(sub[-1], ast.Return):
                return out
            continue
        out.append(st)
        if isinstance(st, ast.Return):
            return out
    return out


def _pivot_advance(e: ast.AST, pv: str) -> Optional[Tuple[int, int]]:
    if isinstance(e, (ast.List, ast.Tuple)) and len(e.elts) == 2:
        out = []
        for i, el in enumerate(e.elts):
            try:
                l = linear.lin(el)
            except Exception:
                return None
            if l is None:
                return None
            base = f"{pv}[{i}]"
            if l.get(base, 0) != 1 or any(k not in (base, "") for k in l if l[k] != 0):
                return None
            out.append(int(l.get("", 0)))
        return (out[0], out[1])
    return None


def _finder_kinds(repo: Repo) -> Tuple[ast.FunctionDef, List[str]]:
    m = repo.module(STABF)
    fn = m.find("pauli_type_finder")
    if fn is None:
        raise AnalysisError("pauli_type_finder missing")
    return fn, []


def rule_classify(ctx: Ctx) -> None:
    """rref.classify: pauli_type_finder scans the rows from the pivot row down to the last row, in the pivot column, and files a row
    under the first / second / third returned list exactly when its (x, z) bits there are (1,0) / (1,1) / (0,1)."""
    repo = ctx.repo
    m = repo.module(STABF)
    fn = m.find("pauli_type_finder")
    if fn is None:
        raise AnalysisError("rref.classify: pauli_type_finder missing")
    ctx.touch(m, fn)
    ps = func_params(fn)
    if len(ps) != 3:
        raise AnalysisError("rref.classify: pauli_type_finder(x, z, pivot) expected")
    X, Z, PV = ps
    rets = [r for r in ast.walk(fn) if isinstance(r, ast.Return) and r.value is not None]
    if len(rets) != 1 or not isinstance(rets[0].value, ast.Tuple) or len(rets[0].value.elts) != 3 or not all(isinstance(e, ast.Name) for e in rets[0].value.elts):
        raise AnalysisError("rref.classify: the three returned lists were not found")
    order = [e.id for e in rets[0].value.elts]
    loops = [l for l in fn.body if isinstance(l, ast.For)]
    if len(loops) != 1 or not isinstance(loops[0].target, ast.Name):
        raise AnalysisError("rref.classify: the row loop was not found")
    lp = loops[0]
    rv = lp.target.id
    defs = {s.targets[0].id: s.value for s in fn.body if isinstance(s, ast.Assign) and isinstance(s.targets[0], ast.Name)}
    it = lp.iter
    ok_range = False
    if isinstance(it, ast.Call) and call_name(it) == "range" and len(it.args) == 2 and norm(it.args[0]) == f"{PV}[0]":
        hi = it.args[1]
        if isinstance(hi, ast.Name) and hi.id in defs:
            hi = defs[hi.id]
        ok_range = norm(hi) in (f"np.shape({X})[0]", f"np.shape({X})[1]", f"{X}.shape[0]", f"{X}.shape[1]", f"np.shape({Z})[0]", f"np.shape({Z})[1]",
                                f"{Z}.shape[0]", f"{Z}.shape[1]", f"len({X})", f"len({Z})")
    if ok_range:
        ctx.ok("rref.classify", m, it, what="rows pivot[0] .. last")
    else:
        ctx.fail("rref.classify", m, it, f"pauli_type_finder scans `{short(it)}`; it must look at every row from the pivot row to the last one",
                 func="pauli_type_finder", construct="pauli_type_finder: row range")
    xb, zb = f"{X}[{rv}, {PV}[1]]", f"{Z}[{rv}, {PV}[1]]"
    want = {(1, 0): 0, (1, 1): 1, (0, 1): 2, (0, 0): None}
    bad = []
    for bits, pos in want.items():
        env = {xb: bits[0], zb: bits[1]}

        def ev(e):
            if isinstance(e, ast.Constant):
                return e.value
            k = norm(e)
            if k in env:
                return env[k]
            if isinstance(e, ast.BoolOp):
                vs = [ev(v) for v in e.values]
                return all(vs) if isinstance(e.op, ast.And) else any(vs)
            if isinstance(e, ast.UnaryOp) and isinstance(e.op, ast.Not):
                return not ev(e.operand)
            if isinstance(e, ast.Compare):
                l = ev(e.left)
                for op, c in zip(e.ops, e.comparators):
                    r = ev(c)
                    res = {ast.Eq: l == r, ast.NotEq: l != r}.get(type(op))
                    if res is None:
                        raise _Unk(short(e))
                    if not res:
                        return False
                    l = r
                return True
            if isinstance(e, ast.BinOp) and isinstance(e.op, (ast.BitAnd, ast.Mult)):
                return ev(e.left) & ev(e.right)
            if isinstance(e, ast.BinOp) and isinstance(e.op, ast.BitXor):
                return ev(e.left) ^ ev(e.right)
            raise _Unk(short(e))

        def sel(body):
            out = []
            for st in body:
                if isinstance(st, ast.If):
                    out += sel(st.body if ev(st.test) else st.orelse)
                else:
                    out.append(st)
            return out
        try:
            sts = sel(lp.body)
        except _Unk as e:
            raise AnalysisError(f"rref.classify: cannot evaluate {e}")
        apps = [c for st in sts for c in ast.walk(st) if isinstance(c, ast.Call) and call_attr(c) == "append" and isinstance(c.func.value, ast.Name)]
        got = [order.index(c.func.value.id) for c in apps if c.func.value.id in order and c.args and norm(c.args[0]) == rv]
        exp = [] if pos is None else [pos]
        if got != exp:
            nm = {0: "first (X)", 1: "second (Y)", 2: "third (Z)"}
            bad.append(f"bits (x={bits[0]}, z={bits[1]}) go to {[nm[g] for g in got] or 'no list'}, expected {nm[pos] if pos is not None else 'no list'}")
    if bad:
        ctx.fail("rref.classify", m, lp, "pauli_type_finder misfiles rows: " + "; ".join(bad), func="pauli_type_finder", construct="pauli_type_finder: table")
    else:
        ctx.ok("rref.classify", m, lp, what="(1,0) X, (1,1) Y, (0,1) Z, (0,0) none")


def rule_dispatch(ctx: Ctx) -> None:
    """rref.dispatch: one_step_rref reaches, for each of the eight emptiness patterns of the X / Y / Z row lists, the handler for exactly
    the kinds present: none -> move one column right; one kind -> _process_one_pauli on that kind's list; two kinds ->
    _process_two_pauli on those two; all three -> two of them by _process_two_pauli, then every row of the third is multiplied by
    both new pivot rows; the pivot advances by the number of kinds kept (at most two) rows and one column."""
    repo = ctx.repo
    m = repo.module(STABF)
    fn = m.find("one_step_rref")
    if fn is None:
        raise AnalysisError("rref.dispatch: one_step_rref missing")
    ctx.touch(m, fn)
    ps = func_params(fn)
    TB, PV = ps[0], ps[1]
    first = [s for s in fn.body if isinstance(s, ast.Assign) and isinstance(s.value, ast.Call) and call_attr(s.value) == "pauli_type_finder"
             or (isinstance(s, ast.Assign) and isinstance(s.value, ast.Call) and isinstance(s.value.func, ast.Name) and s.value.func.id == "pauli_type_finder")]
    if not first or not isinstance(first[0].targets[0], ast.Tuple) or len(first[0].targets[0].elts) != 3:
        raise AnalysisError("rref.dispatch: the call of pauli_type_finder was not found")
    names = [norm(e) for e in first[0].targets[0].elts]
    kind_of = dict(zip(names, "xyz"))
    fa = [norm(a) for a in first[0].value.args]
    if fa != [f"{TB}.x_matrix", f"{TB}.z_matrix", PV]:
        ctx.fail("rref.dispatch", m, first[0], f"pauli_type_finder is called with `{', '.join(fa)}`", func="one_step_rref", construct="one_step_rref: finder args")
    # the dict handed to _process_two_pauli
    dicts = [s for s in fn.body if isinstance(s, ast.Assign) and isinstance(s.value, ast.Dict)]
    dict_ok = True
    dname = None
    if dicts:
        dname = norm(dicts[0].targets[0])
        for k, v in zip(dicts[0].value.keys, dicts[0].value.values):
            if not (isinstance(k, ast.Constant) and isinstance(v, ast.Name) and kind_of.get(v.id) == k.value):
                dict_ok = False
        if not dict_ok:
            ctx.fail("rref.dispatch", m, dicts[0], f"`{short(dicts[0])}` files a row list under the wrong Pauli kind", func="one_step_rref",
                     construct="one_step_rref: kind dict")
    start = fn.body.index(first[0]) + 1
    bad: List[str] = []
    for pat in itertools.product((False, True), repeat=3):
        env = dict(zip(names, pat))
        present = {k for k, p in zip("xyz", pat) if p}
        try:
            sts = _select(fn.body[start:], env)
        except _Unk as e:
            raise AnalysisError(f"rref.dispatch: cannot evaluate {e}")
        sts = [s for s in sts if not (isinstance(s, ast.Assign) and isinstance(s.value, ast.Dict))]
        label = "".join(sorted(present)).upper() or "none"
        if not sts or not isinstance(sts[-1], ast.Return) or sts[-1].value is None:
            bad.append(f"{label}: no return")
            continue
        ret = sts[-1].value
        calls = [c for s in sts for c in ast.walk(s) if isinstance(c, ast.Call)]
        p1 = [c for c in calls if (call_attr(c) or getattr(c.func, "id", "")) == "_process_one_pauli"]
        p2 = [c for c in calls if (call_attr(c) or getattr(c.func, "id", "")) == "_process_two_pauli"]
        if len(present) == 0:
            adv = None
            if isinstance(ret, ast.Tuple) and len(ret.elts) == 2 and norm(ret.elts[0]) == TB:
                pe = ret.elts[1]
                if isinstance(pe, ast.Name):
                    asg = [s for s in sts if isinstance(s, ast.Assign) and norm(s.targets[0]) == pe.id]
                    pe = asg[-1].value if asg else pe
                adv = _pivot_advance(pe, PV)
            if p1 or p2 or adv != (0, 1):
                bad.append(f"{label}: must leave the tableau alone and move the pivot one column right (got advance {adv})")
        elif len(present) == 1:
            k = next(iter(present))
            good = len(p1) == 1 and not p2 and ret is p1[0] and len(p1[0].args) == 3 and norm(p1[0].args[0]) == TB and norm(p1[0].args[1]) == PV \
                and kind_of.get(norm(p1[0].args[2])) == k
            if not good:
                bad.append(f"{label}: must return _process_one_pauli(tableau, pivot, <{k.upper()} rows>), got `{short(ret)}`")
        elif len(present) == 2:
            good = len(p2) == 1 and not p1 and ret is p2[0] and len(p2[0].args) == 5 and norm(p2[0].args[0]) == TB and norm(p2[0].args[1]) == PV \
                and (dname is None or norm(p2[0].args[2]) == dname) \
                and all(isinstance(a, ast.Constant) for a in p2[0].args[3:5]) and {a.value for a in p2[0].args[3:5]} == present
            if not good:
                bad.append(f"{label}: must return _process_two_pauli on the kinds {sorted(present)}, got `{short(ret)}`")
        else:
            good = len(p2) == 1 and not p1 and len(p2[0].args) == 5 and all(isinstance(a, ast.Constant) for a in p2[0].args[3:5]) \
                and len({a.value for a in p2[0].args[3:5]}) == 2 and {a.value for a in p2[0].args[3:5]} <= {"x", "y", "z"}
            if not good:
                bad.append(f"{label}: two of the three kinds must be processed by one _process_two_pauli call")
                continue
            third = ({"x", "y", "z"} - {a.value for a in p2[0].args[3:5]}).pop()
            # the third kind's rows (re-read after the step) are multiplied by both pivot rows
            refind = [s for s in sts if isinstance(s, ast.Assign) and isinstance(s.value, ast.Call)
                      and (call_attr(s.value) or getattr(s.value.func, "id", "")) == "pauli_type_finder" and s.lineno > p2[0].lineno]
            loops = [s for s in sts if isinstance(s, ast.For) and s.lineno > p2[0].lineno]
            okl = False
            if refind and loops and isinstance(refind[0].targets[0], ast.Tuple) and len(refind[0].targets[0].elts) == 3:
                names2 = [norm(e) for e in refind[0].targets[0].elts]
                kind2 = dict(zip(names2, "xyz"))
                for lp in loops:
                    if kind2.get(norm(lp.iter)) == third and isinstance(lp.target, ast.Name):
                        rs = [c for c in calls_in(lp) if (call_attr(c) or getattr(c.func, "id", "")) == "tab_row_sum"]
                        rows = []
                        for c in rs:
                            if len(c.args) == 3 and norm(c.args[2]) == lp.target.id:
                                try:
                                    l = linear.lin(c.args[1]) or {}
                                    if l.get(f"{PV}[0]", 0) == 1:
                                        rows.append(int(l.get("", 0)))
                                except Exception:
                                    pass
                        okl = sorted(rows) == [0, 1] and len(rs) == 2
            adv = None
            if isinstance(ret, ast.Tuple) and len(ret.elts) == 2:
                pe = ret.elts[1]
                if isinstance(pe, ast.Name):
                    asg = [s for s in sts if isinstance(s, ast.Assign) and norm(s.targets[0]) == pe.id]
                    pe = asg[-1].value if asg else pe
                adv = _pivot_advance(pe, PV)
            if not okl:
                bad.append(f"{label}: after the two-kind step every remaining {third.upper()} row must be multiplied by both new pivot rows (pivot[0] and pivot[0] + 1)")
            if adv != (2, 1):
                bad.append(f"{label}: the pivot must advance by (2, 1), got {adv}")
    if bad:
        ctx.fail("rref.dispatch", m, fn, "one_step_rref: " + "; ".join(bad[:5]) + (" ..." if len(bad) > 5 else ""), func="one_step_rref",
                 construct="one_step_rref: case table")
    else:
        ctx.ok("rref.dispatch", m, fn, what="8 emptiness patterns reach the handler of the kinds present")


def rule_steps(ctx: Ctx) -> None:
    """rref.step: _process_one_pauli / _process_two_pauli bring the first row of a kind to the pivot row (the next kind to the row below),
    multiply every other row of that kind by *that pivot row* (tab_row_sum(tableau, pivot_row, row)), and advance the pivot by
    (number of kinds, 1)."""
    repo = ctx.repo
    m = repo.module(STABF)
    for name, kinds in (("_process_one_pauli", 1), ("_process_two_pauli", 2)):
        fn = m.find(name)
        if fn is None:
            raise AnalysisError(f"rref.step: {name} missing")
        ctx.touch(m, fn)
        ps = func_params(fn)
        TB, PV = ps[0], ps[1]
        bad: List[str] = []
        swaps = [c for c in calls_in(fn) if (call_attr(c) or getattr(c.func, "id", "")) == "tab_row_swap"]
        offs = []
        for c in swaps:
            try:
                l = linear.lin(c.args[1]) or {}
                offs.append(int(l.get("", 0)) if l.get(f"{PV}[0]", 0) == 1 else None)
            except Exception:
                offs.append(None)
            if not (isinstance(c.args[2], ast.Subscript) and norm(c.args[2].slice) == "0"):
                bad.append(f"`{short(c)}` does not bring the first row of the list to the pivot")
        if sorted(o for o in offs if o is not None) != list(range(kinds)) or len(offs) != kinds:
            bad.append(f"expected {kinds} swap(s) into row(s) pivot[0]{' and pivot[0] + 1' if kinds == 2 else ''}, found offsets {offs}")
        loops = [l for l in ast.walk(fn) if isinstance(l, ast.For)]
        rows = []
        for lp in loops:
            rs = [c for c in calls_in(lp) if (call_attr(c) or getattr(c.func, "id", "")) == "tab_row_sum"]
            for c in rs:
                if len(c.args) != 3 or not isinstance(lp.target, ast.Name) or norm(c.args[2]) != lp.target.id:
                    bad.append(f"`{short(c)}` does not multiply the pivot row *into* the row being eliminated")
                    continue
                try:
                    l = linear.lin(c.args[1]) or {}
                    rows.append(int(l.get("", 0)) if l.get(f"{PV}[0]", 0) == 1 else None)
                except Exception:
                    rows.append(None)
            # the eliminated rows exclude the pivot itself: the list was cut by [1:]
            src = lp.iter
            cut = False
            key = norm(src)
            for s in ast.walk(fn):
                if isinstance(s, ast.Assign) and norm(s.targets[0]) == key and isinstance(s.value, ast.Subscript) and isinstance(s.value.slice, ast.Slice) \
                        and s.value.slice.lower is not None and norm(s.value.slice.lower) == "1" and s.value.slice.upper is None and s.lineno < lp.lineno:
                    cut = True
            if isinstance(src, ast.Subscript) and isinstance(src.slice, ast.Slice) and src.slice.lower is not None and norm(src.slice.lower) == "1":
                cut = True
            if not cut:
                bad.append(f"the rows eliminated in `for {norm(lp.target)} in {short(src)}` still include the pivot row (the list is not cut by [1:])")
        if sorted(r for r in rows if r is not None) != list(range(kinds)) or len(rows) != kinds:
            bad.append(f"expected one elimination loop per kind using pivot rows {list(range(kinds))}, found {rows}")
        rets = [r for r in ast.walk(fn) if isinstance(r, ast.Return) and r.value is not None]
        adv = None
        if len(rets) == 1 and isinstance(rets[0].value, ast.Tuple) and len(rets[0].value.elts) == 2:
            pe = rets[0].value.elts[1]
            if isinstance(pe, ast.Name):
                asg = [s for s in fn.body if isinstance(s, ast.Assign) and norm(s.targets[0]) == pe.id]
                pe = asg[-1].value if asg else pe
            adv = _pivot_advance(pe, PV)
        if adv != (kinds, 1):
            bad.append(f"the pivot must advance by ({kinds}, 1), got {adv}")
        if bad:
            ctx.fail("rref.step", m, fn, f"{name}: " + "; ".join(bad[:4]), func=name, construct=f"{name}: step shape")
        else:
            ctx.ok("rref.step", m, fn, what=f"{kinds} swap(s), {kinds} elimination loop(s) from the pivot row(s), advance ({kinds}, 1)")


def rule_inline_step(ctx: Ctx) -> None:
    """rref.inline-step: a branch of one_step_rref that finishes a column itself (returns a pivot advanced by (k, 1) without delegating to
    _process_one_pauli / _process_two_pauli) has, in its own block, one elimination loop per pivot row it claims: k loops over k different
    row lists, each multiplying a pivot row into the rows of its list.  Advancing past two rows after clearing only one kind leaves rows
    with a non-trivial Pauli in the column below the pivot, and the tableau is no longer in echelon gauge."""
    repo = ctx.repo
    m = repo.module(STABF)
    fn = m.find("one_step_rref")
    if fn is None:
        raise AnalysisError("rref.inline-step: one_step_rref missing")
    ctx.touch(m, fn)
    PV = func_params(fn)[1]
    n = 0
    for r in [x for x in ast.walk(fn) if isinstance(x, ast.Return) and isinstance(x.value, ast.Tuple) and len(x.value.elts) == 2]:
        blk = parent(r)
        body = None
        for name in ("body", "orelse"):
            if any(r is b for b in getattr(blk, name, [])):
                body = getattr(blk, name)
        if body is None:
            continue
        pe = r.value.elts[1]
        if isinstance(pe, ast.Name):
            asg = [s_ for s_ in body[:body.index(r)] if isinstance(s_, ast.Assign) and norm(s_.targets[0]) == pe.id]
            pe = asg[-1].value if asg else pe
        adv = _pivot_advance(pe, PV)
        if adv is None or adv[0] <= 0:
            continue
        n += 1
        loops = [l for st in body[:body.index(r)] for l in ast.walk(st) if isinstance(l, ast.For)
                 and any((call_attr(c) or getattr(c.func, "id", "")) == "tab_row_sum" and len(c.args) == 3 and isinstance(l.target, ast.Name)
                         and norm(c.args[2]) == l.target.id for c in calls_in(l))]
        srcs = set()
        for l in loops:
            it = l.iter
            while isinstance(it, ast.Subscript):
                it = it.value
            srcs.add(norm(it))
        deleg = 0
        for st in body[:body.index(r)]:
            for c in calls_in(st):
                nm = call_attr(c) or getattr(c.func, "id", "")
                deleg += 1 if nm == "_process_one_pauli" else 2 if nm == "_process_two_pauli" else 0
        if len(srcs) + deleg >= adv[0]:
            ctx.ok("rref.inline-step", m, r, what=f"advance by {adv}: {len(srcs)} kind(s) of rows eliminated in the same block, {deleg} through the step helpers")
        else:
            ctx.fail("rref.inline-step", m, r,
                     f"one_step_rref returns a pivot advanced by {adv} after eliminating only {sorted(srcs) or 'no'} row list(s) in that branch: the other pivot row's "
                     f"kind of Pauli is still present further down the column, so the result is not in echelon gauge (the linear 3-cluster given as "
                     f"{{XZI, ZXZ, XIX}} gets the height profile [2, 1, 0] instead of [1, 1, 0])", func="one_step_rref",
                     construct=f"one_step_rref: inline step advances {adv} with {len(srcs)} elimination loop(s)")
    ctx.ok_abstract("rref.inline-step", f"{n} inline column step(s) in one_step_rref")


def rule_loop(ctx: Ctx) -> None:
    """rref.loop: rref repeats one_step_rref, feeding it the pivot it returned, while the pivot is inside the tableau in both directions."""
    repo = ctx.repo
    m = repo.module(STABF)
    fn = m.find("rref")
    if fn is None:
        raise AnalysisError("rref.loop: rref missing")
    ctx.touch(m, fn)
    TB = func_params(fn)[0]
    wl = [w for w in fn.body if isinstance(w, ast.While)]
    if len(wl) != 1:
        raise AnalysisError("rref.loop: the while loop was not found")
    w = wl[0]
    defs = {s.targets[0].id: s.value for s in fn.body if isinstance(s, ast.Assign) and isinstance(s.targets[0], ast.Name)}
    pvs = [k for k, v in defs.items() if isinstance(v, (ast.List, ast.Tuple)) and [norm(e) for e in v.elts] == ["0", "0"]]
    if len(pvs) != 1:
        ctx.fail("rref.loop", m, fn, "rref does not start from the pivot [0, 0]", func="rref", construct="rref: initial pivot")
        return
    PV = pvs[0]
    nq = {k for k, v in defs.items() if norm(v) in (f"{TB}.n_qubits", f"np.shape({TB}.x_matrix)[0]", f"{TB}.x_matrix.shape[0]")} | {f"{TB}.n_qubits"}
    conds = w.test.values if isinstance(w.test, ast.BoolOp) and isinstance(w.test.op, ast.And) else [w.test]
    inside = set()
    for c in conds:
        if isinstance(c, ast.Compare) and len(c.ops) == 1:
            try:
                l, r = linear.lin(c.left), linear.lin(c.comparators[0])
            except Exception:
                continue
            if l is None or r is None:
                continue
            # `n - 1 >= pivot[i]` is `pivot[i] <= n - 1`: put the pivot coordinate on the left
            if not any(l.get(f"{PV}[{i}]", 0) == 1 for i in (0, 1)) and any(r.get(f"{PV}[{i}]", 0) == 1 for i in (0, 1)):
                mir = {ast.Lt: ast.Gt, ast.Gt: ast.Lt, ast.LtE: ast.GtE, ast.GtE: ast.LtE}.get(type(c.ops[0]))
                if mir is None:
                    continue
                l, r = r, l
                c = ast.Compare(left=c.comparators[0], ops=[mir()], comparators=[c.left])
            for i in (0, 1):
                base = f"{PV}[{i}]"
                if l.get(base, 0) == 1:
                    d = {k: r.get(k, 0) - l.get(k, 0) for k in set(l) | set(r) if k != base}
                    ns = [k for k in d if k in nq and d[k] == 1]
                    const = d.get("", 0)
                    rest = [k for k in d if k not in nq and k != "" and d[k] != 0]
                    if len(ns) == 1 and not rest:
                        # pivot[i] <op> n + const
                        if (isinstance(c.ops[0], ast.LtE) and const == -1) or (isinstance(c.ops[0], ast.Lt) and const == 0):
                            inside.add(i)
    if inside != {0, 1} or len(conds) != 2:
        ctx.fail("rref.loop", m, w.test, f"the loop condition `{short(w.test)}` is not `pivot row < n and pivot column < n`: the reduction stops early or runs past the tableau",
                 func="rref", construct="rref: loop condition")
    else:
        ctx.ok("rref.loop", m, w.test, what="pivot inside the tableau in both directions")
    steps = [s for s in w.body if isinstance(s, ast.Assign) and isinstance(s.value, ast.Call) and (call_attr(s.value) or getattr(s.value.func, "id", "")) == "one_step_rref"]
    if len(steps) == 1 and len(w.body) == 1 and [norm(a) for a in steps[0].value.args] == [TB, PV] and isinstance(steps[0].targets[0], ast.Tuple) \
            and [norm(e) for e in steps[0].targets[0].elts] == [TB, PV]:
        ctx.ok("rref.loop", m, steps[0], what="tableau, pivot = one_step_rref(tableau, pivot)")
    else:
        ctx.fail("rref.loop", m, w, "the loop body is not `tableau, pivot = one_step_rref(tableau, pivot)`", func="rref", construct="rref: loop body")
    rets = [r for r in fn.body if isinstance(r, ast.Return)]
    if not rets or rets[-1].value is None or norm(rets[-1].value) != TB:
        ctx.fail("rref.loop", m, fn, "rref does not return the reduced tableau", func="rref", construct="rref: return")


def rule_leftmost(ctx: Ctx) -> None:
    """height.leftmost: leftmost_nontrivial_index returns the smallest column in which the generator's x or z bit is set."""
    repo = ctx.repo
    m = repo.module(HEIGHT)
    fn = m.find("leftmost_nontrivial_index")
    if fn is None:
        raise AnalysisError("height.leftmost: leftmost_nontrivial_index missing")
    ctx.touch(m, fn)
    TB, G = func_params(fn)[:2]
    defs = {s.targets[0].id: s.value for s in fn.body if isinstance(s, ast.Assign) and isinstance(s.targets[0], ast.Name)}
    rets = [r for r in ast.walk(fn) if isinstance(r, ast.Return) and r.value is not None]
    if len(rets) != 1:
        raise AnalysisError("height.leftmost: single return expected")
    v = rets[0].value
    first = False
    if isinstance(v, ast.Subscript) and norm(v.slice) == "0":
        first, v = True, v.value
    elif isinstance(v, ast.Call) and call_name(v) in ("min", "np.min") and len(v.args) == 1:
        first, v = True, v.args[0]
    if isinstance(v, ast.Name) and v.id in defs:
        v = defs[v.id]
    src = None
    if isinstance(v, ast.Subscript) and norm(v.slice) == "0" and isinstance(v.value, ast.Call) and call_name(v.value) in ("np.nonzero", "np.flatnonzero"):
        src = v.value.args[0]
    elif isinstance(v, ast.Call) and call_name(v) == "np.flatnonzero":
        src = v.args[0]
    if isinstance(src, ast.Name) and src.id in defs:
        src = defs[src.id]
    xs, zs = f"{TB}.x_matrix[{G}]", f"{TB}.z_matrix[{G}]"
    both = isinstance(src, ast.BinOp) and isinstance(src.op, (ast.Add, ast.BitOr)) and {norm(src.left), norm(src.right)} == {xs, zs}
    if isinstance(src, ast.Call) and call_name(src) in ("np.logical_or", "np.bitwise_or", "np.maximum") and len(src.args) == 2:
        both = {norm(src.args[0]), norm(src.args[1])} == {xs, zs}
    if first and both:
        ctx.ok("height.leftmost", m, rets[0], what="first nonzero of x | z of the generator")
    else:
        why = []
        if not first:
            why.append("does not return the first (smallest) nonzero position")
        if not both:
            why.append(f"the support is `{short(src) if src is not None else '?'}`, not the union of the generator's x and z bits")
        ctx.fail("height.leftmost", m, rets[0], "leftmost_nontrivial_index " + "; ".join(why), func="leftmost_nontrivial_index",
                 construct="leftmost_nontrivial_index: shape")


def rule_elim_direction(ctx: Ctx) -> None:
    """elim.direction: in the elimination routines of stabilizer.py (inverse_circuit, canonical_form, the rref helpers) a row is cleared by
    multiplying the *pivot row into it*: tab_row_sum(tableau, pivot_row, row) with the row being visited by the innermost loop as the
    target.  With the two swapped the pivot row is overwritten again and again and the visited rows keep their entry."""
    repo = ctx.repo
    m = repo.module(STABF)
    n = 0
    for fn in [f for f in m.tree.body if isinstance(f, ast.FunctionDef) and f.name not in ("tab_row_sum", "tab_row_swap")]:
        for lp in [l for l in ast.walk(fn) if isinstance(l, ast.For) and isinstance(l.target, ast.Name)]:
            v = lp.target.id
            for st in lp.body:
                # only calls whose innermost enclosing loop is this one
                for c in [x for x in ast.walk(st) if isinstance(x, ast.Call) and (call_attr(x) or getattr(x.func, "id", "")) == "tab_row_sum" and len(x.args) == 3]:
                    inner = next((a for a in _ancestors(c) if isinstance(a, ast.For)), None)
                    if inner is not lp:
                        continue
                    a_names = {y.id for y in ast.walk(c.args[1]) if isinstance(y, ast.Name)}
                    b_names = {y.id for y in ast.walk(c.args[2]) if isinstance(y, ast.Name)}
                    if v not in a_names and v not in b_names:
                        continue
                    n += 1
                    ctx.touch(m, fn)
                    if v in b_names and v not in a_names:
                        ctx.ok("elim.direction", m, c, what=f"{fn.name}: pivot row multiplied into the visited row `{v}`")
                    else:
                        ctx.fail("elim.direction", m, c,
                                 f"{fn.name}: `{short(c)}` multiplies the visited row `{v}` into `{short(c.args[2])}`; the row being cleared must be the target "
                                 f"(third argument) and the pivot row the one that is added: as written the pivot row accumulates every visited row and "
                                 f"the visited rows keep the entry that was to be eliminated", func=fn.name,
                                 construct=f"{fn.name}: tab_row_sum direction ({short(c.args[1], 20)}, {short(c.args[2], 20)})")
    if n < 6:
        raise AnalysisError(f"elim.direction: only {n} elimination calls found in stabilizer.py (8 confirmed by hand)")


def _ancestors(n):
    p = parent(n)
    while p is not None:
        yield p
        p = parent(p)


def arm(ctx: Ctx) -> None:
    rule_elim_direction(ctx)
    rule_classify(ctx)
    rule_dispatch(ctx)
    rule_steps(ctx)
    rule_inline_step(ctx)
    rule_loop(ctx)
    rule_leftmost(ctx)
